//! C35 — distance kernels agree with the scalar definitions; nearest-centroid assignment is minimal.
//!
//! The per-path monitors live in `k35.rs` (shared with the Miri leg). This file drives them over ALL
//! vector lengths 0..=1100 for every element type and adds the argmin / k-means assignment oracles
//! (lance-index is too heavy for Miri, so those stay native).
use crate::k35::*;
use crate::prng::{fnv, Rng};
use arrow_array::types::{Float16Type, Float32Type, Float64Type, UInt8Type};
use arrow_array::{Array, FixedSizeListArray, PrimitiveArray};
use arrow_schema::{DataType, Field};
use half::f16;
use lance_index::vector::kmeans::{compute_partition, compute_partitions_arrow_array, kmeans_find_partitions_arrow_array};
use lance_linalg::distance::DistanceType;
use lance_linalg::kernels::{argmax, argmax_opt, argmin, argmin_opt, argmin_value, argmin_value_float, argmin_value_float_with_bias};
use serde_json::json;
use std::sync::atomic::{AtomicU64, Ordering};
use std::sync::Arc;
use vmon::report::{Args, Report};

const MAX_LEN: usize = 1100;
const TYPES: [&str; 5] = ["f32", "f64", "f16", "bf16", "u8"];

fn unit_rng(seed: u64, ty: usize, n: usize, rep: u64) -> Rng {
    Rng::for_case(seed, (3u64 << 40) + ((ty * 2048 + n) as u64) * 4096 + rep)
}

fn run_unit(seed: u64, ty: usize, n: usize, rep: u64, policy: &Policy, corrupt: bool, out: &mut Out) {
    let mut rng = unit_rng(seed, ty, n, rep);
    let shape = SHAPES[((n as u64 + rep * 5 + ty as u64) % SHAPES.len() as u64) as usize];
    match ty {
        0 => check_case::<f32>(&mut rng, n, shape, policy, corrupt, out),
        1 => check_case::<f64>(&mut rng, n, shape, policy, corrupt, out),
        2 => check_case::<f16>(&mut rng, n, shape, policy, corrupt, out),
        3 => check_case::<half::bf16>(&mut rng, n, shape, policy, corrupt, out),
        _ => check_case::<u8>(&mut rng, n, shape, policy, corrupt, out),
    }
}

fn flush(report: &Report, out: Out, ctx: serde_json::Value) {
    report.cases(out.evaluations);
    for s in out.nontrivial {
        report.nontrivial(s);
    }
    for (k, v) in out.counters {
        report.count(&k, v);
    }
    for f in out.failures {
        let mut w = ctx.clone();
        w["detail"] = json!(f.detail);
        report.violation(&f.sig, &f.what, w);
    }
}

// ---------------------------------------------------------------------------------------------
// argmin family
// ---------------------------------------------------------------------------------------------

fn check_argmin(rng: &mut Rng, corrupt: bool, out: &mut Out) {
    let n = *rng.pick(&[0usize, 1, 2, 3, 7, 8, 9, 31, 100, 1000]);
    let mode = rng.below(5);
    let v: Vec<f32> = (0..n)
        .map(|_| match mode {
            0 => (rng.f64() * 2.0 - 1.0) as f32 * 100.0,
            1 => rng.below(4) as f32, // many ties
            2 => {
                if rng.chance(1, 3) {
                    f32::NAN
                } else {
                    rng.f64() as f32
                }
            }
            3 => {
                if rng.chance(1, 3) {
                    f32::INFINITY
                } else if rng.chance(1, 5) {
                    f32::NEG_INFINITY
                } else {
                    rng.f64() as f32 - 0.5
                }
            }
            _ => f32::NAN,
        })
        .collect();
    out.evaluations += 1;
    let min_ok = |i: u32, strict_bound: f32| -> Option<String> {
        let i = i as usize;
        if i >= v.len() {
            return Some(format!("index {i} out of range {}", v.len()));
        }
        if v[i].is_nan() {
            return Some(format!("index {i} is NaN"));
        }
        let _ = strict_bound;
        if let Some(j) = v.iter().position(|x| *x < v[i]) {
            return Some(format!("index {i} ({}) is not minimal: v[{j}] = {}", v[i], v[j]));
        }
        None
    };
    let adjust = |r: Option<u32>| -> Option<u32> {
        if corrupt {
            r.map(|i| (i + 1) % (v.len().max(1) as u32))
        } else {
            r
        }
    };
    // argmin / argmin_value / argmin_opt: None iff no value compares below T::max_value()
    let any_below_max = v.iter().any(|x| *x < f32::MAX);
    for (path, got) in [
        ("argmin", adjust(argmin(v.iter().copied()))),
        ("argmin_value", adjust(argmin_value(v.iter().copied()).map(|x| x.0))),
        ("argmin_opt", adjust(argmin_opt(v.iter().map(|x| Some(*x))))),
    ] {
        match got {
            Some(i) => {
                if let Some(d) = min_ok(i, f32::MAX) {
                    out.failures.push(Failure { sig: format!("argmin-not-minimal-{path}"), what: "argmin returned a non-minimal index".into(), detail: format!("mode {mode} n {n}: {d}") });
                } else {
                    out.count("argmin_judged", 1);
                }
            }
            None => {
                if any_below_max {
                    out.failures.push(Failure { sig: format!("argmin-none-{path}"), what: "argmin returned None although a comparable value exists".into(), detail: format!("mode {mode} n {n} v[..8]={:?}", &v[..n.min(8)]) });
                } else {
                    out.count("argmin_none_ok", 1);
                }
            }
        }
    }
    // float version: None iff nothing is < +inf
    let any_below_inf = v.iter().any(|x| *x < f32::INFINITY);
    match adjust(argmin_value_float(v.iter().copied()).map(|x| x.0)) {
        Some(i) => {
            if let Some(d) = min_ok(i, f32::INFINITY) {
                out.failures.push(Failure { sig: "argmin-not-minimal-argmin_value_float".into(), what: "argmin returned a non-minimal index".into(), detail: format!("mode {mode} n {n}: {d}") });
            } else {
                out.count("argmin_judged", 1);
            }
        }
        None => {
            if any_below_inf {
                out.failures.push(Failure { sig: "argmin-none-argmin_value_float".into(), what: "argmin returned None although a finite value exists".into(), detail: format!("mode {mode} n {n}") });
            }
        }
    }
    // with bias: minimal value + bias, returns the un-biased value
    let bias: Vec<f32> = (0..n).map(|_| rng.below(3) as f32).collect();
    let got = argmin_value_float_with_bias(v.iter().copied(), Some(bias.iter().copied()));
    let sums: Vec<f32> = v.iter().zip(&bias).map(|(a, b)| a + b).collect();
    match got {
        Some((i, val)) => {
            let i = i as usize;
            let bad = i >= n || sums[i].is_nan() || sums.iter().any(|s| *s < sums[i]) || val.to_bits() != v[i].to_bits();
            if bad {
                out.failures.push(Failure { sig: "argmin-not-minimal-with_bias".into(), what: "argmin_value_float_with_bias returned a non-minimal index / wrong value".into(), detail: format!("mode {mode} n {n} i {i} val {val}") });
            } else {
                out.count("argmin_judged", 1);
            }
        }
        None => {
            if sums.iter().any(|s| *s < f32::INFINITY) {
                out.failures.push(Failure { sig: "argmin-none-with_bias".into(), what: "argmin_value_float_with_bias returned None although a finite value exists".into(), detail: format!("mode {mode} n {n}") });
            }
        }
    }
    // argmax: None iff nothing compares above T::min_value()
    let any_above_min = v.iter().any(|x| *x > f32::MIN);
    for (path, got) in [("argmax", argmax(v.iter().copied())), ("argmax_opt", argmax_opt(v.iter().map(|x| Some(*x))))] {
        match got {
            Some(i) => {
                let i = i as usize;
                if i >= n || v[i].is_nan() || v.iter().any(|x| *x > v[i]) {
                    out.failures.push(Failure { sig: format!("argmax-not-maximal-{path}"), what: "argmax returned a non-maximal index".into(), detail: format!("mode {mode} n {n} i {i}") });
                } else {
                    out.count("argmin_judged", 1);
                }
            }
            None => {
                if any_above_min {
                    out.failures.push(Failure { sig: format!("argmax-none-{path}"), what: "argmax returned None although a comparable value exists".into(), detail: format!("mode {mode} n {n}") });
                }
            }
        }
    }
    // integer argmin
    let vi: Vec<i32> = (0..n).map(|_| rng.range(-5, 5) as i32).collect();
    match argmin(vi.iter().copied()) {
        Some(i) => {
            if vi.iter().any(|x| *x < vi[i as usize]) {
                out.failures.push(Failure { sig: "argmin-not-minimal-i32".into(), what: "argmin returned a non-minimal index".into(), detail: format!("{vi:?} -> {i}") });
            }
        }
        None => {
            if n > 0 {
                out.failures.push(Failure { sig: "argmin-none-i32".into(), what: "argmin returned None for a non-empty integer list".into(), detail: format!("{vi:?}") });
            }
        }
    }
    if n > 1 && mode != 4 {
        out.nontrivial.push(fnv(format!("argmin|{n}|{mode}").as_bytes()));
    }
}

// ---------------------------------------------------------------------------------------------
// nearest-centroid assignment
// ---------------------------------------------------------------------------------------------

fn fsl_of<T: Elem>(vals: &[T], dim: usize) -> Option<FixedSizeListArray> {
    let arr = T::arrow(vals)?;
    let field = Arc::new(Field::new("item", arr.data_type().clone(), true));
    Some(FixedSizeListArray::new(field, dim as i32, arr, None))
}

fn check_kmeans<T: Elem>(rng: &mut Rng, corrupt: bool, out: &mut Out) {
    let dim = *rng.pick(&[1usize, 2, 3, 7, 8, 9, 15, 16, 17, 31, 32, 33, 64, 100, 128, 255, 256, 257, 700]);
    let k = rng.urange(1, 24);
    let m = rng.urange(1, 40);
    let is_u8 = T::ACC == Acc::Int;
    let dt = if is_u8 { DistanceType::Hamming } else if rng.bool() { DistanceType::L2 } else { DistanceType::Dot };
    let scale = if is_u8 { 1.0 } else { 10f64.powi(rng.range(-3, 3) as i32) };
    let near = rng.chance(1, 3); // vectors close to centroids => small gaps between candidates
    let cents: Vec<f64> = (0..k * dim).map(|_| if is_u8 { rng.below(256) as f64 } else { (rng.f64() * 2.0 - 1.0) * scale }).collect();
    let mut vecs: Vec<f64> = Vec::with_capacity(m * dim);
    let mut nan_rows = vec![false; m];
    for r in 0..m {
        let c = rng.usize_below(k);
        let all_nan = !is_u8 && rng.chance(1, 15);
        nan_rows[r] = all_nan;
        for i in 0..dim {
            let v = if all_nan {
                f64::NAN
            } else if is_u8 {
                if near { (cents[c * dim + i] as u8 ^ (if rng.chance(1, 8) { 1 << rng.below(8) } else { 0 })) as f64 } else { rng.below(256) as f64 }
            } else if near {
                cents[c * dim + i] + (rng.f64() - 0.5) * scale * 1e-2
            } else {
                (rng.f64() * 2.0 - 1.0) * scale
            };
            vecs.push(v);
        }
    }
    // duplicate centroid => exact ties
    let mut cents = cents;
    if k > 1 && rng.chance(1, 4) {
        let (a, b) = (rng.usize_below(k), rng.usize_below(k));
        for i in 0..dim {
            cents[a * dim + i] = cents[b * dim + i];
        }
    }
    let ct: Vec<T> = cents.iter().map(|v| T::from_f64(*v)).collect();
    let vt: Vec<T> = vecs.iter().map(|v| T::from_f64(*v)).collect();
    let cf: Vec<f64> = ct.iter().map(|v| v.to_f64()).collect();
    let vf: Vec<f64> = vt.iter().map(|v| v.to_f64()).collect();
    out.evaluations += 1;
    // reference distances + per-pair tolerance
    let acc = T::ACC;
    let gam = |n: usize| -> f64 {
        let u = match acc { Acc::F32 => 5.96e-8, Acc::F64Cast => 1.2e-16, Acc::Int => 0.0 };
        2.0 * (n as f64 + 8.0) * u + 2.0 * 5.96e-8
    };
    let dist = |r: usize, c: usize| -> (f64, f64) {
        let x = &vf[r * dim..(r + 1) * dim];
        let y = &cf[c * dim..(c + 1) * dim];
        match dt {
            DistanceType::Hamming => {
                let d: u32 = x.iter().zip(y).map(|(a, b)| ((*a as u8) ^ (*b as u8)).count_ones()).sum();
                (d as f64, 0.0)
            }
            DistanceType::L2 => {
                let rf = reference(x, y);
                (rf.sq, gam(dim) * rf.sq + 1e-40)
            }
            _ => {
                let rf = reference(x, y);
                (1.0 - rf.dot, gam(dim) * (rf.dot_abs + (1.0 - rf.dot).abs()) + 1e-40)
            }
        }
    };
    let (Some(cfsl), Some(vfsl)) = (fsl_of(&ct, dim), fsl_of(&vt, dim)) else { return };
    let tname = T::NAME;
    let dname = format!("{dt}");
    let res = std::panic::catch_unwind(std::panic::AssertUnwindSafe(|| compute_partitions_arrow_array(&cfsl, &vfsl, dt)));
    let (parts, dists) = match res {
        Err(p) => {
            out.failures.push(Failure { sig: format!("kmeans-panic-compute_partitions-{tname}-{dname}"), what: "compute_partitions_arrow_array panicked".into(), detail: panic_msg(p) });
            return;
        }
        Ok(Err(e)) => {
            out.failures.push(Failure { sig: format!("kmeans-err-compute_partitions-{tname}-{dname}"), what: "compute_partitions_arrow_array failed on matching types".into(), detail: e.to_string() });
            return;
        }
        Ok(Ok(x)) => x,
    };
    if parts.len() != m || dists.len() != m {
        out.failures.push(Failure { sig: format!("kmeans-len-compute_partitions-{tname}"), what: "wrong number of assignments".into(), detail: format!("m {m} got {} / {}", parts.len(), dists.len()) });
        return;
    }
    for r in 0..m {
        let all: Vec<(f64, f64)> = (0..k).map(|c| dist(r, c)).collect();
        let best = all.iter().map(|(d, t)| d + t).fold(f64::INFINITY, f64::min);
        let got = if corrupt { parts[r].map(|c| (c + 1) % k as u32) } else { parts[r] };
        match got {
            None => {
                if !nan_rows[r] {
                    out.failures.push(Failure { sig: format!("kmeans-unassigned-{tname}-{dname}"), what: "a valid vector was not assigned to any centroid".into(), detail: format!("dim {dim} k {k} row {r}") });
                } else {
                    out.count("kmeans_nan_rows_unassigned", 1);
                }
            }
            Some(c) => {
                let c = c as usize;
                if nan_rows[r] {
                    out.failures.push(Failure { sig: format!("kmeans-nan-assigned-{tname}-{dname}"), what: "an all-NaN vector was assigned to a centroid (documented: None)".into(), detail: format!("dim {dim} k {k} row {r} -> {c}") });
                    continue;
                }
                if c >= k {
                    out.failures.push(Failure { sig: format!("kmeans-out-of-range-{tname}"), what: "assigned centroid id out of range".into(), detail: format!("k {k} got {c}") });
                    continue;
                }
                let (d, t) = all[c];
                if d - t > best {
                    let (bi, _) = all.iter().enumerate().min_by(|a, b| a.1 .0.total_cmp(&b.1 .0)).unwrap();
                    out.failures.push(Failure {
                        sig: format!("kmeans-not-nearest-{tname}-{dname}"),
                        what: "assigned centroid is not at minimal distance (beyond rounding tolerance)".into(),
                        detail: format!("dim {dim} k {k} row {r}: chose {c} at true distance {d:e}, centroid {bi} is at {:e} (tol {t:e})", all[bi].0),
                    });
                } else {
                    out.count("kmeans_assignments_judged", 1);
                }
                if let Some(gd) = dists[r] {
                    if ((gd as f64) - d).abs() > t + 6e-8 * d.abs() {
                        out.failures.push(Failure { sig: format!("kmeans-dist-{tname}-{dname}"), what: "distance returned with the assignment differs from the true distance".into(), detail: format!("dim {dim} row {r} c {c}: got {gd:e} expected {d:e} tol {t:e}") });
                    }
                }
                // single-vector entry point (float types, L2 / Dot)
            }
        }
    }
    // kmeans_find_partitions: nprobes smallest
    if !nan_rows[0] {
        let nprobes = rng.urange(1, k);
        let q = T::arrow(&vt[0..dim]).unwrap();
        if let Ok(Ok((idx, ds))) = std::panic::catch_unwind(std::panic::AssertUnwindSafe(|| kmeans_find_partitions_arrow_array(&cfsl, q.as_ref(), nprobes, dt))) {
            let chosen: Vec<usize> = idx.values().iter().map(|x| *x as usize).collect();
            let all: Vec<(f64, f64)> = (0..k).map(|c| dist(0, c)).collect();
            let distinct: std::collections::BTreeSet<usize> = chosen.iter().copied().collect();
            if chosen.len() != nprobes.min(k) || distinct.len() != chosen.len() {
                out.failures.push(Failure { sig: format!("kmeans-find-count-{tname}"), what: "find_partitions returned a wrong number of (distinct) partitions".into(), detail: format!("k {k} nprobes {nprobes} got {chosen:?}") });
            } else {
                let worst_in = chosen.iter().map(|c| all[*c].0 - all[*c].1).fold(f64::NEG_INFINITY, f64::max);
                let best_out = (0..k).filter(|c| !distinct.contains(c)).map(|c| all[c].0 + all[c].1).fold(f64::INFINITY, f64::min);
                if worst_in > best_out {
                    out.failures.push(Failure { sig: format!("kmeans-find-not-nearest-{tname}-{dname}"), what: "find_partitions omitted a strictly nearer partition".into(), detail: format!("dim {dim} k {k} nprobes {nprobes}: worst chosen {worst_in:e} > best omitted {best_out:e}") });
                } else {
                    out.count("kmeans_find_partitions_judged", 1);
                }
                for (p, c) in chosen.iter().enumerate() {
                    let (d, t) = all[*c];
                    if ((ds.value(p) as f64) - d).abs() > t + 6e-8 * d.abs() {
                        out.failures.push(Failure { sig: format!("kmeans-find-dist-{tname}-{dname}"), what: "find_partitions distance differs from the true distance".into(), detail: format!("c {c} got {:e} expected {d:e}", ds.value(p)) });
                    }
                }
            }
        } else {
            out.failures.push(Failure { sig: format!("kmeans-find-failed-{tname}-{dname}"), what: "kmeans_find_partitions_arrow_array failed / panicked on matching types".into(), detail: format!("dim {dim} k {k}") });
        }
    }
    if k > 1 {
        out.nontrivial.push(fnv(format!("kmeans|{tname}|{dname}|{dim}|{k}|{near}").as_bytes()));
    }
}

fn check_compute_partition_f32(rng: &mut Rng, out: &mut Out) {
    let dim = *rng.pick(&[1usize, 3, 8, 15, 16, 17, 33, 128, 257]);
    let k = rng.urange(1, 20);
    let dt = if rng.bool() { DistanceType::L2 } else { DistanceType::Dot };
    let c: Vec<f32> = (0..k * dim).map(|_| (rng.f64() * 2.0 - 1.0) as f32).collect();
    let v: Vec<f32> = (0..dim).map(|_| (rng.f64() * 2.0 - 1.0) as f32).collect();
    let vf: Vec<f64> = v.iter().map(|x| *x as f64).collect();
    out.evaluations += 1;
    let d: Vec<(f64, f64)> = (0..k)
        .map(|j| {
            let rf = reference(&vf, &c[j * dim..(j + 1) * dim].iter().map(|x| *x as f64).collect::<Vec<_>>());
            let g = 2.0 * (dim as f64 + 8.0) * 5.96e-8;
            if dt == DistanceType::L2 { (rf.sq, g * rf.sq) } else { (1.0 - rf.dot, g * (rf.dot_abs + (1.0 - rf.dot).abs())) }
        })
        .collect();
    match compute_partition(&c, &v, dt) {
        None => out.failures.push(Failure { sig: "kmeans-unassigned-compute_partition-f32".into(), what: "compute_partition returned None for a finite vector".into(), detail: format!("dim {dim} k {k}") }),
        Some(ci) => {
            let ci = ci as usize;
            let best = d.iter().map(|(a, t)| a + t).fold(f64::INFINITY, f64::min);
            if ci >= k || d[ci].0 - d[ci].1 > best {
                out.failures.push(Failure { sig: format!("kmeans-not-nearest-compute_partition-f32-{dt}"), what: "compute_partition chose a non-minimal centroid".into(), detail: format!("dim {dim} k {k} chose {ci}") });
            } else {
                out.count("kmeans_assignments_judged", 1);
            }
        }
    }
}

// ---------------------------------------------------------------------------------------------

fn selftest(args: &Args) -> i32 {
    let policy = probe_policy();
    let mut fired = 0;
    let mut total = 0;
    for ty in 0..5 {
        for n in [1usize, 7, 8, 9, 33, 64, 257, 1100] {
            let mut out = Out::default();
            for rep in 0..4 {
                run_unit(args.seed, ty, n, rep, &policy, true, &mut out);
            }
            total += 1;
            if !out.failures.is_empty() {
                fired += 1;
            } else {
                eprintln!("selftest: perturbation NOT detected ty {} n {n}", TYPES[ty]);
            }
        }
    }
    for n in [1usize, 63, 64, 65, 1100] {
        let mut out = Out::default();
        let mut rng = Rng::for_case(args.seed, n as u64);
        check_hamming(&mut rng, n, &policy, true, &mut out);
        total += 1;
        fired += (!out.failures.is_empty()) as u32;
    }
    for i in 0..20u64 {
        let mut out = Out::default();
        let mut rng = Rng::for_case(args.seed, 1000 + i);
        check_kmeans::<f32>(&mut rng, true, &mut out);
        total += 1;
        if !out.failures.is_empty() {
            fired += 1;
        } else {
            eprintln!("selftest: kmeans corruption NOT detected case {i}");
        }
    }
    let mut am = 0;
    for i in 0..40u64 {
        let mut out = Out::default();
        let mut rng = Rng::for_case(args.seed, 2000 + i);
        check_argmin(&mut rng, true, &mut out);
        am += (!out.failures.is_empty()) as u32;
    }
    println!("SELFTEST C35 fired={fired} of {total}; argmin corruptions detected in {am} of 40 lists (lists with ties / n<=1 cannot detect)");
    if fired == total && am >= 10 { 0 } else { 2 }
}

pub fn run(args: &Args) -> i32 {
    if args.extra.contains_key("selftest") {
        return selftest(args);
    }
    let report = Report::new(
        args,
        "exploration",
        "Every public L2 / cosine / dot / norm / hamming entry point (simple, trait, batch, Arrow batch with sliced inputs and nulls, DistanceType fn pointers) for f32/f64/f16/bf16/u8 (+Int8 Arrow) at ALL vector lengths 0..=1100 x value shapes (uniform, positive, sparse, near-equal, constant, zero vectors, mixed magnitudes, NaN/inf) x scales 1e-30..1e30 at random sub-slice offsets, compared with the f64 scalar definition under tolerance c*(n+8)*u*sum|terms| (+underflow term); non-trivial iff n>0 and the reference L2 is non-zero and inside the f32 range, distinct by (type, length, shape, scale decade, equal-scale flag). Plus argmin family on lists with NaN/inf/ties and nearest-centroid assignment (compute_partitions_arrow_array, compute_partition, kmeans_find_partitions) against brute force in f64.",
        (40, 600),
    )
    .with_min_nontrivial(2000);
    let policy = probe_policy();
    report.set("policy_recorded_first", json!(policy));
    report.assume("NaN / zero-norm / empty-vector behaviour is taken from a probe of the f32 simple paths at start-up (see policy_recorded_first) and then required of every other path, type and length");
    report.assume("cosine is judged only when norms^2 and sum|x*y| lie in [1e-30, 1e37] (no intermediate overflow / underflow in f32); dot is not judged when sum|x*y| can overflow a partial f32 sum although the result is representable; such cases are counted as values_out_of_f32_range_not_judged");
    report.assume("the optional fp16 C kernels (feature fp16kernels) are not built by default and are not covered");
    let nan_ok = ["l2/nan-input", "dot/nan-input", "cosine/nan-input"].iter().all(|k| policy.get(*k).map(|s| s == "nan").unwrap_or(false));
    if !nan_ok {
        report.inconclusive("recorded NaN policy is not NaN-propagation; 'special' shape is judged against IEEE semantics and may need review");
    }

    if let Some(path) = &args.replay {
        if std::env::var("VERIF_EVIDENCE_OUT").is_err() {
            std::env::set_var("VERIF_EVIDENCE_OUT", format!("{}/work/replay-evidence-C35.json", vmon::report::verif_root()));
        }
        let v: serde_json::Value = std::fs::read_to_string(path).ok().and_then(|t| serde_json::from_str(&t).ok()).unwrap_or_default();
        let w = &v["witness"];
        let mut out = Out::default();
        match w["engine"].as_str() {
            Some("paths") => run_unit(w["seed"].as_u64().unwrap_or(1), w["ty"].as_u64().unwrap_or(0) as usize, w["n"].as_u64().unwrap_or(0) as usize, w["rep"].as_u64().unwrap_or(0), &policy, false, &mut out),
            _ => {
                report.harness_error("replay supports engine=paths witnesses only (others: rerun with the same seed)");
                return report.finish();
            }
        }
        println!("REPLAY C35: {} failures", out.failures.len());
        let code = if out.failures.is_empty() { 0 } else { 1 };
        flush(&report, out, w.clone());
        let _ = report.finish();
        return code;
    }

    let reps: u64 = args.tier.pick(60, 2000);
    let threads = crate::quiet::threads();
    // ---- all lengths x all types ----
    let next = AtomicU64::new(0);
    let total_units = (5 * (MAX_LEN + 1)) as u64;
    let lengths_done = AtomicU64::new(0);
    std::thread::scope(|s| {
        for _ in 0..threads {
            s.spawn(|| loop {
                let u = next.fetch_add(1, Ordering::Relaxed);
                if u >= total_units {
                    break;
                }
                // interleave: longest vectors first so that the time cap cannot starve the tails
                let ty = (u % 5) as usize;
                let n = MAX_LEN - (u / 5) as usize;
                for rep in 0..reps {
                    if rep > 0 && !report.time_left() {
                        break;
                    }
                    let mut out = Out::default();
                    run_unit(args.seed, ty, n, rep, &policy, false, &mut out);
                    if ty == 0 {
                        let mut rng = unit_rng(args.seed, 7, n, rep);
                        check_f32_only(&mut rng, n, &mut out);
                        check_int8_arrow(&mut rng, n, &mut out);
                    }
                    if ty == 4 {
                        let mut rng = unit_rng(args.seed, 6, n, rep);
                        check_hamming(&mut rng, n, &policy, false, &mut out);
                    }
                    if rep == 0 && (n == 1100 || n == 17) && report.want_sample() {
                        report.sample(json!({"type": TYPES[ty], "length": n, "shape": SHAPES[((n as u64 + ty as u64) % SHAPES.len() as u64) as usize],
                            "values_judged": out.counters.get("values_judged"), "policy_checks": out.counters.get("policy_checks"),
                            "not_judged_out_of_f32_range": out.counters.get("values_out_of_f32_range_not_judged"), "failures": out.failures.len()}));
                    }
                    flush(&report, out, json!({"engine":"paths","seed":args.seed,"ty":ty,"type":TYPES[ty],"n":n,"rep":rep}));
                }
                lengths_done.fetch_add(1, Ordering::Relaxed);
            });
        }
    });
    report.set("lengths_covered_per_type", json!(format!("0..={MAX_LEN} (all)")));
    report.exhaustive(lengths_done.load(Ordering::Relaxed) == total_units);
    report.set("exhaustive_subspace", json!("vector length 0..=1100 for each of f32/f64/f16/bf16/u8 (>=1 case per (type,length))"));

    // ---- argmin + centroid assignment ----
    let n_arg: u64 = args.tier.pick(20_000, 1_000_000);
    let n_km: u64 = args.tier.pick(6000, 300_000);
    let next = AtomicU64::new(0);
    std::thread::scope(|s| {
        for _ in 0..threads {
            s.spawn(|| loop {
                let i = next.fetch_add(1, Ordering::Relaxed);
                if i >= n_arg + n_km || !report.time_left() {
                    break;
                }
                let mut out = Out::default();
                let mut rng = Rng::for_case(args.seed, (4u64 << 40) + i);
                let engine;
                if i < n_arg {
                    engine = "argmin";
                    check_argmin(&mut rng, false, &mut out);
                } else {
                    engine = "kmeans";
                    match i % 5 {
                        0 => check_kmeans::<f32>(&mut rng, false, &mut out),
                        1 => check_kmeans::<f64>(&mut rng, false, &mut out),
                        2 => check_kmeans::<f16>(&mut rng, false, &mut out),
                        3 => check_kmeans::<u8>(&mut rng, false, &mut out),
                        _ => check_compute_partition_f32(&mut rng, &mut out),
                    }
                }
                flush(&report, out, json!({"engine":engine,"seed":args.seed,"case":i}));
            });
        }
    });
    let _ = (PrimitiveArray::<Float32Type>::from(vec![0f32]).len(), DataType::Float16, std::marker::PhantomData::<(Float16Type, Float64Type, UInt8Type)>);
    report.finish()
}
