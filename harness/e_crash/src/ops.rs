//! Write operations of the public Lance API used as history steps and as the crashed final
//! operation: generation (from the current observed table shape) and execution.

use arrow_array::{Int32Array, Int64Array, RecordBatch, RecordBatchIterator};
use arrow_schema::{DataType, Field, Schema};
use lance::dataset::optimize::{compact_files, CompactionOptions};
use lance::dataset::{
    ColumnAlteration, CommitBuilder, InsertBuilder, MergeInsertBuilder, NewColumnTransform,
    UpdateBuilder, WhenMatched, WhenNotMatched, WhenNotMatchedBySource, WriteMode,
};
use lance::index::vector::VectorIndexParams;
use lance_index::scalar::{BuiltinIndexType, ScalarIndexParams};
use lance_index::{DatasetIndexExt, IndexType};
use lance_linalg::distance::MetricType;
use std::sync::Arc;
use vmon::prng::Rng;
use vmon::table::{Actor, ColSpec, ColTy, IdAlloc, TableSpec};

use crate::common::VersionObs;

#[derive(Clone, Debug)]
pub enum Op {
    Create {
        batch: RecordBatch,
        v2: bool,
        stable_row_ids: bool,
        max_rows_per_file: usize,
    },
    Append {
        batch: RecordBatch,
        max_rows_per_file: usize,
    },
    Overwrite {
        batch: RecordBatch,
    },
    Delete {
        pred: String,
    },
    /// UpdateBuilder (rewrite-rows mode)
    Update {
        pred: Option<String>,
        col: String,
        expr: String,
    },
    /// full-schema merge_insert (rewrite-rows mode)
    MergeInsert {
        batch: RecordBatch,
        update_matched: bool,
        insert_new: bool,
        delete_unmatched: Option<String>,
    },
    /// sub-schema merge_insert: `id` + one column, update only (rewrite-columns mode)
    MergeSubschema {
        batch: RecordBatch,
    },
    Compact {
        target_rows: usize,
        materialize_deletions: bool,
    },
    IndexScalar {
        col: String,
        bitmap: bool,
    },
    IndexVector {
        col: String,
    },
    DropIndex {
        name: String,
    },
    AddColumnSql {
        name: String,
        expr: String,
    },
    AddColumnNulls {
        name: String,
    },
    AlterRename {
        from: String,
        to: String,
    },
    AlterCast {
        col: String,
        to: DataType,
    },
    DropColumn {
        name: String,
    },
    UpdateConfig {
        key: String,
        value: Option<String>,
    },
    Restore {
        version: u64,
    },
    /// CommitBuilder::with_detached(true) of an uncommitted append (V2 manifest paths only)
    DetachedAppend {
        batch: RecordBatch,
    },
}

pub const FINAL_KINDS: &[&str] = &[
    "create",
    "append",
    "overwrite",
    "delete",
    "update",
    "merge_insert",
    "merge_subschema",
    "compact",
    "index_scalar",
    "index_vector",
    "add_column_sql",
    "add_column_nulls",
    "alter_rename",
    "alter_cast",
    "drop_column",
    "update_config",
    "restore",
    "detached_append",
    "drop_index",
];

impl Op {
    pub fn kind(&self) -> &'static str {
        match self {
            Op::Create { .. } => "create",
            Op::Append { .. } => "append",
            Op::Overwrite { .. } => "overwrite",
            Op::Delete { .. } => "delete",
            Op::Update { .. } => "update",
            Op::MergeInsert { .. } => "merge_insert",
            Op::MergeSubschema { .. } => "merge_subschema",
            Op::Compact { .. } => "compact",
            Op::IndexScalar { .. } => "index_scalar",
            Op::IndexVector { .. } => "index_vector",
            Op::DropIndex { .. } => "drop_index",
            Op::AddColumnSql { .. } => "add_column_sql",
            Op::AddColumnNulls { .. } => "add_column_nulls",
            Op::AlterRename { .. } => "alter_rename",
            Op::AlterCast { .. } => "alter_cast",
            Op::DropColumn { .. } => "drop_column",
            Op::UpdateConfig { .. } => "update_config",
            Op::Restore { .. } => "restore",
            Op::DetachedAppend { .. } => "detached_append",
        }
    }
    /// operations that may legitimately make no commit at all
    pub fn may_noop(&self) -> bool {
        matches!(self, Op::Compact { .. })
    }
    /// how many commits (transactions) one successful call may make: compaction without indices
    /// to remap commits ReserveFragments once per rewrite task and once more before the final Rewrite
    pub fn max_commits(&self) -> u64 {
        match self {
            Op::Compact { .. } => u64::MAX,
            _ => 1,
        }
    }
    /// operations whose successful commit is not part of the branch history
    pub fn is_detached(&self) -> bool {
        matches!(self, Op::DetachedAppend { .. })
    }
    pub fn describe(&self) -> String {
        match self {
            Op::Create {
                batch,
                v2,
                stable_row_ids,
                max_rows_per_file,
            } => format!(
                "create({} rows, {} cols, v2={v2}, stable_row_ids={stable_row_ids}, max_rows_per_file={max_rows_per_file})",
                batch.num_rows(),
                batch.num_columns()
            ),
            Op::Append {
                batch,
                max_rows_per_file,
            } => format!("append({} rows, max_rows_per_file={max_rows_per_file})", batch.num_rows()),
            Op::Overwrite { batch } => format!("overwrite({} rows)", batch.num_rows()),
            Op::Delete { pred } => format!("delete({pred})"),
            Op::Update { pred, col, expr } => format!("update(set {col}={expr} where {pred:?})"),
            Op::MergeInsert {
                batch,
                update_matched,
                insert_new,
                delete_unmatched,
            } => format!(
                "merge_insert({} rows, update_matched={update_matched}, insert_new={insert_new}, delete_unmatched={delete_unmatched:?})",
                batch.num_rows()
            ),
            Op::MergeSubschema { batch } => format!(
                "merge_subschema({} rows, cols {:?})",
                batch.num_rows(),
                batch
                    .schema()
                    .fields()
                    .iter()
                    .map(|f| f.name().clone())
                    .collect::<Vec<_>>()
            ),
            Op::Compact {
                target_rows,
                materialize_deletions,
            } => format!("compact(target_rows={target_rows}, materialize_deletions={materialize_deletions})"),
            Op::IndexScalar { col, bitmap } => {
                format!("create_index({col}, {})", if *bitmap { "bitmap" } else { "btree" })
            }
            Op::IndexVector { col } => format!("create_index({col}, ivf_flat)"),
            Op::DropIndex { name } => format!("drop_index({name})"),
            Op::AddColumnSql { name, expr } => format!("add_column({name} = {expr})"),
            Op::AddColumnNulls { name } => format!("add_column_nulls({name})"),
            Op::AlterRename { from, to } => format!("alter_rename({from} -> {to})"),
            Op::AlterCast { col, to } => format!("alter_cast({col} -> {to})"),
            Op::DropColumn { name } => format!("drop_column({name})"),
            Op::UpdateConfig { key, value } => format!("update_config({key}={value:?})"),
            Op::Restore { version } => format!("restore({version})"),
            Op::DetachedAppend { batch } => format!("detached_append({} rows)", batch.num_rows()),
        }
    }
}

/// What the generator knows about the live table.
#[derive(Clone, Debug)]
pub struct Shape {
    pub exists: bool,
    pub v2: bool,
    pub latest: u64,
    pub versions: Vec<u64>,
    pub ids: Vec<i64>,
    pub schema: Vec<(String, DataType, bool)>,
    pub index_names: Vec<String>,
    pub fragments: usize,
    pub deleted_rows: usize,
    pub config_keys: Vec<String>,
}

impl Shape {
    pub fn absent() -> Self {
        Self {
            exists: false,
            v2: false,
            latest: 0,
            versions: vec![],
            ids: vec![],
            schema: vec![],
            index_names: vec![],
            fragments: 0,
            deleted_rows: 0,
            config_keys: vec![],
        }
    }
    pub fn from_obs(o: &VersionObs, latest: u64, versions: Vec<u64>, v2: bool, arrow: &Schema) -> Self {
        let mut index_names: Vec<String> = o
            .indices
            .iter()
            .map(|s| s.split('|').next().unwrap_or("").to_string())
            .collect();
        index_names.sort();
        index_names.dedup();
        Self {
            exists: true,
            v2,
            latest,
            versions,
            ids: o.rows.keys().copied().collect(),
            schema: arrow
                .fields()
                .iter()
                .map(|f| (f.name().clone(), f.data_type().clone(), f.is_nullable()))
                .collect(),
            index_names,
            fragments: o.fragments,
            deleted_rows: o.deleted_rows,
            config_keys: o.config.keys().cloned().collect(),
        }
    }
    pub fn brief(&self) -> String {
        format!(
            "N={} rows={} cols={} frags={} del={} idx={}",
            self.latest,
            self.ids.len(),
            self.schema.len(),
            self.fragments,
            self.deleted_rows,
            self.index_names.len()
        )
    }
    /// Generator spec matching the live schema (None if a column type is outside the pool).
    pub fn spec(&self) -> Option<TableSpec> {
        let mut cols = vec![];
        for (name, ty, nullable) in self.schema.iter().skip(1) {
            let ty = match ty {
                DataType::Int32 => ColTy::I32,
                DataType::Int64 => ColTy::I64,
                DataType::Float64 => ColTy::F64,
                DataType::Float32 => ColTy::F32,
                DataType::Utf8 => ColTy::Utf8,
                DataType::LargeUtf8 => ColTy::LargeUtf8,
                DataType::Boolean => ColTy::Bool,
                DataType::FixedSizeList(f, d) if f.data_type() == &DataType::Float32 => {
                    ColTy::FslF32(*d)
                }
                _ => return None,
            };
            let is_vec = matches!(ty, ColTy::FslF32(_));
            cols.push(ColSpec {
                name: name.clone(),
                ty,
                nullable: *nullable && !is_vec,
                null_eighths: if *nullable && !is_vec { 2 } else { 0 },
                small_domain: true,
            });
        }
        if self.schema.first().map(|c| c.0.as_str()) != Some("id") {
            return None;
        }
        Some(TableSpec { cols })
    }
    fn int_cols(&self) -> Vec<String> {
        self.schema
            .iter()
            .skip(1)
            .filter(|c| matches!(c.1, DataType::Int32 | DataType::Int64))
            .map(|c| c.0.clone())
            .collect()
    }
    fn vec_cols(&self) -> Vec<String> {
        self.schema
            .iter()
            .filter(|c| matches!(c.1, DataType::FixedSizeList(_, _)))
            .map(|c| c.0.clone())
            .collect()
    }
}

/// batch generated by `spec` but with the exact live schema (field nullability / metadata)
fn batch_for(shape: &Shape, rng: &mut Rng, ids: &[i64]) -> Option<RecordBatch> {
    let spec = shape.spec()?;
    let b = spec.batch(rng, ids);
    let fields: Vec<Field> = shape
        .schema
        .iter()
        .map(|(n, t, nullable)| Field::new(n, t.clone(), *nullable))
        .collect();
    let schema = Arc::new(Schema::new(fields));
    RecordBatch::try_new(schema, b.columns().to_vec()).ok()
}

pub fn initial_spec(rng: &mut Rng) -> TableSpec {
    let mut cols: Vec<(&str, ColTy, bool)> = vec![("v", ColTy::I32, true), ("s", ColTy::Utf8, true)];
    if rng.chance(1, 2) {
        cols.push(("f", ColTy::F64, true));
    }
    if rng.chance(1, 2) {
        cols.push(("vec", ColTy::FslF32(4), false));
    }
    let mut spec = TableSpec::simple(&cols);
    for c in spec.cols.iter_mut() {
        if matches!(c.ty, ColTy::FslF32(_)) {
            c.nullable = false;
            c.null_eighths = 0;
        }
    }
    spec
}

pub fn gen_create(rng: &mut Rng, ids: &mut IdAlloc, force_v2: Option<bool>) -> Op {
    let spec = initial_spec(rng);
    let n = rng.urange(8, 60);
    let batch = spec.batch(rng, &ids.take(n));
    Op::Create {
        batch,
        v2: force_v2.unwrap_or_else(|| rng.chance(1, 2)),
        stable_row_ids: rng.chance(1, 3),
        max_rows_per_file: *rng.pick(&[7usize, 20, 1000]),
    }
}

fn pred_for(rng: &mut Rng, shape: &Shape) -> String {
    let ids = &shape.ids;
    if ids.is_empty() {
        return "id >= 0".into();
    }
    match rng.below(4) {
        0 => {
            let k = *rng.pick(ids);
            format!("id = {k}")
        }
        1 => {
            let k = *rng.pick(ids);
            format!("id <= {k}")
        }
        2 => {
            let m = rng.range(2, 5);
            let r = rng.range(0, m - 1);
            format!("id % {m} = {r}")
        }
        _ => {
            let a = *rng.pick(ids);
            let b = *rng.pick(ids);
            format!("id >= {} AND id <= {}", a.min(b), a.max(b))
        }
    }
}

/// Generate an operation of the requested kind (None = the kind is not applicable to this shape).
pub fn gen_kind(kind: &str, rng: &mut Rng, shape: &Shape, ids: &mut IdAlloc) -> Option<Op> {
    if !shape.exists {
        return if kind == "create" {
            Some(gen_create(rng, ids, None))
        } else {
            None
        };
    }
    Some(match kind {
        "create" => return None,
        "append" => {
            let n = rng.urange(1, 30);
            Op::Append {
                batch: batch_for(shape, rng, &ids.take(n))?,
                max_rows_per_file: *rng.pick(&[5usize, 1000]),
            }
        }
        "overwrite" => {
            let n = rng.urange(1, 30);
            Op::Overwrite {
                batch: batch_for(shape, rng, &ids.take(n))?,
            }
        }
        "detached_append" => {
            if !shape.v2 {
                return None;
            }
            let n = rng.urange(1, 20);
            Op::DetachedAppend {
                batch: batch_for(shape, rng, &ids.take(n))?,
            }
        }
        "delete" => {
            if shape.ids.is_empty() {
                return None;
            }
            Op::Delete {
                pred: pred_for(rng, shape),
            }
        }
        "update" => {
            if shape.ids.is_empty() {
                return None;
            }
            let cols = shape.int_cols();
            if cols.is_empty() {
                return None;
            }
            let col = rng.pick(&cols[..]).clone();
            Op::Update {
                pred: if rng.chance(1, 5) {
                    None
                } else {
                    Some(pred_for(rng, shape))
                },
                expr: format!("{}", rng.range(100, 999)),
                col,
            }
        }
        "merge_insert" => {
            let mut use_ids: Vec<i64> = vec![];
            if !shape.ids.is_empty() {
                let k = rng.urange(1, 8).min(shape.ids.len());
                for i in rng.sample_indices(shape.ids.len(), k) {
                    use_ids.push(shape.ids[i]);
                }
            }
            let insert_new = rng.chance(2, 3);
            if insert_new {
                let n = rng.urange(1, 8);
                use_ids.extend(ids.take(n));
            }
            let update_matched = rng.chance(2, 3) || !insert_new;
            Op::MergeInsert {
                batch: batch_for(shape, rng, &use_ids)?,
                update_matched,
                insert_new,
                delete_unmatched: if rng.chance(1, 4) {
                    Some(pred_for(rng, shape))
                } else {
                    None
                },
            }
        }
        "merge_subschema" => {
            if shape.ids.is_empty() {
                return None;
            }
            let cols = shape.int_cols();
            if cols.is_empty() {
                return None;
            }
            let col = rng.pick(&cols[..]).clone();
            let (_, ty, nullable) = shape.schema.iter().find(|c| c.0 == col)?.clone();
            let k = rng.urange(1, 8).min(shape.ids.len());
            let picked: Vec<i64> = rng
                .sample_indices(shape.ids.len(), k)
                .into_iter()
                .map(|i| shape.ids[i])
                .collect();
            let vals: arrow_array::ArrayRef = match ty {
                DataType::Int32 => Arc::new(Int32Array::from(
                    picked.iter().map(|_| rng.range(1000, 1999) as i32).collect::<Vec<_>>(),
                )),
                _ => Arc::new(Int64Array::from(
                    picked.iter().map(|_| rng.range(1000, 1999)).collect::<Vec<_>>(),
                )),
            };
            let schema = Arc::new(Schema::new(vec![
                Field::new("id", DataType::Int64, false),
                Field::new(&col, ty, nullable),
            ]));
            Op::MergeSubschema {
                batch: RecordBatch::try_new(schema, vec![Arc::new(Int64Array::from(picked)), vals]).ok()?,
            }
        }
        "compact" => Op::Compact {
            target_rows: *rng.pick(&[16usize, 64, 1000]),
            materialize_deletions: rng.chance(3, 4),
        },
        "index_scalar" => {
            let cols = shape.int_cols();
            let mut cands = vec!["id".to_string()];
            cands.extend(cols);
            Op::IndexScalar {
                col: rng.pick(&cands[..]).clone(),
                bitmap: rng.chance(1, 3),
            }
        }
        "index_vector" => {
            let cols = shape.vec_cols();
            if cols.is_empty() || shape.ids.len() < 4 {
                return None;
            }
            Op::IndexVector {
                col: rng.pick(&cols[..]).clone(),
            }
        }
        "drop_index" => {
            if shape.index_names.is_empty() {
                return None;
            }
            Op::DropIndex {
                name: rng.pick(&shape.index_names[..]).clone(),
            }
        }
        "add_column_sql" => {
            let name = format!("x{}", shape.latest);
            if shape.schema.iter().any(|c| c.0 == name) {
                return None;
            }
            Op::AddColumnSql {
                name,
                expr: format!("id * {}", rng.range(2, 9)),
            }
        }
        "add_column_nulls" => {
            let name = format!("n{}", shape.latest);
            if shape.schema.iter().any(|c| c.0 == name) {
                return None;
            }
            Op::AddColumnNulls { name }
        }
        "alter_rename" => {
            let cands: Vec<String> = shape.schema.iter().skip(1).map(|c| c.0.clone()).collect();
            if cands.is_empty() {
                return None;
            }
            let from = rng.pick(&cands[..]).clone();
            Op::AlterRename {
                to: format!("{from}r"),
                from,
            }
        }
        "alter_cast" => {
            let cands: Vec<String> = shape
                .schema
                .iter()
                .skip(1)
                .filter(|c| c.1 == DataType::Int32)
                .map(|c| c.0.clone())
                .collect();
            if cands.is_empty() {
                return None;
            }
            Op::AlterCast {
                col: rng.pick(&cands[..]).clone(),
                to: DataType::Int64,
            }
        }
        "drop_column" => {
            let cands: Vec<String> = shape.schema.iter().skip(1).map(|c| c.0.clone()).collect();
            if cands.len() < 2 {
                return None;
            }
            Op::DropColumn {
                name: rng.pick(&cands[..]).clone(),
            }
        }
        "update_config" => {
            if !shape.config_keys.is_empty() && rng.chance(1, 4) {
                Op::UpdateConfig {
                    key: rng.pick(&shape.config_keys[..]).clone(),
                    value: None,
                }
            } else {
                Op::UpdateConfig {
                    key: format!("k{}", rng.below(4)),
                    value: Some(format!("val{}", rng.below(1000))),
                }
            }
        }
        "restore" => {
            let cands: Vec<u64> = shape
                .versions
                .iter()
                .copied()
                .filter(|v| *v != shape.latest)
                .collect();
            if cands.is_empty() {
                return None;
            }
            Op::Restore {
                version: *rng.pick(&cands[..]),
            }
        }
        _ => return None,
    })
}

/// Random history step (weights favour data-changing operations).
pub fn gen_step(rng: &mut Rng, shape: &Shape, ids: &mut IdAlloc) -> Option<Op> {
    let kinds: &[(u32, &str)] = &[
        (6, "append"),
        (2, "overwrite"),
        (5, "delete"),
        (4, "update"),
        (4, "merge_insert"),
        (2, "merge_subschema"),
        (3, "compact"),
        (3, "index_scalar"),
        (1, "index_vector"),
        (1, "drop_index"),
        (2, "add_column_sql"),
        (1, "add_column_nulls"),
        (1, "alter_rename"),
        (1, "alter_cast"),
        (1, "drop_column"),
        (2, "update_config"),
        (2, "restore"),
        (1, "detached_append"),
    ];
    for _ in 0..8 {
        let k = *rng.pick_weighted(kinds);
        if let Some(op) = gen_kind(k, rng, shape, ids) {
            return Some(op);
        }
    }
    None
}

/// Execute one operation as process `a`. The dataset handle is opened inside (a fresh process
/// doing one operation).
pub async fn apply(op: &Op, a: &Actor, uri: &str) -> lance::Result<()> {
    match op {
        Op::Create {
            batch,
            v2,
            stable_row_ids,
            max_rows_per_file,
        } => {
            let mut p = a.write_params(WriteMode::Create);
            p.enable_v2_manifest_paths = *v2;
            p.enable_stable_row_ids = *stable_row_ids;
            p.max_rows_per_file = *max_rows_per_file;
            a.write(uri, vec![batch.clone()], p).await?;
        }
        Op::Append {
            batch,
            max_rows_per_file,
        } => {
            let mut p = a.write_params(WriteMode::Append);
            p.max_rows_per_file = *max_rows_per_file;
            a.write(uri, vec![batch.clone()], p).await?;
        }
        Op::Overwrite { batch } => {
            let p = a.write_params(WriteMode::Overwrite);
            a.write(uri, vec![batch.clone()], p).await?;
        }
        Op::Delete { pred } => {
            let mut ds = a.open(uri).await?;
            ds.delete(pred).await?;
        }
        Op::Update { pred, col, expr } => {
            let ds = Arc::new(a.open(uri).await?);
            let mut b = UpdateBuilder::new(ds);
            if let Some(p) = pred {
                b = b.update_where(p)?;
            }
            b.set(col, expr)?.build()?.execute().await?;
        }
        Op::MergeInsert {
            batch,
            update_matched,
            insert_new,
            delete_unmatched,
        } => {
            let ds = Arc::new(a.open(uri).await?);
            let mut b = MergeInsertBuilder::try_new(ds.clone(), vec!["id".to_string()])?;
            b.when_matched(if *update_matched {
                WhenMatched::UpdateAll
            } else {
                WhenMatched::DoNothing
            });
            b.when_not_matched(if *insert_new {
                WhenNotMatched::InsertAll
            } else {
                WhenNotMatched::DoNothing
            });
            if let Some(p) = delete_unmatched {
                b.when_not_matched_by_source(WhenNotMatchedBySource::delete_if(&ds, p)?);
            }
            let job = b.try_build()?;
            let reader = RecordBatchIterator::new(vec![Ok(batch.clone())], batch.schema());
            job.execute_reader(Box::new(reader) as Box<dyn arrow_array::RecordBatchReader + Send>)
                .await?;
        }
        Op::MergeSubschema { batch } => {
            let ds = Arc::new(a.open(uri).await?);
            let mut b = MergeInsertBuilder::try_new(ds, vec!["id".to_string()])?;
            b.when_matched(WhenMatched::UpdateAll);
            b.when_not_matched(WhenNotMatched::DoNothing);
            let job = b.try_build()?;
            let reader = RecordBatchIterator::new(vec![Ok(batch.clone())], batch.schema());
            job.execute_reader(Box::new(reader) as Box<dyn arrow_array::RecordBatchReader + Send>)
                .await?;
        }
        Op::Compact {
            target_rows,
            materialize_deletions,
        } => {
            let mut ds = a.open(uri).await?;
            let opts = CompactionOptions {
                target_rows_per_fragment: *target_rows,
                materialize_deletions: *materialize_deletions,
                materialize_deletions_threshold: 0.0,
                num_threads: Some(1),
                ..Default::default()
            };
            compact_files(&mut ds, opts, None).await?;
        }
        Op::IndexScalar { col, bitmap } => {
            let mut ds = a.open(uri).await?;
            let (ty, params) = if *bitmap {
                (
                    IndexType::Bitmap,
                    ScalarIndexParams::for_builtin(BuiltinIndexType::Bitmap),
                )
            } else {
                (IndexType::BTree, ScalarIndexParams::default())
            };
            ds.create_index(&[col.as_str()], ty, Some(format!("{col}_idx")), &params, true)
                .await?;
        }
        Op::IndexVector { col } => {
            let mut ds = a.open(uri).await?;
            let params = VectorIndexParams::ivf_flat(1, MetricType::L2);
            ds.create_index(
                &[col.as_str()],
                IndexType::Vector,
                Some(format!("{col}_idx")),
                &params,
                true,
            )
            .await?;
        }
        Op::DropIndex { name } => {
            let mut ds = a.open(uri).await?;
            ds.drop_index(name).await?;
        }
        Op::AddColumnSql { name, expr } => {
            let mut ds = a.open(uri).await?;
            ds.add_columns(
                NewColumnTransform::SqlExpressions(vec![(name.clone(), expr.clone())]),
                None,
                None,
            )
            .await?;
        }
        Op::AddColumnNulls { name } => {
            let mut ds = a.open(uri).await?;
            let schema = Arc::new(Schema::new(vec![Field::new(name, DataType::Int32, true)]));
            ds.add_columns(NewColumnTransform::AllNulls(schema), None, None).await?;
        }
        Op::AlterRename { from, to } => {
            let mut ds = a.open(uri).await?;
            ds.alter_columns(&[ColumnAlteration::new(from.clone()).rename(to.clone())])
                .await?;
        }
        Op::AlterCast { col, to } => {
            let mut ds = a.open(uri).await?;
            ds.alter_columns(&[ColumnAlteration::new(col.clone()).cast_to(to.clone())])
                .await?;
        }
        Op::DropColumn { name } => {
            let mut ds = a.open(uri).await?;
            ds.drop_columns(&[name.as_str()]).await?;
        }
        Op::UpdateConfig { key, value } => {
            let mut ds = a.open(uri).await?;
            let entry: (String, Option<String>) = (key.clone(), value.clone());
            ds.update_config([entry]).await?;
        }
        Op::Restore { version } => {
            let mut ds = a.open_version(uri, *version).await?;
            ds.restore().await?;
        }
        Op::DetachedAppend { batch } => {
            let ds = Arc::new(a.open(uri).await?);
            let params = a.write_params(WriteMode::Append);
            let txn = InsertBuilder::new(ds.clone())
                .with_params(&params)
                .execute_uncommitted(vec![batch.clone()])
                .await?;
            CommitBuilder::new(ds).with_detached(true).execute(txn).await?;
        }
    }
    Ok(())
}
