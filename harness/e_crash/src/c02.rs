//! C02 — at most one writer wins each version slot; published manifests never change.
//!
//! E-CONC: 2–3 writers (+ optionally a reader) hold handles on the same read version and race for
//! the same version slot under the gate scheduler (every storage call, every external-store call
//! and every lock attempt parks until the seeded controller releases it), for each commit handler,
//! with optional lost-reply / fail-before faults on the manifest-create call. The monitor is an
//! offline checker over the *complete* store log (+ external-store log) and the client results.
//! A stress leg without the gate hammers appends from 12 tasks on a multi-thread runtime on
//! `memory://` (same log monitor) and on a local directory (client results + listing + sampled
//! content hashes). `--selftest` runs `UnsafeCommitHandler` as a negative control.

use arrow_array::RecordBatch;
use lance::dataset::{InsertBuilder, WriteMode, WriteParams};
use lance::Dataset;
use lance_table::io::commit::{CommitHandler, RenameCommitHandler};
use serde_json::json;
use std::collections::{BTreeMap, BTreeSet};
use std::sync::atomic::{AtomicU64, Ordering};
use std::sync::{Arc, Mutex};
use vmon::prng::{fnv, Rng};
use vmon::report::{Args, Report};
use vmon::store::{Event, Fault, FaultPlan, Kind, Sched, Strategy};
use vmon::table::{ColTy, IdAlloc, TableSpec};

use crate::common::*;

const URI: &str = "memory://t";
const BASE: &str = "t";

#[derive(Debug, Clone, PartialEq)]
pub struct Verdict {
    pub sig: String,
    pub what: String,
}

#[derive(Clone, Debug)]
pub struct ClientResult {
    pub actor: usize,
    pub op: String,
    /// Ok(version committed) or the error text
    pub result: Result<u64, String>,
    /// content digest of the committed version as the writer's own handle shows it (C10 mode)
    pub digest: Option<u64>,
}

#[derive(Clone, Debug)]
pub struct ReaderSample {
    pub version: u64,
    pub ids_digest: u64,
    pub manifest_hash: Option<u64>,
}

fn is_create_kind(k: Kind) -> bool {
    k.is_mutating() && k != Kind::Delete
}

/// The C02 monitor: a pure function of the logs and client results.
/// `final_hashes`: content hash of each final manifest at quiescence (version -> hash).
pub fn monitor(
    handler: HandlerKind,
    events: &[Event],
    ext_events: &[ExtEvent],
    clients: &[ClientResult],
    final_hashes: &BTreeMap<u64, u64>,
) -> (Vec<Verdict>, BTreeMap<&'static str, u64>) {
    let mut out = vec![];
    let mut stats: BTreeMap<&'static str, u64> = BTreeMap::new();
    // 1. per final manifest path: applied mutations in log order
    let mut per_slot: BTreeMap<u64, Vec<&Event>> = BTreeMap::new();
    for e in events {
        if !e.kind.is_mutating() || !e.applied {
            continue;
        }
        // a rename/copy *from* a final manifest would also alter the slot
        if e.to.is_some() {
            if let Some(v) = final_manifest_version(BASE, &e.path) {
                if matches!(e.kind, Kind::Rename | Kind::RenameIfNotExists) {
                    out.push(Verdict {
                        sig: "published-manifest-renamed-away".into(),
                        what: format!("v{v}: {}", e.brief()),
                    });
                }
            }
        }
        if let Some(v) = final_manifest_version(BASE, e.dest()) {
            per_slot.entry(v).or_default().push(e);
        }
    }
    for (v, evs) in &per_slot {
        *stats.entry("slots_with_applied_create").or_insert(0) += 1;
        let first = evs[0];
        if !is_create_kind(first.kind) {
            continue; // a delete of something created before the log started
        }
        let h0 = first.hash;
        for e in &evs[1..] {
            if e.kind == Kind::Delete {
                out.push(Verdict {
                    sig: "published-manifest-deleted".into(),
                    what: format!("v{v}: {} after {}", e.brief(), first.brief()),
                });
                continue;
            }
            let same = e.hash.is_some() && e.hash == h0;
            if handler == HandlerKind::External && same {
                // finalisation is a plain copy of the staging object that won the external slot;
                // two finalisers may both copy it. Identical bytes: indistinguishable for readers.
                *stats.entry("idempotent_recopies_same_content").or_insert(0) += 1;
                continue;
            }
            out.push(Verdict {
                sig: if same {
                    "second-applied-write-of-a-published-manifest-same-content".into()
                } else {
                    "published-manifest-overwritten-with-different-content".into()
                },
                what: format!(
                    "v{v}: first {} (hash {:?}), later {} (hash {:?})",
                    first.brief(),
                    h0,
                    e.brief(),
                    e.hash
                ),
            });
        }
        if let (Some(h), Some(fh)) = (h0, final_hashes.get(v)) {
            if h != *fh {
                out.push(Verdict {
                    sig: "manifest-content-differs-at-quiescence".into(),
                    what: format!("v{v}: hash at publication {h:016x}, at quiescence {fh:016x}"),
                });
            }
        }
    }
    // 2. external store: the object that won the slot is the content of the final manifest
    if handler == HandlerKind::External {
        let mut winners: BTreeMap<u64, Vec<&ExtEvent>> = BTreeMap::new();
        for x in ext_events {
            if x.op == ExtOp::PutIfNotExists && x.applied && x.base == BASE {
                winners.entry(x.version).or_default().push(x);
            }
            if x.op == ExtOp::PutIfExists && x.applied && x.base == BASE {
                if final_manifest_version(BASE, &x.path) != Some(x.version) {
                    out.push(Verdict {
                        sig: "external-entry-flipped-to-a-non-final-path".into(),
                        what: x.brief(),
                    });
                }
            }
        }
        for (v, ws) in &winners {
            if ws.len() > 1 {
                out.push(Verdict {
                    sig: "harness-mock-external-store-not-atomic".into(),
                    what: format!("v{v}: {} applied put_if_not_exists", ws.len()),
                });
            }
            let staging = &ws[0].path;
            let staged_hash = events
                .iter()
                .filter(|e| e.applied && is_create_kind(e.kind) && e.dest() == staging)
                .filter_map(|e| e.hash)
                .next_back();
            if let (Some(sh), Some(evs)) = (staged_hash, per_slot.get(v)) {
                if let Some(h) = evs[0].hash {
                    if h != sh {
                        out.push(Verdict {
                            sig: "final-manifest-is-not-the-object-that-won-the-external-slot".into(),
                            what: format!("v{v}: staged winner {sh:016x}, final manifest {h:016x}"),
                        });
                    }
                }
            }
        }
    }
    // 3. client results
    let mut ok_by_version: BTreeMap<u64, Vec<usize>> = BTreeMap::new();
    for c in clients {
        if let Ok(v) = &c.result {
            ok_by_version.entry(*v).or_default().push(c.actor);
        }
    }
    for (v, actors) in &ok_by_version {
        if actors.len() > 1 {
            out.push(Verdict {
                sig: "two-writers-returned-ok-for-the-same-version".into(),
                what: format!("v{v}: actors {actors:?}"),
            });
        }
        // the Ok writer must be the one whose create was applied
        let winner: Option<usize> = if handler == HandlerKind::External {
            ext_events
                .iter()
                .find(|x| x.op == ExtOp::PutIfNotExists && x.applied && x.version == *v && x.base == BASE)
                .map(|x| x.actor)
        } else {
            per_slot.get(v).map(|e| e[0].actor)
        };
        match winner {
            Some(w) if actors.contains(&w) => {}
            Some(w) => out.push(Verdict {
                sig: "writer-returned-ok-for-a-slot-another-writer-won".into(),
                what: format!("v{v}: Ok returned to {actors:?}, slot created by a{w}"),
            }),
            None => out.push(Verdict {
                sig: "writer-returned-ok-without-applied-create".into(),
                what: format!("v{v}: Ok returned to {actors:?}, no applied create in the log"),
            }),
        }
    }
    (out, stats)
}

/// version slots for which >= 2 distinct writers issued their manifest create
fn contended_slots(handler: HandlerKind, events: &[Event], ext: &[ExtEvent], lock: &[LockEvent]) -> BTreeSet<u64> {
    let mut by: BTreeMap<u64, BTreeSet<usize>> = BTreeMap::new();
    match handler {
        HandlerKind::External => {
            for x in ext {
                if x.op == ExtOp::PutIfNotExists && x.base == BASE {
                    by.entry(x.version).or_default().insert(x.actor);
                }
            }
        }
        HandlerKind::Lock => {
            for l in lock {
                if l.what == "acquired" || l.what == "busy" {
                    by.entry(l.version).or_default().insert(l.actor);
                }
            }
        }
        _ => {
            for e in events {
                if is_create_kind(e.kind) {
                    if let Some(v) = final_manifest_version(BASE, e.dest()) {
                        by.entry(v).or_default().insert(e.actor);
                    }
                }
            }
        }
    }
    by.into_iter().filter(|(_, a)| a.len() >= 2).map(|(v, _)| v).collect()
}

#[derive(Clone, Debug)]
enum WOp {
    Append(RecordBatch),
    Delete(String),
    Config(String, String),
}

impl WOp {
    fn describe(&self) -> String {
        match self {
            WOp::Append(b) => format!("append({} rows)", b.num_rows()),
            WOp::Delete(p) => format!("delete({p})"),
            WOp::Config(k, v) => format!("update_config({k}={v})"),
        }
    }
}

async fn run_wop(op: WOp, mut ds: Dataset, params: WriteParams, want_digest: bool) -> Result<(u64, Option<u64>), String> {
    let out = match op {
        WOp::Append(b) => InsertBuilder::new(Arc::new(ds))
            .with_params(&params)
            .execute(vec![b])
            .await
            .map_err(|e| e.to_string())?,
        WOp::Delete(p) => {
            ds.delete(&p).await.map_err(|e| e.to_string())?;
            ds
        }
        WOp::Config(k, v) => {
            ds.update_config([(k, Some(v))]).await.map_err(|e| e.to_string())?;
            ds
        }
    };
    let digest = if want_digest {
        version_obs(&out).await.ok().map(|o| o.digest())
    } else {
        None
    };
    Ok((out.manifest().version, digest))
}

fn create_fault_plan(handler: HandlerKind, fault: Fault) -> FaultPlan {
    let m = match handler {
        HandlerKind::CondPut => (Kind::PutCreate, "_versions/".to_string(), fault),
        HandlerKind::Rename => (Kind::RenameIfNotExists, "_versions/".to_string(), fault),
        HandlerKind::Lock | HandlerKind::Unsafe => (Kind::Put, "_versions/".to_string(), fault),
        HandlerKind::External => (Kind::Copy, "_versions/".to_string(), fault),
    };
    FaultPlan {
        on_match: vec![m],
        ..Default::default()
    }
}

pub struct CaseOut {
    pub verdicts: Vec<Verdict>,
    pub witness: serde_json::Value,
    pub contended: usize,
    pub ihash: u64,
    pub events: usize,
    pub released: usize,
    pub nondet: u64,
    pub watchdog: bool,
    pub stats: BTreeMap<&'static str, u64>,
    pub sample: serde_json::Value,
    pub wall_ms: u64,
    /// C10 mode only: everything the quiescence checks need
    pub env: Option<Env>,
    pub clients: Vec<ClientResult>,
    pub samples: Vec<ReaderSample>,
    pub faults: Vec<String>,
}

/// One gated race (C02 mode).
pub async fn race(seed: u64, idx: u64, handler: HandlerKind, max_secs: u64) -> Result<CaseOut, String> {
    race_cfg(seed, idx, handler, false, max_secs).await
}

/// Seconds a race started now may take: until the end of the budget + 20 s grace, within 8..=90.
pub fn race_secs(report: &Report) -> u64 {
    let left = report.budget_s() as f64 + 20.0 - report.elapsed_s();
    (left.max(8.0) as u64).min(90)
}

/// One gated race. `c10`: external-store protocol mode — exactly two writers + a reader, a fault
/// on (almost) every writer drawn from all five protocol steps, crash and transient variants,
/// optional stale `get_latest_version`; the environment is handed back for the quiescence checks.
pub async fn race_cfg(seed: u64, idx: u64, handler: HandlerKind, c10: bool, max_secs: u64) -> Result<CaseOut, String> {
    let t_start = std::time::Instant::now();
    let mut rng = Rng::for_case(seed, idx);
    let mut env = Env::new(handler);
    env.lock_spins = rng.below(3) as u32;
    let spec = TableSpec::simple(&[("v", ColTy::I32, true)]);
    let mut ids = IdAlloc::new(0);
    let p0 = env.proc(0);
    let mut params = p0.actor.write_params(WriteMode::Create);
    params.enable_v2_manifest_paths = rng.chance(1, 3);
    let b = spec.batch(&mut rng, &ids.take(24));
    p0.actor.write(URI, vec![b], params).await.map_err(|e| format!("setup create: {e}"))?;
    for _ in 0..rng.below(3) {
        let b = spec.batch(&mut rng, &ids.take(4));
        p0.actor
            .write(URI, vec![b], p0.actor.write_params(WriteMode::Append))
            .await
            .map_err(|e| format!("setup append: {e}"))?;
    }
    let n_writers = if c10 { 2 } else { rng.urange(2, 3) };
    let with_reader = c10 || rng.chance(2, 3);
    let strat_kind = idx % 4;
    let mut procs = vec![];
    let mut wops = vec![];
    let mut fault_desc = vec![];
    for w in 1..=n_writers {
        let p = env.proc(w);
        let ds = p.actor.open(URI).await.map_err(|e| format!("setup open: {e}"))?;
        let op = match rng.below(3) {
            0 => WOp::Append(spec.batch(&mut rng, &ids.take(3))),
            1 => WOp::Delete(format!("id >= {} AND id < {}", (w - 1) * 6, w * 6)),
            _ => WOp::Config(format!("w{w}"), format!("{}", rng.below(100))),
        };
        // faults on the create call of this writer
        if c10 {
            if rng.chance(4, 5) {
                let fault = if rng.bool() { Fault::LostReply } else { Fault::FailBefore };
                let crash = rng.chance(1, 3);
                match rng.below(5) {
                    0 | 1 => {
                        let op = if rng.bool() { ExtOp::PutIfNotExists } else { ExtOp::PutIfExists };
                        p.ext.as_ref().unwrap().set_faults(vec![ExtFault { op, nth: 1, fault, crash }]);
                        let get_fails = !crash && op == ExtOp::PutIfNotExists && rng.chance(1, 3);
                        if get_fails {
                            p.ext.as_ref().unwrap().set_fail_get_after_put_fault(true);
                        }
                        fault_desc.push(format!(
                            "a{w}: ext.{}#1 {:?}{}{}",
                            op.name(),
                            fault,
                            if crash { " +crash" } else { "" },
                            if get_fails { " +next get fails" } else { "" }
                        ));
                    }
                    _ if crash => {
                        let k = rng.range(1, 6) as u64;
                        p.actor.store.set_plan(FaultPlan {
                            crash_at: Some((k, fault)),
                            ..Default::default()
                        });
                        fault_desc.push(format!("a{w}: crash at mutating call #{k} {:?}", fault));
                    }
                    _ => {
                        let (kind, name) = *rng.pick(&[
                            (Kind::Put, "stage manifest (put)"),
                            (Kind::Copy, "copy staging -> final"),
                            (Kind::Delete, "delete staging"),
                        ]);
                        p.actor.store.set_plan(FaultPlan {
                            on_match: vec![(kind, "_versions/".to_string(), fault)],
                            ..Default::default()
                        });
                        fault_desc.push(format!("a{w}: {name} {:?}", fault));
                    }
                }
            }
            if rng.chance(1, 4) {
                p.ext.as_ref().unwrap().set_stale_latest(1);
                fault_desc.push(format!("a{w}: one stale get_latest_version"));
            }
        } else if rng.chance(2, 5) {
            let fault = if rng.bool() { Fault::LostReply } else { Fault::FailBefore };
            if handler == HandlerKind::External && rng.bool() {
                let op = if rng.bool() { ExtOp::PutIfNotExists } else { ExtOp::PutIfExists };
                p.ext.as_ref().unwrap().set_faults(vec![ExtFault {
                    op,
                    nth: 1,
                    fault,
                    crash: false,
                }]);
                fault_desc.push(format!("a{w}: ext.{} #{} {:?}", op.name(), 1, fault));
            } else {
                p.actor.store.set_plan(create_fault_plan(handler, fault));
                fault_desc.push(format!("a{w}: manifest create call {:?}", fault));
            }
        }
        procs.push((p, ds));
        wops.push(op);
    }
    let reader = if with_reader { Some(env.proc(n_writers + 1)) } else { None };

    let sched = Sched::new();
    env.world.set_sched(Some(sched.clone()));
    let log_from = env.world.log_len();
    let mut handles = vec![];
    for (i, (p, ds)) in procs.into_iter().enumerate() {
        let id = i + 1;
        let op = wops[i].clone();
        let s = sched.clone();
        s.begin(id);
        let params = p.actor.write_params(WriteMode::Append);
        handles.push(tokio::spawn(async move {
            let desc = op.describe();
            let r = guarded(run_wop(op, ds, params, c10), max_secs).await;
            s.end(id);
            let (result, digest) = match r {
                Ok(Ok((v, d))) => (Ok(v), d),
                Ok(Err(e)) => (Err(e), None),
                Err(GuardFail::Timeout) => (Err("TIMEOUT".into()), None),
                Err(GuardFail::Panic(m)) => (Err(format!("PANIC {m}")), None),
            };
            ClientResult {
                actor: id,
                op: desc,
                result,
                digest,
            }
        }));
    }
    let samples: Arc<Mutex<Vec<ReaderSample>>> = Arc::new(Mutex::new(vec![]));
    let reader_handle = reader.map(|r| {
        let id = n_writers + 1;
        let s = sched.clone();
        s.begin(id);
        let samples = samples.clone();
        let world = env.world.clone();
        tokio::spawn(async move {
            let fut = async {
                for _ in 0..3 {
                    if let Ok(ds) = r.actor.open(URI).await {
                        let v = ds.manifest().version;
                        let mh = world.hash_of(ds.manifest_location().path.as_ref()).await;
                        if let Ok(o) = version_obs(&ds).await {
                            samples.lock().unwrap().push(ReaderSample {
                                version: v,
                                ids_digest: o.digest(),
                                manifest_hash: mh,
                            });
                        }
                    }
                }
            };
            let _ = guarded(fut, max_secs).await;
            s.end(id);
        })
    });
    let strategy = match strat_kind {
        0 => Strategy::Uniform(Rng::new(seed ^ idx.wrapping_mul(77))),
        1 => Strategy::pct(Rng::new(seed ^ idx.wrapping_mul(131)), n_writers + 2, 2, 40),
        2 => {
            let mut order: Vec<usize> = (1..=n_writers + 1).collect();
            rng.shuffle(&mut order);
            Strategy::ActorOrder(order)
        }
        _ => Strategy::RoundRobin(0),
    };
    let strat_name = ["uniform", "pct", "actor_order", "round_robin"][strat_kind as usize];
    let outcome = sched.run(strategy, std::time::Duration::from_secs(max_secs + 10)).await;
    let mut clients = vec![];
    for h in handles {
        match h.await {
            Ok(c) => clients.push(c),
            Err(e) => return Err(format!("writer task join error: {e}")),
        }
    }
    if let Some(h) = reader_handle {
        let _ = h.await;
    }
    env.world.set_sched(None);

    let events = env.world.events_since(log_from);
    let ext = env.ext.events();
    let lock = env.lock.log.lock().unwrap().clone();
    // quiescence: final hashes of all final manifests
    let mut final_hashes = BTreeMap::new();
    for p in env.world.list_paths().await {
        if let Some(v) = final_manifest_version(BASE, &p) {
            if let Some(h) = env.world.hash_of(&p).await {
                final_hashes.insert(v, h);
            }
        }
    }
    let (mut verdicts, stats) = monitor(handler, &events, &ext, &clients, &final_hashes);
    // reader samples vs quiescent content of the same version
    let samples = samples.lock().unwrap().clone();
    if !samples.is_empty() {
        let obs = env.proc(90);
        for s in &samples {
            if let (Some(mh), Some(fh)) = (s.manifest_hash, final_hashes.get(&s.version)) {
                if mh != *fh {
                    verdicts.push(Verdict {
                        sig: "manifest-content-changed-between-observations".into(),
                        what: format!("v{}: reader saw manifest hash {mh:016x}, at quiescence {fh:016x}", s.version),
                    });
                }
            }
            match guarded(obs.actor.open_version(URI, s.version), 30).await {
                Ok(Ok(ds)) => {
                    if let Ok(o) = version_obs(&ds).await {
                        if o.digest() != s.ids_digest {
                            verdicts.push(Verdict {
                                sig: "version-content-changed-between-observations".into(),
                                what: format!("v{}: content digest seen during the race differs from quiescence", s.version),
                            });
                        }
                    }
                }
                _ => {}
            }
        }
    }
    let contended = contended_slots(handler, &events, &ext, &lock);
    let writer_log: Vec<String> = events
        .iter()
        .filter(|e| e.kind.is_mutating() || e.path.starts_with("__"))
        .map(|e| e.brief())
        .collect();
    let witness = json!({
        "seed": seed, "case": idx, "handler": handler.name(), "strategy": strat_name,
        "writers": clients.iter().map(|c| json!({"actor": c.actor, "op": c.op, "result": format!("{:?}", c.result)})).collect::<Vec<_>>(),
        "faults": fault_desc, "reader": with_reader, "lock_spins": env.lock_spins,
        "released": outcome.brief(400), "mutations_and_markers": writer_log,
        "ext_log": ext.iter().map(|e| e.brief()).collect::<Vec<_>>(),
        "replay": format!("e_crash C02 --seed {seed} --case {idx}"),
    });
    let sample = json!({
        "case": idx, "handler": handler.name(), "strategy": strat_name, "faults": fault_desc,
        "writers": clients.iter().map(|c| format!("a{} {} -> {:?}", c.actor, c.op, c.result.as_ref().map_err(|e| e.chars().take(60).collect::<String>()))).collect::<Vec<_>>(),
        "contended_slots": contended.iter().collect::<Vec<_>>(),
        "released_calls": outcome.released.len(),
        "creates": events.iter().filter(|e| is_create_kind(e.kind) && final_manifest_version(BASE, e.dest()).is_some()).map(|e| e.brief()).collect::<Vec<_>>(),
    });
    Ok(CaseOut {
        verdicts,
        witness,
        contended: contended.len(),
        ihash: outcome.interleaving_hash() ^ fnv(format!("{}{:?}", handler.name(), fault_desc).as_bytes()),
        events: events.len(),
        released: outcome.released.len(),
        nondet: outcome.nondeterministic_steps,
        watchdog: outcome.watchdog_fired,
        stats,
        sample,
        wall_ms: t_start.elapsed().as_millis() as u64,
        env: if c10 { Some(env) } else { None },
        clients,
        samples,
        faults: fault_desc,
    })
}

// -------------------------------------------------------------------------------------------
// stress leg (no gate)
// -------------------------------------------------------------------------------------------

fn small_batch(lo: i64, n: i64) -> RecordBatch {
    use arrow_array::Int64Array;
    use arrow_schema::{DataType, Field, Schema};
    let schema = Arc::new(Schema::new(vec![Field::new("id", DataType::Int64, false)]));
    RecordBatch::try_new(schema, vec![Arc::new(Int64Array::from((lo..lo + n).collect::<Vec<_>>()))]).unwrap()
}

/// memory:// through a World (complete log, same monitor), `tasks` writers x `rounds` appends.
async fn stress_memory(report: &Report, handler: HandlerKind, tasks: usize, rounds: usize, tag: u64) {
    let env = Arc::new(Env::new(handler));
    let p0 = env.proc(0);
    if let Err(e) = p0
        .actor
        .write(URI, vec![small_batch(0, 4)], {
            let mut p = p0.actor.write_params(WriteMode::Create);
            p.auto_cleanup = None;
            p
        })
        .await
    {
        report.harness_error(&format!("stress setup: {e}"));
        return;
    }
    let mut hs = vec![];
    for t in 1..=tasks {
        let env = env.clone();
        hs.push(tokio::spawn(async move {
            let p = env.proc(t);
            let mut out = vec![];
            for r in 0..rounds {
                let mut params = p.actor.write_params(WriteMode::Append);
                params.auto_cleanup = None;
                let res = guarded(
                    p.actor.write(URI, vec![small_batch((t * 1_000_000 + r * 10) as i64, 2)], params),
                    60,
                )
                .await;
                out.push(ClientResult {
                    actor: t,
                    op: "append".into(),
                    result: match res {
                        Ok(Ok(d)) => Ok(d.manifest().version),
                        Ok(Err(e)) => Err(e.to_string()),
                        Err(g) => Err(format!("{g:?}")),
                    },
                    digest: None,
                });
            }
            out
        }));
    }
    let mut clients = vec![];
    for h in hs {
        match h.await {
            Ok(v) => clients.extend(v),
            Err(e) => report.harness_error(&format!("stress join: {e}")),
        }
    }
    let events = env.world.events();
    let ext = env.ext.events();
    let lock = env.lock.log.lock().unwrap().clone();
    let mut final_hashes = BTreeMap::new();
    for p in env.world.list_paths().await {
        if let Some(v) = final_manifest_version(BASE, &p) {
            if let Some(h) = env.world.hash_of(&p).await {
                final_hashes.insert(v, h);
            }
        }
    }
    let (verdicts, _) = monitor(handler, &events, &ext, &clients, &final_hashes);
    let oks = clients.iter().filter(|c| c.result.is_ok()).count();
    let contended = contended_slots(handler, &events, &ext, &lock);
    report.count("stress_memory_commits_ok", oks as u64);
    report.count("stress_memory_commit_errors", (clients.len() - oks) as u64);
    report.count("stress_memory_contended_slots", contended.len() as u64);
    report.count("events", events.len() as u64);
    // listing: exactly 1 + oks final manifests, dense
    let listed: Vec<u64> = final_hashes.keys().copied().collect();
    let expect_min = 1 + oks as u64;
    let dense = listed.iter().enumerate().all(|(i, v)| *v == i as u64 + 1);
    let mut verdicts = verdicts;
    if !dense || (listed.len() as u64) < expect_min {
        verdicts.push(Verdict {
            sig: "stress-listing-inconsistent-with-client-results".into(),
            what: format!("{} Ok commits but manifests listed: {}..{} (n={})", oks, listed.first().unwrap_or(&0), listed.last().unwrap_or(&0), listed.len()),
        });
    }
    for v in verdicts {
        report.violation(
            &format!("{}:{}:stress", v.sig, handler.name()),
            &v.what,
            json!({"leg": "stress_memory", "handler": handler.name(), "tasks": tasks, "rounds": rounds,
                   "results": clients.iter().map(|c| format!("a{} {:?}", c.actor, c.result.as_ref().map_err(|e| e.chars().take(80).collect::<String>()))).collect::<Vec<_>>()}),
        );
    }
    report.case(if contended.is_empty() {
        None
    } else {
        Some(fnv(format!("stress-mem-{}-{tag}-{}", handler.name(), contended.len()).as_bytes()))
    });
}

/// Local directory, plain Lance (real O_EXCL / hard-link paths). Checked from client results, the
/// final listing and content hashes sampled by a concurrent observer.
async fn stress_local(report: &Report, rename: bool, tasks: usize, rounds: usize, tag: u64) {
    let dir = match tempfile::Builder::new().prefix("e_crash-c02-").tempdir_in("/tmp") {
        Ok(d) => d,
        Err(e) => {
            report.harness_error(&format!("tempdir: {e}"));
            return;
        }
    };
    let uri = format!("{}/t", dir.path().display());
    let handler: Option<Arc<dyn CommitHandler>> = if rename { Some(Arc::new(RenameCommitHandler)) } else { None };
    let mk_params = |mode: WriteMode| WriteParams {
        mode,
        commit_handler: handler.clone(),
        auto_cleanup: None,
        ..Default::default()
    };
    let b = small_batch(0, 4);
    let reader = arrow_array::RecordBatchIterator::new(vec![Ok(b.clone())], b.schema());
    if let Err(e) = Dataset::write(reader, &uri, Some(mk_params(WriteMode::Create))).await {
        report.harness_error(&format!("stress local setup: {e}"));
        return;
    }
    let stop = Arc::new(std::sync::atomic::AtomicBool::new(false));
    let vdir = format!("{uri}/_versions");
    // sampler: content hash of every final manifest, repeatedly
    let seen: Arc<Mutex<BTreeMap<String, BTreeSet<u64>>>> = Arc::new(Mutex::new(BTreeMap::new()));
    let sampler = {
        let stop = stop.clone();
        let seen = seen.clone();
        let vdir = vdir.clone();
        std::thread::spawn(move || {
            let mut passes = 0u64;
            while !stop.load(Ordering::SeqCst) {
                if let Ok(rd) = std::fs::read_dir(&vdir) {
                    for e in rd.flatten() {
                        let name = e.file_name().to_string_lossy().to_string();
                        if name.ends_with(".manifest") {
                            if let Ok(bytes) = std::fs::read(e.path()) {
                                seen.lock().unwrap().entry(name).or_default().insert(fnv(&bytes));
                            }
                        }
                    }
                }
                passes += 1;
                std::thread::sleep(std::time::Duration::from_millis(2));
            }
            passes
        })
    };
    let mut hs = vec![];
    for t in 1..=tasks {
        let uri = uri.clone();
        let handler = handler.clone();
        hs.push(tokio::spawn(async move {
            let mut out = vec![];
            for r in 0..rounds {
                let b = small_batch((t * 1_000_000 + r * 10) as i64, 2);
                let reader = arrow_array::RecordBatchIterator::new(vec![Ok(b.clone())], b.schema());
                let params = WriteParams {
                    mode: WriteMode::Append,
                    commit_handler: handler.clone(),
                    auto_cleanup: None,
                    ..Default::default()
                };
                let res = guarded(Dataset::write(reader, &uri, Some(params)), 60).await;
                out.push(ClientResult {
                    actor: t,
                    op: "append".into(),
                    result: match res {
                        Ok(Ok(d)) => Ok(d.manifest().version),
                        Ok(Err(e)) => Err(e.to_string()),
                        Err(g) => Err(format!("{g:?}")),
                    },
                    digest: None,
                });
            }
            out
        }));
    }
    let mut clients = vec![];
    for h in hs {
        match h.await {
            Ok(v) => clients.extend(v),
            Err(e) => report.harness_error(&format!("stress join: {e}")),
        }
    }
    stop.store(true, Ordering::SeqCst);
    let passes = sampler.join().unwrap_or(0);
    let mut verdicts = vec![];
    let mut ok_versions: BTreeMap<u64, Vec<usize>> = BTreeMap::new();
    for c in &clients {
        if let Ok(v) = &c.result {
            ok_versions.entry(*v).or_default().push(c.actor);
        }
    }
    for (v, a) in &ok_versions {
        if a.len() > 1 {
            verdicts.push(Verdict {
                sig: "two-writers-returned-ok-for-the-same-version".into(),
                what: format!("v{v}: tasks {a:?}"),
            });
        }
    }
    // final pass of hashes + listing
    let mut listed = vec![];
    if let Ok(rd) = std::fs::read_dir(&vdir) {
        for e in rd.flatten() {
            let name = e.file_name().to_string_lossy().to_string();
            if let Some(stem) = name.strip_suffix(".manifest") {
                if let Ok(v) = stem.parse::<u64>() {
                    listed.push(v);
                    if let Ok(bytes) = std::fs::read(e.path()) {
                        seen.lock().unwrap().entry(name).or_default().insert(fnv(&bytes));
                    }
                }
            }
        }
    }
    listed.sort();
    let oks = ok_versions.len();
    let dense = listed.iter().enumerate().all(|(i, v)| *v == i as u64 + 1);
    if !dense || listed.len() < 1 + oks {
        verdicts.push(Verdict {
            sig: "stress-listing-inconsistent-with-client-results".into(),
            what: format!("{oks} Ok commits, listed manifests n={} dense={dense}", listed.len()),
        });
    }
    for (v, _) in &ok_versions {
        if !listed.contains(v) {
            verdicts.push(Verdict {
                sig: "ok-version-missing-from-listing".into(),
                what: format!("v{v} returned Ok but {v}.manifest is not listed"),
            });
        }
    }
    let seen = seen.lock().unwrap().clone();
    for (name, hs) in &seen {
        if hs.len() > 1 {
            verdicts.push(Verdict {
                sig: "manifest-content-changed-between-observations".into(),
                what: format!("{name}: {} different content hashes sampled", hs.len()),
            });
        }
    }
    // contention evidence: a writer whose commit landed more than one above the version it read
    // cannot be observed without the log; use the number of writers that were active: slots with
    // concurrent attempts are inferred from results (every round all tasks race)
    report.count("stress_local_commits_ok", oks as u64);
    report.count("stress_local_commit_errors", (clients.len() - clients.iter().filter(|c| c.result.is_ok()).count()) as u64);
    report.count("stress_local_hash_samples", seen.values().map(|h| h.len() as u64).sum());
    report.count("stress_local_sampler_passes", passes);
    for v in verdicts {
        report.violation(
            &format!("{}:{}:stress-local", v.sig, if rename { "rename" } else { "conditional_put" }),
            &v.what,
            json!({"leg": "stress_local", "rename_handler": rename, "tasks": tasks, "rounds": rounds,
                   "results": clients.iter().map(|c| format!("t{} {:?}", c.actor, c.result.as_ref().map_err(|e| e.chars().take(80).collect::<String>()))).collect::<Vec<_>>()}),
        );
    }
    report.case(if oks >= 2 {
        Some(fnv(format!("stress-local-{rename}-{tag}-{oks}").as_bytes()))
    } else {
        None
    });
}

fn stress_leg(report: &Report, args: &Args) {
    let rt = tokio::runtime::Builder::new_multi_thread()
        .worker_threads(worker_threads().min(12).max(2))
        .enable_all()
        .build()
        .expect("runtime");
    let rounds = args.tier.pick(4, 12);
    let reps = args.tier.pick(1, 50);
    // the stress leg may use at most a fifth of the budget; the gated races are the main leg
    let cap = report.budget_s() as f64 * 0.2;
    rt.block_on(async {
        'outer: for rep in 0..reps {
            for h in [HandlerKind::CondPut, HandlerKind::Rename, HandlerKind::Lock, HandlerKind::External] {
                if rep > 0 && report.elapsed_s() > cap {
                    break 'outer;
                }
                stress_memory(report, h, 12, rounds, rep).await;
            }
            for rename in [false, true] {
                if rep > 0 && report.elapsed_s() > cap {
                    break 'outer;
                }
                stress_local(report, rename, 12, rounds, rep).await;
            }
            report.count("stress_repetitions", 1);
        }
    });
}

// -------------------------------------------------------------------------------------------
// selftest: negative control + corrupted logs
// -------------------------------------------------------------------------------------------

fn selftest(args: &Args) -> i32 {
    let rt = tokio::runtime::Builder::new_current_thread().enable_all().build().unwrap();
    let ok = rt.block_on(async {
        let mut fails: Vec<String> = vec![];
        // 1. negative control: UnsafeCommitHandler must trip the monitor in some schedules
        let mut flagged = 0;
        let mut runs = 0;
        let mut sigs = BTreeSet::new();
        for i in 0..60u64 {
            match race(args.seed, i, HandlerKind::Unsafe, 60).await {
                Ok(o) => {
                    runs += 1;
                    if !o.verdicts.is_empty() {
                        flagged += 1;
                        for v in &o.verdicts {
                            sigs.insert(v.sig.clone());
                        }
                    }
                }
                Err(e) => fails.push(format!("unsafe race error {e}")),
            }
        }
        println!("SELFTEST C02 negative control: UnsafeCommitHandler flagged in {flagged}/{runs} schedules; classes {sigs:?}");
        if flagged == 0 {
            fails.push("UnsafeCommitHandler never flagged".into());
        }
        // 2. corrupted logs of a clean race
        let mut clean = None;
        for i in 0..40u64 {
            if let Ok(o) = race(args.seed, 1000 + i, HandlerKind::CondPut, 60).await {
                if o.verdicts.is_empty() && o.contended > 0 {
                    clean = Some(i);
                    break;
                }
            }
        }
        if clean.is_none() {
            fails.push("no clean contended race found".into());
        }
        // synthetic: two applied creates, hash change, double Ok
        let mk = |t: u64, actor: usize, kind: Kind, hash: u64, applied: bool| Event {
            t,
            actor,
            kind,
            path: "t/_versions/2.manifest".into(),
            to: None,
            result: if applied { Ok(()) } else { Err("AlreadyExists".into()) },
            applied,
            hash: if applied { Some(hash) } else { None },
            mut_index: Some(1),
        };
        let fh: BTreeMap<u64, u64> = [(2u64, 7u64)].into_iter().collect();
        let ok1 = vec![ClientResult { actor: 1, op: "x".into(), result: Ok(2), digest: None }];
        let (v, _) = monitor(HandlerKind::CondPut, &[mk(0, 1, Kind::PutCreate, 7, true), mk(1, 2, Kind::PutCreate, 0, false)], &[], &ok1, &fh);
        if !v.is_empty() {
            fails.push(format!("clean synthetic log flagged: {v:?}"));
        }
        let (v, _) = monitor(HandlerKind::CondPut, &[mk(0, 1, Kind::PutCreate, 7, true), mk(1, 2, Kind::PutCreate, 7, true)], &[], &ok1, &fh);
        if v.is_empty() {
            fails.push("two applied creates (same content) not flagged".into());
        }
        let (v, _) = monitor(HandlerKind::External, &[mk(0, 1, Kind::Copy, 7, true), mk(1, 2, Kind::Copy, 8, true)], &[], &[], &fh);
        if v.is_empty() {
            fails.push("recopy with different content not flagged".into());
        }
        let (v, _) = monitor(HandlerKind::CondPut, &[mk(0, 1, Kind::PutCreate, 7, true)], &[], &ok1, &[(2u64, 9u64)].into_iter().collect());
        if v.is_empty() {
            fails.push("changed content at quiescence not flagged".into());
        }
        let two_ok = vec![
            ClientResult { actor: 1, op: "x".into(), result: Ok(2), digest: None },
            ClientResult { actor: 2, op: "x".into(), result: Ok(2), digest: None },
        ];
        let (v, _) = monitor(HandlerKind::CondPut, &[mk(0, 1, Kind::PutCreate, 7, true)], &[], &two_ok, &fh);
        if v.is_empty() {
            fails.push("two Ok for one version not flagged".into());
        }
        let (v, _) = monitor(HandlerKind::CondPut, &[mk(0, 1, Kind::PutCreate, 7, true), mk(1, 1, Kind::Delete, 0, true)], &[], &ok1, &fh);
        if v.is_empty() {
            fails.push("delete of a published manifest not flagged".into());
        }
        if fails.is_empty() {
            println!("SELFTEST C02 ok: negative control flagged, 5/5 corrupted logs flagged, clean log accepted");
            true
        } else {
            println!("SELFTEST C02 FAILED: {fails:?}");
            false
        }
    });
    if ok {
        0
    } else {
        2
    }
}

pub fn run(args: &Args) -> i32 {
    if args.extra.contains_key("selftest") {
        return selftest(args);
    }
    let report = Report::new(
        args,
        "exploration",
        "Case = one gated race: 2-3 writers holding handles on the same read version (+ a reader in 2/3 of the cases) \
         each do one write (append / delete / update_config); every storage call, external-store call and lock attempt \
         is released one at a time by a seeded strategy (uniform, PCT, actor order, round robin); 40% of the writers get \
         a lost-reply / fail-before fault on their manifest-create call (or on an external-store write). Handlers: \
         conditional put, rename, lock, external store. Non-trivial iff >= 2 writers issued their manifest create \
         (external: put_if_not_exists; lock: lock attempt) for the same version number; distinct = hash of the \
         normalised released call sequence + handler + fault plan. Plus an un-gated stress leg (12 tasks).",
        (50, 900),
    )
    .with_min_nontrivial(20);
    report.assume("object_store InMemory / LocalFileSystem implement create-if-absent, rename-if-absent and copy atomically");
    report.assume("the lock and the external manifest store are linearizable harness mocks; a busy lock is reported as a commit conflict after 0-2 gated retries");
    report.assume("for the external-store handler a second copy of the *same* bytes onto an already finalised manifest path (two racing finalisers) is counted, not flagged: no reader can distinguish it");
    let single: Option<u64> = args.extra.get("case").and_then(|s| s.parse().ok());
    let only_handler = args.extra.get("handler").cloned();
    if single.is_none() && !args.extra.contains_key("nostress") {
        stress_leg(&report, args);
        report.set("stress_leg_wall_s", json!(report.elapsed_s()));
    }
    let max_cases: u64 = args.tier.pick(30_000, 2_000_000);
    let next = AtomicU64::new(0);
    let per_handler: Mutex<BTreeMap<String, (u64, u64)>> = Mutex::new(BTreeMap::new());
    let per_strategy: Mutex<BTreeMap<String, u64>> = Mutex::new(BTreeMap::new());
    let threads = if single.is_some() { 1 } else { worker_threads() };
    run_threads(threads, |_| {
        let report = &report;
        let next = &next;
        let per_handler = &per_handler;
        let per_strategy = &per_strategy;
        let only_handler = &only_handler;
        let seed = args.seed;
        Box::pin(async move {
            let lane = || async {
            loop {
                let idx = match single {
                    Some(c) => c,
                    None => next.fetch_add(1, Ordering::SeqCst),
                };
                if single.is_none() && (idx >= max_cases || !report.time_left()) {
                    break;
                }
                let mut handler = HandlerKind::SAFE[((idx / 4 + seed) % 4) as usize];
                if let Some(h) = only_handler {
                    if let Some(k) = HandlerKind::SAFE.iter().find(|k| k.name() == h) {
                        handler = *k;
                    }
                }
                match race(seed, idx, handler, race_secs(report)).await {
                    Err(e) => report.harness_error(&format!("case {idx}: {e}")),
                    Ok(o) => {
                        if o.watchdog {
                            report.inconclusive(&format!("case {idx}: scheduler watchdog fired"));
                            report.count("watchdog_fired", 1);
                        }
                        if o.clients.iter().any(|c| c.result.as_ref().err().map(|e| e == "TIMEOUT").unwrap_or(false)) {
                            report.count("races_with_a_writer_cut_off_by_the_time_limit", 1);
                        }
                        report.count("events", o.events as u64);
                        report.count("race_wall_ms_total", o.wall_ms);
                        if o.wall_ms > 10_000 {
                            report.count("races_slower_than_10s", 1);
                        }
                        report.count("released_calls", o.released as u64);
                        report.count("nondeterministic_steps", o.nondet);
                        report.count("contended_slots", o.contended as u64);
                        for (k, v) in &o.stats {
                            report.count(k, *v);
                        }
                        {
                            let mut g = per_handler.lock().unwrap();
                            let e = g.entry(handler.name().to_string()).or_insert((0, 0));
                            e.0 += 1;
                            if o.contended > 0 {
                                e.1 += 1;
                            }
                            *per_strategy
                                .lock()
                                .unwrap()
                                .entry(o.witness["strategy"].as_str().unwrap_or("").to_string())
                                .or_insert(0) += 1;
                        }
                        for v in &o.verdicts {
                            report.violation(&format!("{}:{}", v.sig, handler.name()), &v.what, o.witness.clone());
                        }
                        if o.contended > 0 && report.want_sample() && (idx % 7 == 0 || idx < 6) {
                            report.sample(o.sample.clone());
                        }
                        report.case(if o.contended > 0 { Some(o.ihash) } else { None });
                    }
                }
                if single.is_some() {
                    break;
                }
            }
            };
            // races mostly sleep (commit backoff): several concurrent lanes per worker thread
            let lanes = if single.is_some() { 1 } else { 4 };
            futures::future::join_all((0..lanes).map(|_| lane())).await;
        })
    });
    report.set(
        "races_by_handler",
        json!(per_handler
            .lock()
            .unwrap()
            .iter()
            .map(|(k, (n, c))| (k.clone(), json!({"races": n, "with_contended_slot": c})))
            .collect::<BTreeMap<_, _>>()),
    );
    report.set("races_by_strategy", json!(per_strategy.lock().unwrap().clone()));
    report.set(
        "level_note",
        json!("interleavings are sampled, not enumerated; the store log is complete for every executed race (every mutation of every manifest path is observed). UnsafeCommitHandler is exercised only in --selftest as a negative control."),
    );
    report.finish()
}
