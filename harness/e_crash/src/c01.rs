//! C01 — every commit is atomic; versions form a dense, monotone history.
//!
//! E-CRASH: for a scenario (random pre-history of 2–6 public write operations on a `memory://`
//! table + one final write operation) the final operation is dry-run once on a restored copy of
//! the pre-state to count its M mutating storage calls and to record the post-state; then it is
//! re-run from the pre-state once per crash point (every k in 1..=M × {effect lost, effect applied
//! + reply lost}; for the external-manifest handler also every external-store write). After each
//! crash a different process with fresh caches observes the table. Oracle: the observation equals
//! exactly the pre-state if the commit point was not applied and exactly the post-state if it was.
//! E-HIST part: after every step of the (fault free) pre-history the version set must be dense,
//! a successful write must have produced exactly latest+1, detached commits must not be visible.

use serde_json::json;
use std::collections::{BTreeMap, BTreeSet};
use std::sync::atomic::{AtomicU64, Ordering};
use std::sync::Mutex;
use vmon::prng::{fnv, Rng};
use vmon::report::{Args, Report};
use vmon::store::{classify_path, Event, Fault, FaultPlan, Kind};
use vmon::table::IdAlloc;

use crate::common::*;
use crate::ops::{self, Op, Shape};

const OP_TIMEOUT_S: u64 = 40;

#[derive(Clone, Debug)]
pub enum CrashPoint {
    Store { k: u64, fault: Fault },
    Ext { op: ExtOp, nth: u32, fault: Fault },
}

impl CrashPoint {
    fn fault(&self) -> Fault {
        match self {
            CrashPoint::Store { fault, .. } | CrashPoint::Ext { fault, .. } => *fault,
        }
    }
    fn fault_name(&self) -> &'static str {
        match self.fault() {
            Fault::FailBefore => "fail_before",
            Fault::LostReply => "lost_reply",
        }
    }
}

#[derive(Debug, Clone, PartialEq)]
pub struct Verdict {
    pub sig: String,
    pub what: String,
}

/// State after the first `n` versions of `o` (what a reader saw when `n` was the latest).
pub fn truncate(o: &Obs, n: u64) -> Obs {
    match o {
        Obs::Absent => Obs::Absent,
        Obs::Table {
            versions,
            per_version,
            raw_final,
            ..
        } => {
            if n == 0 {
                return Obs::Absent;
            }
            Obs::Table {
                versions: versions.iter().copied().filter(|v| *v <= n).collect(),
                latest_id: n,
                opened: n,
                per_version: per_version
                    .iter()
                    .filter(|(v, _)| **v <= n)
                    .map(|(v, o)| (*v, o.clone()))
                    .collect(),
                raw_final: raw_final.iter().copied().filter(|v| *v <= n).collect(),
            }
        }
    }
}

/// The deciding oracle, as a pure function of the observations (so that `--selftest` can feed it
/// corrupted observations). `states[j]` = what readers must see after exactly `j` commit points
/// of the operation were applied (`states[0]` = pre-state, last = post-state; most operations make
/// one commit, compaction may make two: ReserveFragments + Rewrite). `applied` = number of commit
/// points the store log shows as applied; `marker_applied` = for detached commits whether the
/// detached manifest was created (it never changes what readers of the branch see).
pub fn judge(
    states: &[Obs],
    obs: &Obs,
    applied: usize,
    res_ok: bool,
    detached_marker_applied: Option<bool>,
) -> Option<Verdict> {
    let full = states.len() - 1;
    let ok_without_commit = match detached_marker_applied {
        Some(m) => res_ok && !m,
        None => res_ok && applied < full,
    };
    if ok_without_commit {
        return Some(Verdict {
            sig: "ok-returned-without-commit-point".into(),
            what: format!(
                "the operation returned Ok although only {applied} of its {full} manifest creates were applied"
            ),
        });
    }
    let j = applied.min(full);
    let expected = &states[j];
    if obs == expected {
        return None;
    }
    if let Some(other) = states.iter().position(|s| s == obs) {
        return Some(Verdict {
            sig: if other > j {
                "later-state-visible-without-its-commit-point".into()
            } else {
                "earlier-state-visible-after-commit-point".into()
            },
            what: format!(
                "a fresh reader sees the state after {other} commit(s) of the operation but the store log shows {applied} applied commit point(s)"
            ),
        });
    }
    // neither: classify the tear
    let class = match (obs, expected) {
        (Obs::Absent, _) => "table-vanished",
        (_, Obs::Absent) => "table-appeared-partially",
        (
            Obs::Table {
                versions: v,
                raw_final: r,
                latest_id: l,
                opened: o,
                ..
            },
            Obs::Table {
                versions: ev,
                raw_final: er,
                latest_id: el,
                opened: eo,
                ..
            },
        ) => {
            if v != ev || r != er {
                "version-set-neither-pre-nor-post"
            } else if l != el || o != eo {
                "latest-neither-pre-nor-post"
            } else {
                "content-neither-pre-nor-post"
            }
        }
    };
    Some(Verdict {
        sig: format!("torn-{class}"),
        what: format!(
            "after the crash a fresh reader sees none of the admissible states; vs the state after {j} commit(s): {}",
            obs.diff(expected)
        ),
    })
}

/// classified path relative to the table root (so that labels do not depend on tempdir names)
fn rel_class(base: &str, path: &str) -> String {
    match path.strip_prefix(base) {
        Some(rest) => classify_path(&format!("t{rest}")),
        None => classify_path(path),
    }
}

fn dense(versions: &[u64]) -> bool {
    versions.iter().enumerate().all(|(i, v)| *v == i as u64 + 1)
}

/// Invariants of a single fault-free observation.
fn plain_invariants(obs: &Obs) -> Option<Verdict> {
    if let Obs::Table {
        versions,
        latest_id,
        opened,
        raw_final,
        ..
    } = obs
    {
        let n = versions.len() as u64;
        if latest_id & (1u64 << 63) != 0 || opened & (1u64 << 63) != 0 {
            return Some(Verdict {
                sig: "detached-version-resolved-as-latest".into(),
                what: format!(
                    "versions() = {versions:?} but latest_version_id = {latest_id:#x}, open() gave {opened:#x}: a detached commit became the latest version"
                ),
            });
        }
        if !dense(versions) {
            return Some(Verdict {
                sig: "versions-not-dense".into(),
                what: format!("versions() = {versions:?} is not 1..N"),
            });
        }
        if *latest_id != n || *opened != n {
            return Some(Verdict {
                sig: "latest-is-not-max-version".into(),
                what: format!("versions() = 1..{n} but latest_version_id = {latest_id}, open() gave {opened}"),
            });
        }
        if raw_final != versions {
            return Some(Verdict {
                sig: "listing-disagrees-with-versions".into(),
                what: format!("raw _versions listing {raw_final:?} vs versions() {versions:?}"),
            });
        }
    }
    None
}

/// (t, description) of the commit point of `version` in the logs, if it was applied.
fn commit_point(
    base: &str,
    kind: HandlerKind,
    events: &[Event],
    ext_events: &[ExtEvent],
    version: u64,
    detached: bool,
) -> Option<(u64, String)> {
    if detached {
        return events
            .iter()
            .find(|e| {
                e.applied
                    && e.kind.is_mutating()
                    && e.kind != Kind::Delete
                    && matches!(vers_file(base, e.dest()), Some(VersFile::Detached(_)))
            })
            .map(|e| (e.t, e.brief()));
    }
    if kind == HandlerKind::External {
        return ext_events
            .iter()
            .find(|e| e.op == ExtOp::PutIfNotExists && e.applied && e.version == version && e.base == base)
            .map(|e| (e.t, e.brief()));
    }
    events
        .iter()
        .find(|e| {
            e.applied
                && e.kind.is_mutating()
                && e.kind != Kind::Delete
                && final_manifest_version(base, e.dest()) == Some(version)
        })
        .map(|e| (e.t, e.brief()))
}

/// Referenced objects that did not exist (per pre-listing + store log) before logical time `t`.
fn refs_not_existing_before(
    refs: &Refs,
    pre_paths: &BTreeSet<String>,
    events: &[Event],
    t: u64,
    ext_commit: bool,
) -> Vec<String> {
    // for the external handler `t` is the world clock at the external put: store events with
    // e.t < t completed before it. For store commit events the event itself has e.t == t.
    let _ = ext_commit;
    let created_before = |path: &str| {
        pre_paths.contains(path)
            || events.iter().any(|e| {
                e.applied && e.kind.is_mutating() && e.kind != Kind::Delete && e.dest() == path && e.t < t
            })
    };
    let mut bad = vec![];
    for f in &refs.files {
        if !created_before(f) {
            bad.push(f.clone());
        }
    }
    for p in &refs.index_prefixes {
        let ok = pre_paths.iter().any(|x| x.starts_with(p.as_str()))
            || events.iter().any(|e| {
                e.applied
                    && e.kind.is_mutating()
                    && e.kind != Kind::Delete
                    && e.dest().starts_with(p.as_str())
                    && e.t < t
            });
        if !ok {
            bad.push(p.clone());
        }
    }
    bad
}

struct Ctx<'a> {
    report: &'a Report,
    seed: u64,
    matrix: Mutex<BTreeMap<String, u64>>,
    m_hist: Mutex<BTreeMap<u64, u64>>,
    only_kind: Option<String>,
    only_handler: Option<String>,
    verbose: bool,
    no_local: bool,
}

impl Ctx<'_> {
    fn bump(&self, key: String, n: u64) {
        *self.matrix.lock().unwrap().entry(key).or_insert(0) += n;
    }
}

fn shape_of(obs: &Obs, v2: bool, arrow: &arrow_schema::Schema) -> Shape {
    match obs {
        Obs::Absent => Shape::absent(),
        Obs::Table {
            versions,
            opened,
            per_version,
            ..
        } => Shape::from_obs(&per_version[opened], *opened, versions.clone(), v2, arrow),
    }
}

async fn live_schema(p: &Proc, uri: &str) -> Option<(arrow_schema::Schema, bool)> {
    let ds = p.actor.open(uri).await.ok()?;
    let arrow: arrow_schema::Schema = ds.schema().into();
    let v2 = ds.manifest_location().naming_scheme == lance_table::io::commit::ManifestNamingScheme::V2;
    Some((arrow, v2))
}

fn witness_base(ctx: &Ctx, idx: u64, handler: HandlerKind, history: &[String], final_op: &Op) -> serde_json::Value {
    json!({
        "seed": ctx.seed, "case": idx, "handler": handler.name(),
        "history": history, "final_op": final_op.describe(),
        "replay": format!("e_crash C01 --seed {} --case {}", ctx.seed, idx),
    })
}

/// One scenario: history (with plain-history monitors), dry run, crash enumeration.
async fn scenario(ctx: &Ctx<'_>, idx: u64) {
    let report = ctx.report;
    let mut rng = Rng::for_case(ctx.seed, idx);
    let nh = HandlerKind::SAFE.len() as u64;
    let nk = ops::FINAL_KINDS.len() as u64;
    let mut handler = HandlerKind::SAFE[((idx + ctx.seed) % nh) as usize];
    let mut want_kind = ops::FINAL_KINDS[(((idx / nh) + ctx.seed.wrapping_mul(7)) % nk) as usize];
    if let Some(h) = &ctx.only_handler {
        if let Some(k) = HandlerKind::SAFE.iter().find(|k| k.name() == h) {
            handler = *k;
        }
    }
    if let Some(k) = &ctx.only_kind {
        if let Some(k) = ops::FINAL_KINDS.iter().find(|x| **x == k.as_str()) {
            want_kind = k;
        }
    }
    // every 5th scenario lives on the local filesystem (Lance's local fast paths, e.g.
    // `current_manifest_local`, real O_EXCL / hard-link commit); the external store mock is keyed
    // by the table path, so that handler stays on memory://
    let local = handler != HandlerKind::External && idx % 5 == 4 && !ctx.no_local;
    let env = if local {
        match Env::new_local(handler) {
            Ok(e) => e,
            Err(e) => {
                report.harness_error(&format!("tempdir: {e}"));
                return;
            }
        }
    } else {
        Env::new(handler)
    };
    let uri = env.uri();
    let base = env.base();
    let store_name = if local { "local_fs" } else { "memory" };
    let mut ids = IdAlloc::new(0);
    let mut history: Vec<String> = vec![format!("[store: {store_name}]")];
    let mut cur = Obs::Absent;
    let mut cur_validate_ok = true;
    let mut step_no = 0usize;

    // ---------------- pre-history with plain monitors ----------------
    if want_kind != "create" {
        let n_steps = rng.urange(2, 6);
        for s in 0..n_steps {
            let shape = if s == 0 {
                Shape::absent()
            } else {
                let Some((arrow, v2)) = live_schema(&env.proc(40), &uri).await else {
                    report.harness_error("cannot reopen the table during history generation");
                    return;
                };
                shape_of(&cur, v2, &arrow)
            };
            let op = if s == 0 {
                let force_v2 = if want_kind == "detached_append" { Some(true) } else { None };
                ops::gen_create(&mut rng, &mut ids, force_v2)
            } else {
                match ops::gen_step(&mut rng, &shape, &mut ids) {
                    Some(op) => op,
                    None => continue,
                }
            };
            step_no += 1;
            let pre_paths: BTreeSet<String> = env.list_paths().await.into_iter().collect();
            let log_from = env.world.log_len();
            let ext_from = env.ext.log.lock().unwrap().len();
            let w = env.proc(1);
            let res = guarded(ops::apply(&op, &w.actor, &uri), OP_TIMEOUT_S).await;
            let res: Result<(), String> = match res {
                Err(GuardFail::Timeout) => {
                    report.inconclusive(&format!("case {idx}: history step {} timed out", op.describe()));
                    return;
                }
                Err(GuardFail::Panic(m)) => Err(format!("panic: {m}")),
                Ok(r) => r.map_err(|e| e.to_string()),
            };
            history.push(format!(
                "{}{}",
                op.describe(),
                if let Err(e) = &res {
                    format!(" -> Err({})", e.chars().take(120).collect::<String>())
                } else {
                    String::new()
                }
            ));
            let (obs, extra) = match observe_guarded(&env.proc(50 + step_no), &env).await {
                Seen::Ok(o, x) => (o, x),
                Seen::Unreadable(e) => {
                    report.violation(
                        "plain-history-table-unreadable",
                        "after a fault-free operation the table cannot be read back",
                        json!({"base": witness_base(ctx, idx, handler, &history, &op), "error": e}),
                    );
                    return;
                }
                Seen::Panic { msg, sig } => {
                    report.violation(
                        &sig,
                        "after a fault-free operation a fresh reader panics inside Lance while opening the table",
                        json!({"base": witness_base(ctx, idx, handler, &history, &op), "panic": msg,
                               "versions_dir": env.list_paths().await.into_iter().filter(|p| p.contains("/_versions/")).collect::<Vec<_>>()}),
                    );
                    report.count("scenarios_ended_by_reader_panic", 1);
                    return;
                }
                Seen::Timeout => {
                    report.inconclusive(&format!("case {idx}: observer timed out"));
                    return;
                }
            };
            report.count("history_steps_checked", 1);
            if let Some(o) = obs.latest_obs() {
                if o.duplicate_ids() > 0 {
                    // not a C01 matter (row-level semantics of merge_insert); reported in NOTES.md
                    report.count("diagnostic_duplicate_primary_keys_after_step", 1);
                    if ctx.verbose {
                        eprintln!("case {idx}: duplicate ids after {}", op.describe());
                    }
                }
            }
            if let Some(v) = plain_invariants(&obs) {
                report.violation(
                    &v.sig,
                    &v.what,
                    json!({"base": witness_base(ctx, idx, handler, &history, &op), "observed": obs.brief()}),
                );
                return;
            }
            let prev_n = cur.latest().unwrap_or(0);
            let new_n = obs.latest().unwrap_or(0);
            match &res {
                Ok(()) => {
                    let fine = if op.is_detached() {
                        report.count("detached_commits_checked", 1);
                        obs == cur
                    } else if new_n > prev_n && new_n - prev_n <= op.max_commits() {
                        report.count("history_commits_checked", new_n - prev_n);
                        truncate(&obs, prev_n) == cur
                    } else {
                        new_n == prev_n && op.may_noop() && obs == cur
                    };
                    if !fine {
                        report.violation(
                            if op.is_detached() {
                                "detached-commit-changed-visible-state"
                            } else {
                                "successful-write-did-not-make-exactly-latest-plus-one"
                            },
                            &format!(
                                "{} returned Ok on latest={prev_n}; afterwards latest={new_n}",
                                op.describe()
                            ),
                            json!({"base": witness_base(ctx, idx, handler, &history, &op),
                                   "before": cur.brief(), "after": obs.brief()}),
                        );
                        return;
                    }
                    // store-log ordering: everything the new manifest references existed before it
                    if new_n > prev_n && !op.is_detached() {
                        let ev = env.world.events_since(log_from);
                        let xev: Vec<ExtEvent> = env.ext.events()[ext_from..].to_vec();
                        match commit_point(&base, handler, &ev, &xev, new_n, false) {
                            None => {
                                report.violation(
                                    "new-version-without-logged-manifest-create",
                                    "a new version is visible but the store log has no applied create of its manifest",
                                    json!({"base": witness_base(ctx, idx, handler, &history, &op)}),
                                );
                                return;
                            }
                            Some((t, what)) => {
                                if let Some(x) = &extra {
                                    let bad = refs_not_existing_before(&x.refs, &pre_paths, &ev, t, handler == HandlerKind::External);
                                    report.count("manifest_refs_checked", (x.refs.files.len() + x.refs.index_prefixes.len()) as u64);
                                    if !bad.is_empty() {
                                        report.violation(
                                            "manifest-visible-before-referenced-object",
                                            "a manifest became visible before an object it references existed",
                                            json!({"base": witness_base(ctx, idx, handler, &history, &op),
                                                   "commit_event": what, "missing_at_commit": bad}),
                                        );
                                        return;
                                    }
                                }
                            }
                        }
                    }
                }
                Err(e) => {
                    report.rejected();
                    if obs != cur {
                        report.violation(
                            "failed-write-left-effect",
                            &format!("{} failed ({e}) but the visible state changed: {}", op.describe(), obs.diff(&cur)),
                            json!({"base": witness_base(ctx, idx, handler, &history, &op),
                                   "before": cur.brief(), "after": obs.brief()}),
                        );
                        return;
                    }
                }
            }
            if let Some(x) = &extra {
                cur_validate_ok = x.validate.is_ok();
                if let Err(e) = &x.validate {
                    report.count("validate_failed_on_plain_history", 1);
                    if ctx.verbose {
                        eprintln!("case {idx}: validate failed on plain history: {e}");
                    }
                }
                let paths = env.list_paths().await;
                let missing = missing_refs(&x.refs, &paths);
                if !missing.is_empty() {
                    report.violation(
                        "visible-manifest-references-missing-object",
                        "the latest manifest references objects that are not in the store",
                        json!({"base": witness_base(ctx, idx, handler, &history, &op), "missing": missing}),
                    );
                    return;
                }
            }
            cur = obs;
            if !report.time_left() {
                return;
            }
        }
        if matches!(cur, Obs::Absent) {
            return;
        }
    }

    // ---------------- final operation ----------------
    let shape = match &cur {
        Obs::Absent => Shape::absent(),
        _ => {
            let Some((arrow, v2)) = live_schema(&env.proc(41), &uri).await else {
                report.harness_error("cannot reopen the table before the final operation");
                return;
            };
            shape_of(&cur, v2, &arrow)
        }
    };
    let mut final_op = None;
    let start = ops::FINAL_KINDS.iter().position(|k| *k == want_kind).unwrap_or(0);
    for j in 0..ops::FINAL_KINDS.len() {
        let k = ops::FINAL_KINDS[(start + j) % ops::FINAL_KINDS.len()];
        if let Some(op) = ops::gen_kind(k, &mut rng, &shape, &mut ids) {
            final_op = Some(op);
            break;
        }
    }
    let Some(final_op) = final_op else { return };
    let pre = cur.clone();
    let snap = env.snapshot().await;
    let pre_n = pre.latest().unwrap_or(0);
    let target = pre_n + 1;
    let detached = final_op.is_detached();

    // dry run
    let env_d = Env::restore(handler, &snap).await;
    let uri_d = env_d.uri();
    let base_d = env_d.base();
    let pre_paths: BTreeSet<String> = env_d.list_paths().await.into_iter().collect();
    let w = env_d.proc(1);
    w.actor.store.reset_counters();
    let res = guarded(ops::apply(&final_op, &w.actor, &uri_d), OP_TIMEOUT_S).await;
    let res = match res {
        Err(GuardFail::Timeout) => {
            report.inconclusive(&format!("case {idx}: dry run of {} timed out", final_op.describe()));
            return;
        }
        Err(GuardFail::Panic(m)) => Err(format!("panic: {m}")),
        Ok(r) => r.map_err(|e| e.to_string()),
    };
    let m = w.actor.store.mutating_calls();
    let dry_events = env_d.world.events();
    let dry_ext = env_d.ext.events();
    let (post, post_extra) = match observe_guarded(&env_d.proc(2), &env_d).await {
        Seen::Ok(o, x) => (o, x),
        Seen::Unreadable(e) => {
            report.violation(
                "plain-history-table-unreadable",
                "after a fault-free operation the table cannot be read back",
                json!({"base": witness_base(ctx, idx, handler, &history, &final_op), "error": e}),
            );
            return;
        }
        Seen::Panic { msg, sig } => {
            report.violation(
                &sig,
                "after a fault-free operation a fresh reader panics inside Lance while opening the table",
                json!({"base": witness_base(ctx, idx, handler, &history, &final_op), "panic": msg,
                       "versions_dir": env_d.list_paths().await.into_iter().filter(|p| p.contains("/_versions/")).collect::<Vec<_>>()}),
            );
            if final_op.is_detached() && res.is_ok() && sig == SIG_DETACHED_PANIC {
                // the admissible reader state of a detached commit is the pre-state in any case:
                // keep enumerating its crash points against that
                (pre.clone(), None)
            } else {
                report.count("scenarios_ended_by_reader_panic", 1);
                return;
            }
        }
        Seen::Timeout => {
            report.inconclusive(&format!("case {idx}: observer timed out"));
            return;
        }
    };
    if let Err(e) = &res {
        report.rejected();
        ctx.bump(format!("rejected_final.{}", final_op.kind()), 1);
        if ctx.verbose {
            eprintln!("case {idx}: final op {} rejected: {e}", final_op.describe());
        }
        if post != pre {
            report.violation(
                "failed-write-left-effect",
                &format!("{} failed ({e}) but the visible state changed: {}", final_op.describe(), post.diff(&pre)),
                json!({"base": witness_base(ctx, idx, handler, &history, &final_op),
                       "before": pre.brief(), "after": post.brief()}),
            );
        }
        return;
    }
    if let Some(v) = plain_invariants(&post) {
        report.violation(&v.sig, &v.what, json!({"base": witness_base(ctx, idx, handler, &history, &final_op), "observed": post.brief()}));
        return;
    }
    let post_n = post.latest().unwrap_or(0);
    let mut states: Vec<Obs> = vec![pre.clone()];
    let commits: u64;
    if detached {
        report.count("detached_commits_checked", 1);
        commits = 0;
        if post != pre {
            report.violation(
                "detached-commit-changed-visible-state",
                &format!("detached commit changed what readers see: {}", post.diff(&pre)),
                json!({"base": witness_base(ctx, idx, handler, &history, &final_op), "before": pre.brief(), "after": post.brief()}),
            );
            return;
        }
    } else if post_n == pre_n {
        // no commit (e.g. nothing to compact)
        if post != pre || !final_op.may_noop() {
            report.violation(
                "successful-write-did-not-make-exactly-latest-plus-one",
                &format!("{} returned Ok on latest={pre_n} and made no version", final_op.describe()),
                json!({"base": witness_base(ctx, idx, handler, &history, &final_op), "before": pre.brief(), "after": post.brief()}),
            );
        }
        report.count("noop_final_ops", 1);
        return;
    } else if post_n < pre_n || post_n - pre_n > final_op.max_commits() {
        report.violation(
            "successful-write-did-not-make-exactly-latest-plus-one",
            &format!("{} returned Ok on latest={pre_n}; afterwards latest={post_n}", final_op.describe()),
            json!({"base": witness_base(ctx, idx, handler, &history, &final_op), "before": pre.brief(), "after": post.brief()}),
        );
        return;
    } else {
        commits = post_n - pre_n;
        for j in 1..=commits {
            states.push(truncate(&post, pre_n + j));
        }
        if truncate(&post, pre_n) != pre {
            report.violation(
                "committed-write-altered-earlier-versions",
                &format!("after {} the versions 1..{pre_n} no longer read as before: {}", final_op.describe(), truncate(&post, pre_n).diff(&pre)),
                json!({"base": witness_base(ctx, idx, handler, &history, &final_op), "before": pre.brief(), "after": post.brief()}),
            );
            return;
        }
    }
    let dry_commit = if detached {
        commit_point(&base_d, handler, &dry_events, &dry_ext, target, true)
    } else {
        commit_point(&base_d, handler, &dry_events, &dry_ext, post_n, false)
    };
    let Some((t_commit, commit_what)) = dry_commit else {
        report.violation(
            "new-version-without-logged-manifest-create",
            "a new version is visible but the store log has no applied create of its manifest",
            json!({"base": witness_base(ctx, idx, handler, &history, &final_op)}),
        );
        return;
    };
    if let Some(x) = &post_extra {
        if !detached {
            let bad = refs_not_existing_before(&x.refs, &pre_paths, &dry_events, t_commit, handler == HandlerKind::External);
            report.count("manifest_refs_checked", (x.refs.files.len() + x.refs.index_prefixes.len()) as u64);
            if !bad.is_empty() {
                report.violation(
                    "manifest-visible-before-referenced-object",
                    "a manifest became visible before an object it references existed",
                    json!({"base": witness_base(ctx, idx, handler, &history, &final_op),
                           "commit_event": commit_what, "missing_at_commit": bad}),
                );
                return;
            }
        }
    }
    let post_validate_ok = post_extra.as_ref().map(|x| x.validate.is_ok()).unwrap_or(true);
    if !post_validate_ok {
        report.count("validate_failed_on_plain_history", 1);
    }

    // crash points
    let mut points: Vec<(CrashPoint, String)> = vec![];
    for k in 1..=m {
        let label = dry_events
            .iter()
            .find(|e| e.actor == 1 && e.mut_index == Some(k))
            .map(|e| {
                format!(
                    "{} {}{}",
                    e.kind.name(),
                    rel_class(&base_d, &e.path),
                    e.to.as_ref().map(|t| format!(" => {}", rel_class(&base_d, t))).unwrap_or_default()
                )
            })
            .unwrap_or_else(|| format!("mutating call #{k}"));
        for fault in [Fault::FailBefore, Fault::LostReply] {
            points.push((CrashPoint::Store { k, fault }, label.clone()));
        }
    }
    if let Some(c) = &w.ext {
        for op in [ExtOp::PutIfNotExists, ExtOp::PutIfExists] {
            for nth in 1..=c.calls(op) {
                for fault in [Fault::FailBefore, Fault::LostReply] {
                    points.push((CrashPoint::Ext { op, nth, fault }, format!("ext.{}#{nth}", op.name())));
                }
            }
        }
    }
    report.count("scenarios", 1);
    if local {
        report.count("scenarios_on_local_filesystem", 1);
    }
    ctx.bump(format!("scenarios.{}.{}", handler.name(), final_op.kind()), 1);
    *ctx.m_hist.lock().unwrap().entry(m).or_insert(0) += 1;
    let shape_brief = shape.brief();
    let mut outcomes: Vec<String> = vec![];
    let mut complete = true;

    for (cp, label) in &points {
        if !report.time_left() {
            complete = false;
            break;
        }
        let env_c = Env::restore(handler, &snap).await;
        let uri_c = env_c.uri();
        let base_c = env_c.base();
        let pre_paths: BTreeSet<String> = env_c.list_paths().await.into_iter().collect();
        let w = env_c.proc(1);
        w.actor.store.reset_counters();
        match cp {
            CrashPoint::Store { k, fault } => w.actor.store.set_plan(FaultPlan {
                crash_at: Some((*k, *fault)),
                ..Default::default()
            }),
            CrashPoint::Ext { op, nth, fault } => w.ext.as_ref().unwrap().set_faults(vec![ExtFault {
                op: *op,
                nth: *nth,
                fault: *fault,
                crash: true,
            }]),
        }
        let r = guarded(ops::apply(&final_op, &w.actor, &uri_c), OP_TIMEOUT_S).await;
        let (res_ok, res_txt) = match r {
            Err(GuardFail::Timeout) => {
                report.inconclusive(&format!(
                    "case {idx}: {} hung after crash point {label}/{}",
                    final_op.describe(),
                    cp.fault_name()
                ));
                report.count("crash_runs_timed_out", 1);
                continue;
            }
            Err(GuardFail::Panic(msg)) => {
                report.count("panics_after_injected_crash", 1);
                (false, format!("panic: {msg}"))
            }
            Ok(Ok(())) => (true, "Ok".to_string()),
            Ok(Err(e)) => (false, e.to_string().chars().take(160).collect()),
        };
        let reached = w.actor.store.is_crashed() || w.ext.as_ref().map(|c| c.is_dead()).unwrap_or(false);
        if !reached {
            report.count("crash_point_not_reached", 1);
        }
        let events = env_c.world.events();
        let xevents = env_c.ext.events();
        report.count("store_events_observed", events.len() as u64);
        // which commit points of the operation were applied (must be a prefix)
        let mut applied = 0usize;
        let mut commit: Option<(u64, String)> = None;
        let mut hole = false;
        if detached {
            commit = commit_point(&base_c, handler, &events, &xevents, target, true);
        } else {
            for j in 1..=commits {
                match commit_point(&base_c, handler, &events, &xevents, pre_n + j, false) {
                    Some(c) => {
                        if applied as u64 != j - 1 {
                            hole = true;
                        }
                        applied += 1;
                        commit = Some(c);
                    }
                    None => {}
                }
            }
        }
        let commit_applied = commit.is_some();
        let wit = |extra: serde_json::Value| {
            json!({
                "base": witness_base(ctx, idx, handler, &history, &final_op),
                "crash_point": label, "fault": cp.fault_name(), "crash_point_detail": format!("{cp:?}"),
                "op_result": res_txt, "commit_points_applied": applied, "commit_points_of_op": commits,
                "detached_manifest_applied": detached && commit_applied,
                "writer_log": events.iter().filter(|e| e.actor == 1 && e.kind.is_mutating()).map(|e| e.brief()).collect::<Vec<_>>(),
                "ext_log": xevents.iter().map(|e| e.brief()).collect::<Vec<_>>(),
                "pre": pre.brief(), "post": post.brief(), "detail": extra,
                "replay_crash": format!("--case {idx} (crash point {cp:?})"),
            })
        };
        let class = format!("{}/{}/{}", handler.name(), final_op.kind(), cp.fault_name());
        let (obs, extra) = match observe_guarded(&env_c.proc(2), &env_c).await {
            Seen::Ok(o, x) => (o, x),
            Seen::Unreadable(e) => {
                report.violation(
                    &format!("reopen-failed-after-crash:{class}"),
                    "after a crashed write a freshly started reader cannot read the table",
                    wit(json!({"error": e})),
                );
                report.case(Some(fnv(format!("{class}|{label}|{shape_brief}").as_bytes())));
                continue;
            }
            Seen::Panic { msg, sig } => {
                let sig = if sig == SIG_DETACHED_PANIC { sig } else { format!("{sig}:{class}") };
                report.violation(
                    &sig,
                    "after a crashed write a freshly started reader panics inside Lance while opening the table",
                    wit(json!({"panic": msg})),
                );
                report.count("crash_runs_reader_panicked", 1);
                report.case(Some(fnv(format!("{class}|{label}|{shape_brief}").as_bytes())));
                continue;
            }
            Seen::Timeout => {
                report.inconclusive(&format!("case {idx}: observer timed out after crash point {label}"));
                continue;
            }
        };
        report.count("crash_runs", 1);
        if local {
            report.count("crash_runs_on_local_filesystem", 1);
        }
        ctx.bump(format!("crash_runs.{}.{}", handler.name(), final_op.kind()), 1);
        if let Obs::Table { per_version, .. } = &obs {
            report.count("versions_compared", per_version.len() as u64);
            report.count("rows_compared", per_version.values().map(|v| v.n_rows() as u64).sum());
        }
        if hole {
            report.violation(
                &format!("later-manifest-created-without-earlier-one:{class}"),
                "the store log shows the create of version N+2 applied without the create of N+1",
                wit(json!({"observed": obs.brief()})),
            );
        }
        let marker = if detached { Some(commit_applied) } else { None };
        if let Some(v) = judge(&states, &obs, applied, res_ok, marker) {
            report.violation(&format!("{}:{class}", v.sig), &v.what, wit(json!({"observed": obs.brief()})));
        }
        if let Some(x) = &extra {
            let paths = env_c.list_paths().await;
            let missing = missing_refs(&x.refs, &paths);
            if !missing.is_empty() {
                report.violation(
                    &format!("visible-manifest-references-missing-object:{class}"),
                    "after the crash the latest manifest references objects that are not in the store",
                    wit(json!({"missing": missing})),
                );
            }
            if let (Some((t, what)), false) = (&commit, detached) {
                let bad = refs_not_existing_before(&x.refs, &pre_paths, &events, *t, handler == HandlerKind::External);
                if !bad.is_empty() {
                    report.violation(
                        &format!("manifest-visible-before-referenced-object:{class}"),
                        "a manifest became visible before an object it references existed",
                        wit(json!({"commit_event": what, "missing_at_commit": bad})),
                    );
                }
            }
            if x.validate.is_err() && cur_validate_ok && post_validate_ok {
                report.violation(
                    &format!("validate-failed-after-crash:{class}"),
                    "Dataset::validate() fails on the state a fresh reader sees after the crash",
                    wit(json!({"validate": x.validate.clone().err()})),
                );
            }
            report.count("debris_staging_manifests", x.staging.len() as u64);
        }
        // non-trivial: an object of the operation exists in the store, or the commit point itself
        let now_paths = env_c.list_paths().await;
        let new_objects = now_paths.iter().filter(|p| !pre_paths.contains(*p)).count();
        let is_commit_call = match cp {
            CrashPoint::Store { k, .. } => dry_events.iter().any(|e| {
                e.actor == 1
                    && e.mut_index == Some(*k)
                    && (final_manifest_version(&base_d, e.dest()).map(|v| v > pre_n).unwrap_or(false)
                        || matches!(vers_file(&base_d, e.dest()), Some(VersFile::Detached(_))))
            }),
            CrashPoint::Ext { op, .. } => *op == ExtOp::PutIfNotExists,
        };
        let nontrivial = new_objects > 0 || is_commit_call;
        if commit_applied {
            report.count("crash_runs_after_commit_point", 1);
        } else {
            report.count("crash_runs_before_commit_point", 1);
        }
        if is_commit_call {
            report.count("crash_runs_at_commit_call", 1);
        }
        outcomes.push(format!(
            "{label} [{}] -> {} ({})",
            cp.fault_name(),
            if detached {
                "pre (detached)".to_string()
            } else {
                format!("state after {applied}/{commits} commit(s)")
            },
            if res_ok { "op Ok" } else { "op Err" }
        ));
        report.case(if nontrivial {
            Some(fnv(format!("{class}|{label}|{shape_brief}").as_bytes()))
        } else {
            None
        });
    }
    if complete {
        report.count("scenarios_fully_enumerated", 1);
    } else {
        report.count("scenarios_truncated_by_budget", 1);
    }
    if report.want_sample() && complete {
        report.sample(json!({
            "case": idx, "handler": handler.name(), "store": store_name, "history": history,
            "pre_state": shape_brief, "final_op": final_op.describe(),
            "mutating_calls_M": m, "crash_points": points.len(),
            "commit_point": commit_what, "outcomes": outcomes,
        }));
    }
}

/// `--selftest`: feed the oracle corrupted observations of a real scenario; it must object.
fn selftest(args: &Args) -> i32 {
    let rt = tokio::runtime::Builder::new_current_thread().enable_all().build().unwrap();
    let ok = rt.block_on(async {
        let mut rng = Rng::for_case(args.seed, 0);
        let mut ids = IdAlloc::new(0);
        let env = Env::new(HandlerKind::CondPut);
        let w = env.proc(1);
        let create = ops::gen_create(&mut rng, &mut ids, Some(false));
        ops::apply(&create, &w.actor, &env.uri()).await.expect("create");
        let (pre, _) = observe(&env.proc(2), &env).await.expect("observe");
        let (arrow, v2) = live_schema(&env.proc(3), &env.uri()).await.unwrap();
        let shape = shape_of(&pre, v2, &arrow);
        let app = ops::gen_kind("append", &mut rng, &shape, &mut ids).unwrap();
        ops::apply(&app, &w.actor, &env.uri()).await.expect("append");
        let (post, _) = observe(&env.proc(4), &env).await.expect("observe");
        let mut fails = vec![];
        let st = vec![pre.clone(), post.clone()];
        if truncate(&post, 1) != pre {
            fails.push("truncate(post) != pre on a clean history");
        }
        // sound on clean inputs
        if judge(&st, &pre, 0, false, None).is_some() {
            fails.push("clean pre flagged");
        }
        if judge(&st, &post, 1, true, None).is_some() {
            fails.push("clean post flagged");
        }
        // 1. drop a row from the observed latest version
        let mut o = post.clone();
        if let Obs::Table { per_version, opened, .. } = &mut o {
            let v = per_version.get_mut(opened).unwrap();
            let k = *v.rows.keys().next().unwrap();
            v.rows.remove(&k);
        }
        if judge(&st, &o, 1, false, None).is_none() {
            fails.push("dropped row not flagged");
        }
        // 2. partial visibility: version N+1 listed but latest still N
        let mut o = post.clone();
        if let Obs::Table { latest_id, .. } = &mut o {
            *latest_id -= 1;
        }
        if judge(&st, &o, 1, false, None).is_none() {
            fails.push("stale latest not flagged");
        }
        // 3. post state visible although the commit point was not applied
        if judge(&st, &post, 0, false, None).is_none() {
            fails.push("post without commit not flagged");
        }
        // 4. pre state after the commit point
        if judge(&st, &pre, 1, false, None).is_none() {
            fails.push("pre after commit not flagged");
        }
        // 5. Ok without commit
        if judge(&st, &pre, 0, true, None).is_none() {
            fails.push("ok without commit not flagged");
        }
        // 6. a hole in the version list
        let mut o = post.clone();
        if let Obs::Table { versions, .. } = &mut o {
            versions.remove(0);
        }
        if plain_invariants(&o).is_none() {
            fails.push("hole in versions not flagged");
        }
        // 7. changed cell in an old version
        let mut o = pre.clone();
        if let Obs::Table { per_version, .. } = &mut o {
            let v = per_version.get_mut(&1).unwrap();
            let k = *v.rows.keys().next().unwrap();
            v.rows.get_mut(&k).unwrap()[0][0] = vmon::table::Cell::Int(-77);
        }
        if judge(&st, &o, 0, false, None).is_none() {
            fails.push("changed cell not flagged");
        }
        // 8. referenced object missing
        let refs = Refs { files: vec!["t/data/nope.lance".into()], index_prefixes: vec![] };
        if missing_refs(&refs, &env.list_paths().await).is_empty() {
            fails.push("missing ref not flagged");
        }
        if refs_not_existing_before(&refs, &BTreeSet::new(), &env.world.events(), u64::MAX, false).is_empty() {
            fails.push("ref ordering not flagged");
        }
        if fails.is_empty() {
            println!("SELFTEST C01 ok: oracle flagged 8/8 corrupted observations and accepted 2/2 clean ones");
            true
        } else {
            println!("SELFTEST C01 FAILED: {fails:?}");
            false
        }
    });
    if ok {
        0
    } else {
        2
    }
}

pub fn run(args: &Args) -> i32 {
    if args.extra.contains_key("selftest") {
        return selftest(args);
    }
    let report = Report::new(
        args,
        "fault_enumeration",
        "Scenario = seeded random pre-history (2-6 public write ops, monitors after every step) + one final write op; \
         the final op is re-run from the restored pre-state once per crash point: every k-th mutating storage call x \
         {effect lost, effect applied + reply lost} (+ every external-store write for the external handler), over 4 \
         commit handlers. A case is one crash run; it is non-trivial iff after the crash at least one object written \
         by the operation exists in the store or the crashed call is the commit point itself; distinct = \
         (handler, op kind, fault, classified crashed call, pre-state shape).",
        (68, 1000),
    )
    .with_min_nontrivial(20);
    let ctx = Ctx {
        report: &report,
        seed: args.seed,
        matrix: Mutex::new(BTreeMap::new()),
        m_hist: Mutex::new(BTreeMap::new()),
        only_kind: args.extra.get("kind").cloned(),
        only_handler: args.extra.get("handler").cloned(),
        verbose: args.extra.contains_key("verbose"),
        no_local: args.extra.contains_key("nolocal"),
    };
    report.assume("object_store::memory::InMemory implements put(Create), rename_if_not_exists and copy atomically");
    report.assume("a crash is modelled at storage-call granularity: the k-th mutating call (and every later call) of the writer fails, with the effect of call k either lost or applied");
    report.assume("the lock of the lock-based handler and the external manifest store are harness mocks (in-process, linearizable); only Lance's use of them is under test");
    let single: Option<u64> = args.extra.get("case").and_then(|s| s.parse().ok());
    let max_cases: u64 = args.tier.pick(20_000, 1_000_000);
    let next = AtomicU64::new(0);
    let threads = if single.is_some() { 1 } else { worker_threads() };
    run_threads(threads, |_| {
        let ctx = &ctx;
        let next = &next;
        Box::pin(async move {
            if let Some(c) = single {
                scenario(ctx, c).await;
                return;
            }
            loop {
                let idx = next.fetch_add(1, Ordering::SeqCst);
                if idx >= max_cases || !ctx.report.time_left() {
                    break;
                }
                scenario(ctx, idx).await;
            }
        })
    });
    let matrix = ctx.matrix.lock().unwrap().clone();
    let mut scen: BTreeMap<String, u64> = BTreeMap::new();
    let mut runs: BTreeMap<String, u64> = BTreeMap::new();
    let mut rejected: BTreeMap<String, u64> = BTreeMap::new();
    let mut per_handler: BTreeMap<String, u64> = BTreeMap::new();
    let mut per_kind: BTreeMap<String, u64> = BTreeMap::new();
    for (k, v) in &matrix {
        let parts: Vec<&str> = k.split('.').collect();
        match parts[0] {
            "scenarios" => {
                scen.insert(format!("{}/{}", parts[1], parts[2]), *v);
            }
            "crash_runs" => {
                runs.insert(format!("{}/{}", parts[1], parts[2]), *v);
                *per_handler.entry(parts[1].to_string()).or_insert(0) += v;
                *per_kind.entry(parts[2].to_string()).or_insert(0) += v;
            }
            "rejected_final" => {
                rejected.insert(parts[1].to_string(), *v);
            }
            _ => {}
        }
    }
    report.set("scenarios_by_handler_and_op", json!(scen));
    report.set("crash_runs_by_handler", json!(per_handler));
    report.set("crash_runs_by_op", json!(per_kind));
    report.set("rejected_final_ops_by_kind", json!(rejected));
    report.set(
        "mutating_calls_per_final_op_histogram",
        json!(ctx.m_hist.lock().unwrap().iter().map(|(k, v)| (k.to_string(), *v)).collect::<BTreeMap<_, _>>()),
    );
    report.set(
        "level_note",
        json!("exhaustive over the crash points of each enumerated scenario (scenarios_fully_enumerated); scenarios themselves are sampled. Out of reach: real S3/DynamoDB semantics, power-loss durability of a local filesystem."),
    );
    report.exhaustive(false);
    report.finish()
}
