//! Shared machinery of the e_crash engine: commit-handler zoo (conditional put, rename, lock
//! based, external manifest store), the mocks behind them (gate-aware lock, gate-aware and
//! faultable external manifest store), environments that can be snapshotted / restored, and the
//! "reboot observer" that records what a fresh process sees.

use async_trait::async_trait;
use bytes::Bytes;
use lance::Dataset;
use lance_index::DatasetIndexExt;
use lance_table::io::commit::external_manifest::{
    ExternalManifestCommitHandler, ExternalManifestStore,
};
use lance_table::io::commit::{
    CommitError, CommitHandler, CommitLease, CommitLock, ConditionalPutCommitHandler,
    RenameCommitHandler, UnsafeCommitHandler,
};
use object_store::path::Path;
use object_store::ObjectStore as _;
use std::collections::{BTreeMap, BTreeSet};
use std::sync::atomic::{AtomicBool, Ordering};
use std::sync::{Arc, Mutex};
use vmon::store::{ActorStore, Fault, FaultPlan, World};
use vmon::table::{scan_rows, Actor, Row, ScanOpts};

// -------------------------------------------------------------------------------------------
// errors without a snafu dependency
// -------------------------------------------------------------------------------------------

pub fn io_err(msg: &str) -> lance_core::Error {
    lance_core::Error::from(std::io::Error::other(msg.to_string()))
}

pub fn not_found_err(uri: &str) -> lance_core::Error {
    match io_err("x") {
        lance_core::Error::IO { location, .. } => lance_core::Error::NotFound {
            uri: uri.to_string(),
            location,
        },
        other => other,
    }
}

// -------------------------------------------------------------------------------------------
// handler kinds
// -------------------------------------------------------------------------------------------

#[derive(Clone, Copy, Debug, PartialEq, Eq, Hash, PartialOrd, Ord)]
pub enum HandlerKind {
    CondPut,
    Rename,
    Lock,
    External,
    /// negative control only
    Unsafe,
}

impl HandlerKind {
    pub const SAFE: [HandlerKind; 4] = [
        HandlerKind::CondPut,
        HandlerKind::Rename,
        HandlerKind::Lock,
        HandlerKind::External,
    ];
    pub fn name(&self) -> &'static str {
        match self {
            HandlerKind::CondPut => "conditional_put",
            HandlerKind::Rename => "rename",
            HandlerKind::Lock => "lock",
            HandlerKind::External => "external",
            HandlerKind::Unsafe => "unsafe",
        }
    }
}

// -------------------------------------------------------------------------------------------
// lock mock (gate aware)
// -------------------------------------------------------------------------------------------

#[derive(Clone, Debug)]
pub struct LockEvent {
    pub t: u64,
    pub actor: usize,
    pub version: u64,
    pub what: &'static str, // "acquired" | "busy" | "released_ok" | "released_fail"
}

#[derive(Debug, Default)]
pub struct LockShared {
    held: Mutex<Option<(usize, u64)>>,
    pub log: Mutex<Vec<LockEvent>>,
}

/// In-process table lock. `lock()` first performs a marker `head` through the actor's store so
/// that the gate scheduler sees (and orders) the attempt; a busy lock is re-tried `spins` times
/// (each retry is again a gated marker call, so a waiting actor is "parked", never blocked
/// invisibly) and then reported as a commit conflict, which Lance retries with backoff.
#[derive(Debug)]
pub struct GateLock {
    pub shared: Arc<LockShared>,
    pub store: Arc<ActorStore>,
    pub spins: u32,
}

pub struct GateLease {
    shared: Arc<LockShared>,
    store: Arc<ActorStore>,
    version: u64,
}

#[async_trait]
impl CommitLock for GateLock {
    type Lease = GateLease;
    async fn lock(&self, version: u64) -> std::result::Result<Self::Lease, CommitError> {
        for _ in 0..=self.spins {
            let _ = self
                .store
                .head(&Path::from(format!("__lock__/{version}")))
                .await;
            if self.store.is_crashed() {
                return Err(CommitError::OtherError(io_err("process dead (lock)")));
            }
            let mut h = self.shared.held.lock().unwrap();
            let t = self.store.world.now();
            if h.is_none() {
                *h = Some((self.store.actor, version));
                self.shared.log.lock().unwrap().push(LockEvent {
                    t,
                    actor: self.store.actor,
                    version,
                    what: "acquired",
                });
                return Ok(GateLease {
                    shared: self.shared.clone(),
                    store: self.store.clone(),
                    version,
                });
            }
            self.shared.log.lock().unwrap().push(LockEvent {
                t,
                actor: self.store.actor,
                version,
                what: "busy",
            });
        }
        Err(CommitError::CommitConflict)
    }
}

#[async_trait]
impl CommitLease for GateLease {
    async fn release(&self, success: bool) -> std::result::Result<(), CommitError> {
        let mut h = self.shared.held.lock().unwrap();
        if *h == Some((self.store.actor, self.version)) {
            *h = None;
        }
        self.shared.log.lock().unwrap().push(LockEvent {
            t: self.store.world.now(),
            actor: self.store.actor,
            version: self.version,
            what: if success { "released_ok" } else { "released_fail" },
        });
        Ok(())
    }
}

// -------------------------------------------------------------------------------------------
// external manifest store mock (gate aware, faultable)
// -------------------------------------------------------------------------------------------

#[derive(Clone, Copy, Debug, PartialEq, Eq, Hash, PartialOrd, Ord)]
pub enum ExtOp {
    Get,
    GetLatest,
    PutIfNotExists,
    PutIfExists,
}

impl ExtOp {
    pub fn name(&self) -> &'static str {
        match self {
            ExtOp::Get => "get",
            ExtOp::GetLatest => "get_latest",
            ExtOp::PutIfNotExists => "put_if_not_exists",
            ExtOp::PutIfExists => "put_if_exists",
        }
    }
}

#[derive(Clone, Debug)]
pub struct ExtEvent {
    /// world clock when the call took effect: store events with `t' < t` happened before
    pub t: u64,
    pub actor: usize,
    pub op: ExtOp,
    pub base: String,
    pub version: u64,
    /// path argument (puts) or returned path (gets)
    pub path: String,
    /// the map was changed
    pub applied: bool,
    /// what the caller saw
    pub ok: bool,
    /// fault injected on this call
    pub fault: Option<Fault>,
}

impl ExtEvent {
    pub fn brief(&self) -> String {
        format!(
            "a{} ext.{} v{} {} -> {}{}",
            self.actor,
            self.op.name(),
            self.version,
            vmon::store::classify_path(&self.path),
            if self.ok { "ok" } else { "err" },
            if self.applied && !self.ok { " (applied)" } else { "" }
        )
    }
}

#[derive(Debug)]
pub struct ExtShared {
    pub map: Mutex<BTreeMap<(String, u64), String>>,
    pub log: Mutex<Vec<ExtEvent>>,
}

impl ExtShared {
    pub fn new() -> Arc<Self> {
        Arc::new(Self {
            map: Mutex::new(BTreeMap::new()),
            log: Mutex::new(vec![]),
        })
    }
    pub fn snapshot(&self) -> BTreeMap<(String, u64), String> {
        self.map.lock().unwrap().clone()
    }
    pub fn events(&self) -> Vec<ExtEvent> {
        self.log.lock().unwrap().clone()
    }
}

/// One-shot fault on the `nth` (1-based) call of kind `op` made by this client.
#[derive(Clone, Debug)]
pub struct ExtFault {
    pub op: ExtOp,
    pub nth: u32,
    pub fault: Fault,
    /// the process dies with this call (every later call of the actor fails)
    pub crash: bool,
}

/// Per-actor client of the shared external store. Every call first performs a marker `head`
/// on `__ext__/<op>/<version>` through the actor's monitored store: the gate scheduler therefore
/// orders external-store calls exactly like object-store calls, and they appear in the released
/// sequence / interleaving hash.
#[derive(Debug)]
pub struct ExtClient {
    pub shared: Arc<ExtShared>,
    pub store: Arc<ActorStore>,
    faults: Mutex<Vec<ExtFault>>,
    counts: Mutex<BTreeMap<ExtOp, u32>>,
    dead: AtomicBool,
    /// when set, `get_latest_version` may return the previous latest entry once (eventually
    /// consistent read); one-shot budget
    stale_latest: Mutex<u32>,
    /// fail (once) the first `get` issued after an injected fault on a put of this client: the
    /// "who owns the version?" question of the commit path cannot be answered either
    fail_get_after_put_fault: AtomicBool,
    put_fault_fired: AtomicBool,
}

impl ExtClient {
    pub fn new(shared: Arc<ExtShared>, store: Arc<ActorStore>) -> Arc<Self> {
        Arc::new(Self {
            shared,
            store,
            faults: Mutex::new(vec![]),
            counts: Mutex::new(BTreeMap::new()),
            dead: AtomicBool::new(false),
            stale_latest: Mutex::new(0),
            fail_get_after_put_fault: AtomicBool::new(false),
            put_fault_fired: AtomicBool::new(false),
        })
    }
    pub fn set_fail_get_after_put_fault(&self, on: bool) {
        self.fail_get_after_put_fault.store(on, Ordering::SeqCst);
    }
    pub fn set_faults(&self, f: Vec<ExtFault>) {
        *self.faults.lock().unwrap() = f;
    }
    pub fn set_stale_latest(&self, n: u32) {
        *self.stale_latest.lock().unwrap() = n;
    }
    pub fn calls(&self, op: ExtOp) -> u32 {
        *self.counts.lock().unwrap().get(&op).unwrap_or(&0)
    }
    pub fn reset_counts(&self) {
        self.counts.lock().unwrap().clear();
    }
    pub fn is_dead(&self) -> bool {
        self.dead.load(Ordering::SeqCst)
    }

    /// gate + liveness + fault decision
    async fn enter(&self, op: ExtOp, version: u64) -> Result<Option<Fault>, lance_core::Error> {
        if self.dead.load(Ordering::SeqCst) || self.store.is_crashed() {
            return Err(io_err("injected fault: crash (process dead)"));
        }
        let _ = self
            .store
            .head(&Path::from(format!("__ext__/{}/{}", op.name(), version)))
            .await;
        if self.dead.load(Ordering::SeqCst) || self.store.is_crashed() {
            return Err(io_err("injected fault: crash (process dead)"));
        }
        let n = {
            let mut c = self.counts.lock().unwrap();
            let e = c.entry(op).or_insert(0);
            *e += 1;
            *e
        };
        if op == ExtOp::Get
            && self.put_fault_fired.load(Ordering::SeqCst)
            && self.fail_get_after_put_fault.swap(false, Ordering::SeqCst)
        {
            return Ok(Some(Fault::FailBefore));
        }
        let mut faults = self.faults.lock().unwrap();
        if let Some(i) = faults.iter().position(|f| f.op == op && f.nth == n) {
            let f = faults.remove(i);
            if matches!(op, ExtOp::PutIfNotExists | ExtOp::PutIfExists) {
                self.put_fault_fired.store(true, Ordering::SeqCst);
            }
            if f.crash {
                self.dead.store(true, Ordering::SeqCst);
                // kill the object-store side of the process too: its next mutating call (and
                // everything after it) fails. Reads in between cannot change the store.
                self.store.set_plan(FaultPlan {
                    crash_at: Some((self.store.mutating_calls() + 1, Fault::FailBefore)),
                    ..Default::default()
                });
            }
            return Ok(Some(f.fault));
        }
        Ok(None)
    }

    fn record(
        &self,
        op: ExtOp,
        base: &str,
        version: u64,
        path: &str,
        applied: bool,
        ok: bool,
        fault: Option<Fault>,
    ) {
        self.shared.log.lock().unwrap().push(ExtEvent {
            t: self.store.world.now(),
            actor: self.store.actor,
            op,
            base: base.to_string(),
            version,
            path: path.to_string(),
            applied,
            ok,
            fault,
        });
    }
}

#[async_trait]
impl ExternalManifestStore for ExtClient {
    async fn get(&self, base_uri: &str, version: u64) -> lance_core::Result<String> {
        let fault = self.enter(ExtOp::Get, version).await?;
        if fault.is_some() {
            self.record(ExtOp::Get, base_uri, version, "", false, false, fault);
            return Err(io_err("injected fault: transient (ext get)"));
        }
        let r = self
            .shared
            .map
            .lock()
            .unwrap()
            .get(&(base_uri.to_string(), version))
            .cloned();
        match r {
            Some(p) => {
                self.record(ExtOp::Get, base_uri, version, &p, false, true, None);
                Ok(p)
            }
            None => {
                self.record(ExtOp::Get, base_uri, version, "", false, false, None);
                Err(not_found_err(base_uri))
            }
        }
    }

    async fn get_latest_version(&self, base_uri: &str) -> lance_core::Result<Option<(u64, String)>> {
        let fault = self.enter(ExtOp::GetLatest, 0).await?;
        if fault.is_some() {
            self.record(ExtOp::GetLatest, base_uri, 0, "", false, false, fault);
            return Err(io_err("injected fault: transient (ext get_latest)"));
        }
        let entries: Vec<(u64, String)> = self
            .shared
            .map
            .lock()
            .unwrap()
            .iter()
            .filter(|((b, _), _)| b == base_uri)
            .map(|((_, v), p)| (*v, p.clone()))
            .collect();
        let mut pick = entries.last().cloned();
        {
            let mut s = self.stale_latest.lock().unwrap();
            if *s > 0 && entries.len() >= 2 {
                *s -= 1;
                pick = entries.get(entries.len() - 2).cloned();
            }
        }
        if let Some((v, p)) = &pick {
            self.record(ExtOp::GetLatest, base_uri, *v, p, false, true, None);
        } else {
            self.record(ExtOp::GetLatest, base_uri, 0, "", false, true, None);
        }
        Ok(pick)
    }

    async fn put_if_not_exists(
        &self,
        base_uri: &str,
        version: u64,
        path: &str,
        _size: u64,
        _e_tag: Option<String>,
    ) -> lance_core::Result<()> {
        let fault = self.enter(ExtOp::PutIfNotExists, version).await?;
        if fault == Some(Fault::FailBefore) {
            self.record(ExtOp::PutIfNotExists, base_uri, version, path, false, false, fault);
            return Err(io_err("injected fault (ext put_if_not_exists, not applied)"));
        }
        let applied = {
            let mut m = self.shared.map.lock().unwrap();
            let k = (base_uri.to_string(), version);
            if m.contains_key(&k) {
                false
            } else {
                m.insert(k, path.to_string());
                true
            }
        };
        let ok = applied && fault.is_none();
        self.record(ExtOp::PutIfNotExists, base_uri, version, path, applied, ok, fault);
        if !applied {
            return Err(io_err("external store: version already exists"));
        }
        if fault.is_some() {
            return Err(io_err("injected fault (ext put_if_not_exists, reply lost)"));
        }
        Ok(())
    }

    async fn put_if_exists(
        &self,
        base_uri: &str,
        version: u64,
        path: &str,
        _size: u64,
        _e_tag: Option<String>,
    ) -> lance_core::Result<()> {
        let fault = self.enter(ExtOp::PutIfExists, version).await?;
        if fault == Some(Fault::FailBefore) {
            self.record(ExtOp::PutIfExists, base_uri, version, path, false, false, fault);
            return Err(io_err("injected fault (ext put_if_exists, not applied)"));
        }
        let applied = {
            let mut m = self.shared.map.lock().unwrap();
            let k = (base_uri.to_string(), version);
            if m.contains_key(&k) {
                m.insert(k, path.to_string());
                true
            } else {
                false
            }
        };
        let ok = applied && fault.is_none();
        self.record(ExtOp::PutIfExists, base_uri, version, path, applied, ok, fault);
        if !applied {
            return Err(io_err("external store: version does not exist"));
        }
        if fault.is_some() {
            return Err(io_err("injected fault (ext put_if_exists, reply lost)"));
        }
        Ok(())
    }
}

// -------------------------------------------------------------------------------------------
// environment = world + external store + lock, restorable
// -------------------------------------------------------------------------------------------

#[derive(Clone)]
pub struct Snap {
    /// memory worlds: object path -> bytes; local worlds: path relative to the env's directory
    pub objs: BTreeMap<String, Bytes>,
    pub ext: BTreeMap<(String, u64), String>,
    pub local: bool,
}

pub struct Env {
    pub kind: HandlerKind,
    pub world: Arc<World>,
    pub ext: Arc<ExtShared>,
    pub lock: Arc<LockShared>,
    pub lock_spins: u32,
    /// Some = the backing store is the local filesystem under this directory (Lance then takes its
    /// local fast paths, e.g. `current_manifest_local`); the table lives at `<dir>/t`
    pub local_dir: Option<Arc<tempfile::TempDir>>,
}

/// One "process".
#[derive(Clone)]
pub struct Proc {
    pub actor: Actor,
    pub ext: Option<Arc<ExtClient>>,
}

impl Env {
    pub fn new(kind: HandlerKind) -> Self {
        Self {
            kind,
            world: World::memory(),
            ext: ExtShared::new(),
            lock: Arc::new(LockShared::default()),
            lock_spins: 0,
            local_dir: None,
        }
    }
    /// Environment whose bucket is a fresh directory under /tmp on the local filesystem.
    pub fn new_local(kind: HandlerKind) -> std::io::Result<Self> {
        let dir = tempfile::Builder::new().prefix("e_crash-fs-").tempdir_in("/tmp")?;
        Ok(Self {
            kind,
            world: World::with_backing(Arc::new(object_store::local::LocalFileSystem::new())),
            ext: ExtShared::new(),
            lock: Arc::new(LockShared::default()),
            lock_spins: 0,
            local_dir: Some(Arc::new(dir)),
        })
    }
    pub fn is_local(&self) -> bool {
        self.local_dir.is_some()
    }
    /// URI of the table of this environment.
    pub fn uri(&self) -> String {
        match &self.local_dir {
            None => "memory://t".to_string(),
            Some(d) => format!("{}/t", d.path().display()),
        }
    }
    /// Object-store path of the table root.
    pub fn base(&self) -> String {
        base_of(&self.uri())
    }
    fn dir_prefix(&self) -> Option<String> {
        self.local_dir
            .as_ref()
            .map(|d| d.path().display().to_string().trim_matches('/').to_string())
    }
    /// Unlogged listing of every object of this environment.
    pub async fn list_paths(&self) -> Vec<String> {
        match self.dir_prefix() {
            None => self.world.list_paths().await,
            Some(prefix) => {
                use futures::TryStreamExt;
                let mut v: Vec<String> = self
                    .world
                    .backing
                    .list(Some(&Path::from(prefix)))
                    .try_collect::<Vec<_>>()
                    .await
                    .unwrap_or_default()
                    .into_iter()
                    .map(|m| m.location.to_string())
                    .collect();
                v.sort();
                v
            }
        }
    }
    pub async fn snapshot(&self) -> Snap {
        match self.dir_prefix() {
            None => Snap {
                objs: self.world.snapshot().await,
                ext: self.ext.snapshot(),
                local: false,
            },
            Some(prefix) => {
                let mut objs = BTreeMap::new();
                for p in self.list_paths().await {
                    if let Some(b) = self.world.read(&p).await {
                        let rel = p
                            .strip_prefix(&prefix)
                            .unwrap_or(&p)
                            .trim_start_matches('/')
                            .to_string();
                        objs.insert(rel, b);
                    }
                }
                Snap {
                    objs,
                    ext: self.ext.snapshot(),
                    local: true,
                }
            }
        }
    }
    pub async fn restore(kind: HandlerKind, snap: &Snap) -> Self {
        if snap.local {
            let env = Self::new_local(kind).expect("tempdir for restore");
            let root = env.local_dir.as_ref().unwrap().path().to_path_buf();
            for (rel, b) in &snap.objs {
                let f = root.join(rel);
                if let Some(parent) = f.parent() {
                    std::fs::create_dir_all(parent).expect("restore mkdir");
                }
                std::fs::write(&f, b).expect("restore write");
            }
            return env;
        }
        let world = World::from_snapshot(&snap.objs).await;
        let ext = ExtShared::new();
        *ext.map.lock().unwrap() = snap.ext.clone();
        Self {
            kind,
            world,
            ext,
            lock: Arc::new(LockShared::default()),
            lock_spins: 0,
            local_dir: None,
        }
    }
    /// A process with its own store handle, session and commit handler of the env's kind.
    pub fn proc(&self, id: usize) -> Proc {
        self.proc_with(id, self.kind)
    }
    /// A process that uses a *different* handler kind on the same storage (e.g. the portable
    /// reader of C10 that knows nothing about the external store).
    pub fn proc_with(&self, id: usize, kind: HandlerKind) -> Proc {
        let store = self.world.new_actor(id);
        let mut ext = None;
        let handler: Arc<dyn CommitHandler> = match kind {
            HandlerKind::CondPut => Arc::new(ConditionalPutCommitHandler),
            HandlerKind::Rename => Arc::new(RenameCommitHandler),
            HandlerKind::Unsafe => Arc::new(UnsafeCommitHandler),
            HandlerKind::Lock => Arc::new(GateLock {
                shared: self.lock.clone(),
                store: store.clone(),
                spins: self.lock_spins,
            }),
            HandlerKind::External => {
                let c = ExtClient::new(self.ext.clone(), store.clone());
                ext = Some(c.clone());
                Arc::new(ExternalManifestCommitHandler {
                    external_manifest_store: c,
                })
            }
        };
        Proc {
            actor: Actor::new(store).with_commit_handler(handler),
            ext,
        }
    }
}

// -------------------------------------------------------------------------------------------
// manifest path parsing
// -------------------------------------------------------------------------------------------

#[derive(Clone, Debug, PartialEq, Eq, PartialOrd, Ord)]
pub enum VersFile {
    /// `_versions/<N>.manifest` (V1) or the 20 digit inverted name (V2)
    Final(u64),
    /// `_versions/d<N>.manifest`
    Detached(u64),
    /// `<final name>-<uuid>`: staging file of the rename / external handlers
    Staging(u64),
    Other,
}

/// Classify an object path; None if it is not under `<base>/_versions/`.
pub fn vers_file(base: &str, path: &str) -> Option<VersFile> {
    let prefix = format!("{base}/_versions/");
    let name = path.strip_prefix(&prefix)?;
    if name.contains('/') {
        return Some(VersFile::Other);
    }
    fn num(stem: &str) -> Option<u64> {
        if stem.is_empty() || !stem.chars().all(|c| c.is_ascii_digit()) {
            return None;
        }
        let x: u64 = stem.parse().ok()?;
        Some(if stem.len() == 20 { u64::MAX - x } else { x })
    }
    if let Some(stem) = name.strip_suffix(".manifest") {
        if let Some(d) = stem.strip_prefix('d') {
            if let Ok(x) = d.parse::<u64>() {
                return Some(VersFile::Detached(x));
            }
        }
        if let Some(v) = num(stem) {
            return Some(VersFile::Final(v));
        }
        return Some(VersFile::Other);
    }
    if let Some(i) = name.find(".manifest-") {
        if let Some(v) = num(&name[..i]) {
            return Some(VersFile::Staging(v));
        }
    }
    Some(VersFile::Other)
}

pub fn final_manifest_version(base: &str, path: &str) -> Option<u64> {
    match vers_file(base, path)? {
        VersFile::Final(v) => Some(v),
        _ => None,
    }
}

/// `memory://name` -> `name`; `/tmp/x/t` -> `tmp/x/t`
pub fn base_of(uri: &str) -> String {
    uri.trim_start_matches("memory://")
        .trim_start_matches("file://")
        .trim_matches('/')
        .to_string()
}

// -------------------------------------------------------------------------------------------
// observation ("what a freshly started process sees")
// -------------------------------------------------------------------------------------------

#[derive(Clone, Debug, PartialEq)]
pub struct VersionObs {
    /// `name:type:nullable` per top-level field
    pub schema: Vec<String>,
    /// rows by primary key; normally one row per id (a multiset so that a duplicated key, which
    /// is not this engine's business, does not make the table "unreadable")
    pub rows: BTreeMap<i64, Vec<Row>>,
    pub config: BTreeMap<String, String>,
    /// `name|field ids|fragment bitmap` per index segment, sorted
    pub indices: Vec<String>,
    pub fragments: usize,
    pub deleted_rows: usize,
}

impl VersionObs {
    pub fn n_rows(&self) -> usize {
        self.rows.values().map(|v| v.len()).sum()
    }
    pub fn duplicate_ids(&self) -> usize {
        self.rows.values().filter(|v| v.len() > 1).count()
    }
    pub fn digest(&self) -> u64 {
        let mut s = String::new();
        s.push_str(&self.schema.join(","));
        for (k, rs) in &self.rows {
            for r in rs {
                s.push_str(&format!("\n{k}:{}", vmon::table::render_row(r)));
            }
        }
        s.push_str(&format!("\n{:?}\n{:?}", self.config, self.indices));
        vmon::prng::fnv(s.as_bytes())
    }
}

#[derive(Clone, Debug, PartialEq)]
pub enum Obs {
    /// no table at this location
    Absent,
    Table {
        /// `versions()` numbers
        versions: Vec<u64>,
        /// `latest_version_id()`
        latest_id: u64,
        /// version of a plain open
        opened: u64,
        per_version: BTreeMap<u64, VersionObs>,
        /// final manifest names in the raw listing of `_versions/`
        raw_final: Vec<u64>,
    },
}

impl Obs {
    pub fn latest(&self) -> Option<u64> {
        match self {
            Obs::Absent => None,
            Obs::Table { opened, .. } => Some(*opened),
        }
    }
    pub fn latest_obs(&self) -> Option<&VersionObs> {
        match self {
            Obs::Absent => None,
            Obs::Table {
                opened, per_version, ..
            } => per_version.get(opened),
        }
    }
    pub fn brief(&self) -> serde_json::Value {
        match self {
            Obs::Absent => serde_json::json!("absent"),
            Obs::Table {
                versions,
                latest_id,
                opened,
                per_version,
                raw_final,
            } => serde_json::json!({
                "versions": versions, "latest_id": latest_id, "opened": opened, "raw_final": raw_final,
                "per_version": per_version.iter().map(|(v, o)| serde_json::json!({
                    "v": v, "rows": o.n_rows(), "duplicate_ids": o.duplicate_ids(), "schema": o.schema, "config": o.config,
                    "indices": o.indices, "fragments": o.fragments, "deleted_rows": o.deleted_rows,
                    "digest": format!("{:016x}", o.digest()),
                })).collect::<Vec<_>>(),
            }),
        }
    }
    /// First difference between two observations, human readable.
    pub fn diff(&self, other: &Obs) -> String {
        match (self, other) {
            (Obs::Absent, Obs::Absent) => "equal".into(),
            (Obs::Absent, _) => "observed: absent, expected: a table".into(),
            (_, Obs::Absent) => "observed: a table, expected: absent".into(),
            (
                Obs::Table {
                    versions: v1,
                    latest_id: l1,
                    opened: o1,
                    per_version: p1,
                    raw_final: r1,
                },
                Obs::Table {
                    versions: v2,
                    latest_id: l2,
                    opened: o2,
                    per_version: p2,
                    raw_final: r2,
                },
            ) => {
                if v1 != v2 {
                    return format!("versions() {v1:?} vs {v2:?}");
                }
                if l1 != l2 {
                    return format!("latest_version_id {l1} vs {l2}");
                }
                if o1 != o2 {
                    return format!("opened version {o1} vs {o2}");
                }
                if r1 != r2 {
                    return format!("raw final manifests {r1:?} vs {r2:?}");
                }
                for (v, a) in p1 {
                    let Some(b) = p2.get(v) else {
                        return format!("version {v} content missing on the other side");
                    };
                    if a.schema != b.schema {
                        return format!("v{v} schema {:?} vs {:?}", a.schema, b.schema);
                    }
                    if a.config != b.config {
                        return format!("v{v} config {:?} vs {:?}", a.config, b.config);
                    }
                    if a.indices != b.indices {
                        return format!("v{v} indices {:?} vs {:?}", a.indices, b.indices);
                    }
                    if a.rows != b.rows {
                        let ka: BTreeSet<_> = a.rows.keys().collect();
                        let kb: BTreeSet<_> = b.rows.keys().collect();
                        let only_a: Vec<_> = ka.difference(&kb).take(5).collect();
                        let only_b: Vec<_> = kb.difference(&ka).take(5).collect();
                        let changed: Vec<_> = a
                            .rows
                            .iter()
                            .filter(|(k, r)| b.rows.get(k).map(|x| x != *r).unwrap_or(false))
                            .map(|(k, _)| *k)
                            .take(5)
                            .collect();
                        return format!(
                            "v{v} rows differ: {} vs {} rows; only-observed ids {only_a:?}, only-expected ids {only_b:?}, changed ids {changed:?}",
                            a.n_rows(),
                            b.n_rows()
                        );
                    }
                    if a.fragments != b.fragments || a.deleted_rows != b.deleted_rows {
                        return format!(
                            "v{v} physical layout: {} frags/{} deleted vs {} frags/{} deleted",
                            a.fragments, a.deleted_rows, b.fragments, b.deleted_rows
                        );
                    }
                }
                if p1.len() != p2.len() {
                    return format!("per-version count {} vs {}", p1.len(), p2.len());
                }
                "equal".into()
            }
        }
    }
}

/// Object paths a manifest refers to (data files, deletion files, transaction file) and index
/// directories (prefixes).
#[derive(Clone, Debug, Default)]
pub struct Refs {
    pub files: Vec<String>,
    pub index_prefixes: Vec<String>,
}

pub async fn manifest_refs(ds: &Dataset, base: &str) -> Result<Refs, String> {
    let m = ds.manifest();
    let mut out = Refs::default();
    let base_path = Path::from(base);
    for f in m.fragments.iter() {
        for df in &f.files {
            if df.base_id.is_none() {
                out.files.push(format!("{base}/data/{}", df.path));
            }
        }
        if let Some(d) = &f.deletion_file {
            if d.base_id.is_none() {
                out.files.push(
                    lance_table::io::deletion::deletion_file_path(&base_path, f.id, d).to_string(),
                );
            }
        }
    }
    if let Some(t) = &m.transaction_file {
        if !t.is_empty() {
            out.files.push(format!("{base}/_transactions/{t}"));
        }
    }
    let idx = ds.load_indices().await.map_err(|e| format!("load_indices: {e}"))?;
    for i in idx.iter() {
        if i.base_id.is_none() {
            out.index_prefixes.push(format!("{base}/_indices/{}/", i.uuid));
        }
    }
    Ok(out)
}

pub async fn version_obs(ds: &Dataset) -> Result<VersionObs, String> {
    let arrow: arrow_schema::Schema = ds.schema().into();
    let schema: Vec<String> = arrow
        .fields()
        .iter()
        .map(|f| format!("{}:{}:{}", f.name(), f.data_type(), f.is_nullable()))
        .collect();
    let (names, rows) = scan_rows(ds, &ScanOpts::default())
        .await
        .map_err(|e| format!("scan failed: {e}"))?;
    let mut keyed: BTreeMap<i64, Vec<Row>> = BTreeMap::new();
    if !rows.is_empty() {
        let k = names
            .iter()
            .position(|n| n == "id")
            .ok_or_else(|| "scan output has no id column".to_string())?;
        for r in rows {
            let id = r[k].as_i64().ok_or_else(|| "null id in scan".to_string())?;
            keyed.entry(id).or_default().push(r);
        }
        for v in keyed.values_mut() {
            if v.len() > 1 {
                v.sort_by_key(|r| vmon::table::render_row(r));
            }
        }
    }
    let rows = keyed;
    let config: BTreeMap<String, String> =
        ds.config().iter().map(|(k, v)| (k.clone(), v.clone())).collect();
    let idx = ds.load_indices().await.map_err(|e| format!("load_indices: {e}"))?;
    let mut indices: Vec<String> = idx
        .iter()
        .map(|i| {
            format!(
                "{}|{:?}|{:?}",
                i.name,
                i.fields,
                i.fragment_bitmap
                    .as_ref()
                    .map(|b| b.iter().collect::<Vec<u32>>())
            )
        })
        .collect();
    indices.sort();
    let m = ds.manifest();
    let deleted_rows = m
        .fragments
        .iter()
        .map(|f| {
            f.deletion_file
                .as_ref()
                .and_then(|d| d.num_deleted_rows)
                .unwrap_or(0)
        })
        .sum();
    Ok(VersionObs {
        schema,
        rows,
        config,
        indices,
        fragments: m.fragments.len(),
        deleted_rows,
    })
}

pub struct ObsExtra {
    /// `validate()` of the latest version
    pub validate: Result<(), String>,
    /// references of the latest manifest
    pub refs: Refs,
    pub detached: Vec<u64>,
    pub staging: Vec<u64>,
    pub other_version_files: Vec<String>,
}

/// What a freshly started process (`p` must have a fresh session and a clean store handle) sees.
/// `Err` = the table exists but cannot be read back (that is a finding for the caller to judge).
pub async fn observe(p: &Proc, env: &Env) -> Result<(Obs, Option<ObsExtra>), String> {
    let uri_s = env.uri();
    let uri = uri_s.as_str();
    let base = base_of(uri);
    let mut raw_final = vec![];
    let mut detached = vec![];
    let mut staging = vec![];
    let mut other = vec![];
    let scan_listing = |paths: &[String],
                        raw_final: &mut Vec<u64>,
                        detached: &mut Vec<u64>,
                        staging: &mut Vec<u64>,
                        other: &mut Vec<String>| {
        raw_final.clear();
        detached.clear();
        staging.clear();
        other.clear();
        for path in paths {
            match vers_file(&base, path) {
                Some(VersFile::Final(v)) => raw_final.push(v),
                Some(VersFile::Detached(v)) => detached.push(v),
                Some(VersFile::Staging(v)) => staging.push(v),
                Some(VersFile::Other) => other.push(path.clone()),
                None => {}
            }
        }
        raw_final.sort();
    };
    let paths = env.list_paths().await;
    scan_listing(&paths, &mut raw_final, &mut detached, &mut staging, &mut other);
    let ds = match p.actor.open(uri).await {
        Ok(ds) => ds,
        Err(e) => {
            let absent = matches!(
                e,
                lance::Error::DatasetNotFound { .. } | lance::Error::NotFound { .. }
            );
            let ext_has = p
                .ext
                .as_ref()
                .map(|c| c.shared.map.lock().unwrap().keys().any(|(b, _)| *b == base))
                .unwrap_or(false);
            if absent && raw_final.is_empty() && !ext_has {
                return Ok((Obs::Absent, None));
            }
            return Err(format!(
                "open failed although manifests exist (raw_final={raw_final:?}, ext_has={ext_has}): {e}"
            ));
        }
    };
    let opened = ds.manifest().version;
    let latest_id = ds
        .latest_version_id()
        .await
        .map_err(|e| format!("latest_version_id failed: {e}"))?;
    let versions: Vec<u64> = ds
        .versions()
        .await
        .map_err(|e| format!("versions() failed: {e}"))?
        .into_iter()
        .map(|v| v.version)
        .collect();
    let mut per_version = BTreeMap::new();
    for v in &versions {
        let dv = if *v == opened {
            ds.clone()
        } else {
            p.actor
                .open_version(uri, *v)
                .await
                .map_err(|e| format!("open version {v} failed: {e}"))?
        };
        if dv.manifest().version != *v {
            return Err(format!(
                "checkout of version {v} returned a manifest with version {}",
                dv.manifest().version
            ));
        }
        per_version.insert(*v, version_obs(&dv).await.map_err(|e| format!("v{v}: {e}"))?);
    }
    if !per_version.contains_key(&opened) {
        per_version.insert(opened, version_obs(&ds).await?);
    }
    let validate = ds.validate().await.map_err(|e| e.to_string());
    let refs = manifest_refs(&ds, &base).await?;
    // listing again: an external-store reader may have finalised a version while opening
    let paths = env.list_paths().await;
    scan_listing(&paths, &mut raw_final, &mut detached, &mut staging, &mut other);
    Ok((
        Obs::Table {
            versions,
            latest_id,
            opened,
            per_version,
            raw_final,
        },
        Some(ObsExtra {
            validate,
            refs,
            detached,
            staging,
            other_version_files: other,
        }),
    ))
}

/// Outcome of a panic/timeout-guarded observation.
pub enum Seen {
    Ok(Obs, Option<ObsExtra>),
    /// the table exists but an API call returned Err
    Unreadable(String),
    /// Lance panicked while a fresh reader looked at the table; `sig` is a narrow class
    Panic { msg: String, sig: String },
    Timeout,
}

pub const SIG_DETACHED_PANIC: &str = "reader-panics-resolving-latest-when-d-prefixed-file-is-listed-v2";

pub async fn observe_guarded(p: &Proc, env: &Env) -> Seen {
    let uri_s = env.uri();
    let uri = uri_s.as_str();
    match guarded(observe(p, env), 60).await {
        Ok(Ok((o, x))) => Seen::Ok(o, x),
        Ok(Err(e)) => Seen::Unreadable(e),
        Err(GuardFail::Timeout) => Seen::Timeout,
        Err(GuardFail::Panic(msg)) => {
            // classify: V2-named manifests + a detached manifest in the listing + unwrap on None
            let base = base_of(uri);
            let paths = env.list_paths().await;
            let mut detached = false;
            let mut v2 = false;
            let vdir = format!("{base}/_versions/d");
            for path in &paths {
                // any object `_versions/d*` (a detached manifest or the staging file of one)
                if path.starts_with(&vdir) {
                    detached = true;
                }
                match vers_file(&base, path) {
                    Some(VersFile::Final(_)) => {
                        let name = path.rsplit('/').next().unwrap_or("");
                        if name.len() == 20 + ".manifest".len() {
                            v2 = true;
                        }
                    }
                    _ => {}
                }
            }
            let sig = if detached && v2 && msg.contains("Option::unwrap()") {
                SIG_DETACHED_PANIC.to_string()
            } else {
                "reader-panicked-other".to_string()
            };
            Seen::Panic { msg, sig }
        }
    }
}

/// Check that every object referenced by `refs` exists in `paths` (sorted listing).
pub fn missing_refs(refs: &Refs, paths: &[String]) -> Vec<String> {
    let set: BTreeSet<&str> = paths.iter().map(|s| s.as_str()).collect();
    let mut missing = vec![];
    for f in &refs.files {
        if !set.contains(f.as_str()) {
            missing.push(f.clone());
        }
    }
    for p in &refs.index_prefixes {
        if !paths.iter().any(|x| x.starts_with(p.as_str())) {
            missing.push(p.clone());
        }
    }
    missing
}

/// Catch panics of a future (Lance panics must not take the harness down).
pub async fn guarded<T>(
    fut: impl std::future::Future<Output = T>,
    secs: u64,
) -> Result<T, GuardFail> {
    use futures::FutureExt;
    match tokio::time::timeout(
        std::time::Duration::from_secs(secs),
        std::panic::AssertUnwindSafe(fut).catch_unwind(),
    )
    .await
    {
        Err(_) => Err(GuardFail::Timeout),
        Ok(Err(p)) => {
            let msg = if let Some(s) = p.downcast_ref::<&str>() {
                s.to_string()
            } else if let Some(s) = p.downcast_ref::<String>() {
                s.clone()
            } else {
                "panic".to_string()
            };
            Err(GuardFail::Panic(msg))
        }
        Ok(Ok(v)) => Ok(v),
    }
}

#[derive(Debug, Clone)]
pub enum GuardFail {
    Timeout,
    Panic(String),
}

/// Worker-thread count of a check: env `VERIF_THREADS` (default 16).
pub fn worker_threads() -> usize {
    std::env::var("VERIF_THREADS")
        .ok()
        .and_then(|s| s.trim().parse::<usize>().ok())
        .filter(|n| *n >= 1)
        .unwrap_or(16)
}

/// Run `f(thread_index)` on `n` threads, each with its own current-thread tokio runtime.
pub fn run_threads<'a, F>(n: usize, f: F)
where
    F: Fn(usize) -> std::pin::Pin<Box<dyn std::future::Future<Output = ()> + 'a>> + Sync,
{
    std::thread::scope(|s| {
        for i in 0..n {
            let f = &f;
            s.spawn(move || {
                let rt = tokio::runtime::Builder::new_current_thread()
                    .enable_all()
                    .build()
                    .expect("runtime");
                rt.block_on(f(i));
            });
        }
    });
}
