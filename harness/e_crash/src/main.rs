//! Engine binary `e_crash`: one module per property. See /verif/DESIGN.md.
use vmon::report::parse_args;

mod c01;
mod c02;
mod c10;
mod common;
mod ops;

fn main() {
    let args = parse_args();
    let code = match args.prop.as_str() {
        "C01" => c01::run(&args),
        "C02" => c02::run(&args),
        "C10" => c10::run(&args),
        other => {
            eprintln!("HARNESS-ERROR e_crash does not serve property '{other}'");
            2
        }
    };
    std::process::exit(code);
}
