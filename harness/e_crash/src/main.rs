//! Engine binary `e_crash`: one module per property. See /verif/DESIGN.md.
use vmon::report::parse_args;

mod c01;
mod c02;
mod c10;
mod common;
mod ops;

fn main() {
    let args = parse_args();
    // Panics inside Lance are caught (catch_unwind) and judged by the checks; keep stderr readable.
    if !args.extra.contains_key("verbose") {
        std::panic::set_hook(Box::new(|info| {
            let loc = info.location().map(|l| format!("{}:{}", l.file(), l.line())).unwrap_or_default();
            if !loc.contains("/repo/") {
                eprintln!("harness panic at {loc}: {info}");
            }
        }));
    }
    let code = match args.prop.as_str() {
        "C01" => c01::run(&args),
        "C02" => c02::run(&args),
        "C10" => c10::run(&args),
        other => {
            eprintln!("HARNESS-ERROR e_crash does not serve property '{other}'");
            2
        }
    };
    std::process::exit(code);
}
