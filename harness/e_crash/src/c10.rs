//! C10 — external manifest store protocol: versions unique, durable, portable.
//!
//! Two legs over `ExternalManifestCommitHandler` + a linearizable mock `ExternalManifestStore`
//! whose calls are gated and faultable like storage calls:
//!
//! * E-CRASH leg (fault enumeration): one writer, one commit; the commit is re-run from the
//!   restored pre-state once per fault point: every mutating storage call (this covers the three
//!   object-store steps of the protocol: stage manifest, copy to final, delete staging) and every
//!   external-store write (put_if_not_exists, put_if_exists) × {fail-before, lost-reply} ×
//!   {the writer dies with the call, the writer survives and runs its error handling}.
//! * E-CONC leg: two writers + a reader race under the gate scheduler with faults drawn from the
//!   same menu (+ one stale `get_latest_version`).
//!
//! After every run the same quiescence oracle is applied: two fresh readers using the external
//! store (reader-side repair) and a *portable* reader that knows nothing about the external store.

use serde_json::json;
use std::collections::{BTreeMap, BTreeSet};
use std::sync::atomic::{AtomicU64, Ordering};
use std::sync::Mutex;
use vmon::prng::{fnv, Rng};
use vmon::report::{Args, Report};
use vmon::store::{classify_path, Fault, FaultPlan, Kind};
use vmon::table::{ColTy, IdAlloc, TableSpec};

use crate::c02::{self, ClientResult, ReaderSample, Verdict};
use crate::common::*;
use crate::ops::{self, Op};

const URI: &str = "memory://t";
const BASE: &str = "t";
pub const SIG_DANGLING: &str = "lost-reply-put_if_not_exists-dangling-staging";

#[derive(Default)]
pub struct QStats {
    pub versions_checked: u64,
    pub portable_versions_checked: u64,
    pub repaired_by_reader: u64,
}

/// External-store entries that point at a staging object which no longer exists.
/// Returns (version, path, narrow signature).
async fn dangling_entries(env: &Env) -> Vec<(u64, String, String)> {
    let paths: BTreeSet<String> = env.world.list_paths().await.into_iter().collect();
    let map = env.ext.snapshot();
    let xev = env.ext.events();
    let ev = env.world.events();
    let mut out = vec![];
    for ((b, v), p) in &map {
        if b != BASE || paths.contains(p) {
            continue;
        }
        if !matches!(vers_file(BASE, p), Some(VersFile::Staging(_))) {
            // a final path that does not exist is a different (worse) class
            out.push((*v, p.clone(), "external-entry-points-at-missing-final-manifest".to_string()));
            continue;
        }
        // narrow class: this entry was written by a put_if_not_exists whose reply was lost and the
        // same writer then deleted the staging object in its error handling
        let lost = xev.iter().find(|x| {
            x.op == ExtOp::PutIfNotExists
                && x.version == *v
                && x.path == *p
                && x.applied
                && !x.ok
                && x.fault == Some(Fault::LostReply)
        });
        let sig = match lost {
            Some(x) => {
                let deleted_by_writer = ev
                    .iter()
                    .any(|e| e.kind == Kind::Delete && e.applied && e.path == *p && e.actor == x.actor && e.t >= x.t);
                if deleted_by_writer {
                    SIG_DANGLING.to_string()
                } else {
                    "dangling-staging-after-lost-reply-not-deleted-by-writer".to_string()
                }
            }
            None => "dangling-staging-entry-other".to_string(),
        };
        out.push((*v, p.clone(), sig));
    }
    out
}

struct ReaderView {
    latest: u64,
    /// version -> (content digest, manifest content hash)
    per_version: BTreeMap<u64, (u64, Option<u64>)>,
}

async fn reader_pass(env: &Env, p: &Proc, versions: &BTreeSet<u64>) -> Result<ReaderView, String> {
    let ds = match guarded(p.actor.open(URI), 60).await {
        Ok(Ok(ds)) => ds,
        Ok(Err(e)) => return Err(format!("open latest: {e}")),
        Err(g) => return Err(format!("open latest: {g:?}")),
    };
    let latest = ds.manifest().version;
    let mut per_version = BTreeMap::new();
    for v in versions {
        let dv = match guarded(p.actor.open_version(URI, *v), 60).await {
            Ok(Ok(d)) => d,
            Ok(Err(e)) => return Err(format!("open version {v}: {e}")),
            Err(g) => return Err(format!("open version {v}: {g:?}")),
        };
        if dv.manifest().version != *v {
            return Err(format!("open version {v} returned manifest version {}", dv.manifest().version));
        }
        let mh = env.world.hash_of(dv.manifest_location().path.as_ref()).await;
        let o = version_obs(&dv).await.map_err(|e| format!("scan v{v}: {e}"))?;
        per_version.insert(*v, (o.digest(), mh));
    }
    Ok(ReaderView { latest, per_version })
}

/// The C10 oracle at quiescence.
pub async fn quiescence_check(
    env: &Env,
    clients: &[ClientResult],
    samples: &[ReaderSample],
    stats: &mut QStats,
) -> Vec<Verdict> {
    let mut out = vec![];
    // 0. dangling pointers first: everything else is a consequence of them
    let dang = dangling_entries(env).await;
    if !dang.is_empty() {
        for (v, p, sig) in dang {
            out.push(Verdict {
                sig,
                what: format!(
                    "external store maps version {v} to {} but that object does not exist: the version is unresolvable",
                    classify_path(&p)
                ),
            });
        }
        return out;
    }
    // versions committed according to the protocol (entry in the external store) or finalised
    let committed: BTreeSet<u64> = env
        .ext
        .snapshot()
        .keys()
        .filter(|(b, _)| b == BASE)
        .map(|(_, v)| *v)
        .collect();
    let staged_before: usize = env
        .ext
        .snapshot()
        .values()
        .filter(|p| matches!(vers_file(BASE, p), Some(VersFile::Staging(_))))
        .count();
    stats.repaired_by_reader += staged_before as u64;
    let mut raw_final: BTreeSet<u64> = BTreeSet::new();
    for p in env.world.list_paths().await {
        if let Some(v) = final_manifest_version(BASE, &p) {
            raw_final.insert(v);
        }
    }
    let all: BTreeSet<u64> = committed.union(&raw_final).copied().collect();
    if all.is_empty() {
        // no version was ever committed (e.g. a failed create): there is no table to check
        return out;
    }
    // 1. two independent readers that use the external store (the first one repairs)
    let r1 = match reader_pass(env, &env.proc(80), &all).await {
        Ok(r) => r,
        Err(e) => {
            out.push(Verdict {
                sig: "committed-version-unresolvable".into(),
                what: format!("reader with the external store, first pass: {e}"),
            });
            return out;
        }
    };
    let r2 = match reader_pass(env, &env.proc(81), &all).await {
        Ok(r) => r,
        Err(e) => {
            out.push(Verdict {
                sig: "committed-version-unresolvable".into(),
                what: format!("reader with the external store, second pass: {e}"),
            });
            return out;
        }
    };
    stats.versions_checked += all.len() as u64;
    if r1.latest != r2.latest {
        out.push(Verdict {
            sig: "latest-differs-between-readers-at-quiescence".into(),
            what: format!("{} vs {}", r1.latest, r2.latest),
        });
    }
    if let Some(max) = all.iter().next_back() {
        if r1.latest != *max {
            out.push(Verdict {
                sig: "latest-is-not-the-highest-committed-version".into(),
                what: format!("latest {} but highest committed/finalised version is {max}", r1.latest),
            });
        }
    }
    for v in &all {
        if r1.per_version.get(v) != r2.per_version.get(v) {
            out.push(Verdict {
                sig: "version-content-differs-between-readers".into(),
                what: format!("v{v}: {:?} vs {:?}", r1.per_version.get(v), r2.per_version.get(v)),
            });
        }
    }
    // 2. after the reader pass every version is finalised with the committed content
    let map = env.ext.snapshot();
    let ev = env.world.events();
    let xev = env.ext.events();
    let paths: BTreeSet<String> = env.world.list_paths().await.into_iter().collect();
    for ((b, v), p) in &map {
        if b != BASE {
            continue;
        }
        if final_manifest_version(BASE, p) != Some(*v) {
            out.push(Verdict {
                sig: "not-finalised-after-reader-pass".into(),
                what: format!("external entry of v{v} still points at {}", classify_path(p)),
            });
            continue;
        }
        if !paths.contains(p) {
            out.push(Verdict {
                sig: "external-entry-points-at-missing-final-manifest".into(),
                what: format!("v{v} -> {p}"),
            });
            continue;
        }
        // committed content = the staged object that won put_if_not_exists
        if let Some(w) = xev
            .iter()
            .find(|x| x.op == ExtOp::PutIfNotExists && x.applied && x.version == *v && x.base == BASE)
        {
            let staged = ev
                .iter()
                .filter(|e| e.applied && e.kind.is_mutating() && e.kind != Kind::Delete && e.dest() == w.path)
                .filter_map(|e| e.hash)
                .next_back();
            let fin = env.world.hash_of(p).await;
            if let (Some(s), Some(f)) = (staged, fin) {
                if s != f {
                    out.push(Verdict {
                        sig: "final-manifest-differs-from-committed-content".into(),
                        what: format!("v{v}: staged winner {s:016x}, final {f:016x}"),
                    });
                }
            }
        }
    }
    // 3. portable reader (no external store): same latest, same content for every finalised version
    let mut raw_final: BTreeSet<u64> = BTreeSet::new();
    for p in &paths {
        if let Some(v) = final_manifest_version(BASE, p) {
            raw_final.insert(v);
        }
    }
    for v in &all {
        if !raw_final.contains(v) {
            out.push(Verdict {
                sig: "final-manifest-missing-after-reader-pass".into(),
                what: format!("v{v} is committed but _versions/{v}.manifest does not exist after a reader pass"),
            });
        }
    }
    match reader_pass(env, &env.proc_with(82, HandlerKind::CondPut), &raw_final).await {
        Err(e) => out.push(Verdict {
            sig: "portable-reader-cannot-read".into(),
            what: e,
        }),
        Ok(pr) => {
            stats.portable_versions_checked += raw_final.len() as u64;
            if pr.latest != r1.latest {
                out.push(Verdict {
                    sig: "portable-reader-sees-different-latest".into(),
                    what: format!("portable {} vs external-store reader {}", pr.latest, r1.latest),
                });
            }
            for v in &raw_final {
                if pr.per_version.get(v) != r1.per_version.get(v) {
                    out.push(Verdict {
                        sig: "portable-reader-sees-different-content".into(),
                        what: format!("v{v}: portable {:?} vs external-store reader {:?}", pr.per_version.get(v), r1.per_version.get(v)),
                    });
                }
            }
        }
    }
    // 4. a commit that returned Ok stays resolvable with the same content
    for c in clients {
        if let Ok(v) = &c.result {
            match r1.per_version.get(v) {
                None => out.push(Verdict {
                    sig: "ok-commit-lost".into(),
                    what: format!("a{} got Ok for v{v}, which no reader can resolve", c.actor),
                }),
                Some((d, _)) => {
                    if let Some(cd) = c.digest {
                        if cd != *d {
                            out.push(Verdict {
                                sig: "ok-commit-content-changed".into(),
                                what: format!("a{} got Ok for v{v} with digest {cd:016x}; readers see {d:016x}", c.actor),
                            });
                        }
                    }
                }
            }
        }
    }
    // 5. what readers saw during the run equals what is there at quiescence
    for s in samples {
        if let Some((d, mh)) = r1.per_version.get(&s.version) {
            if *d != s.ids_digest || (s.manifest_hash.is_some() && mh.is_some() && s.manifest_hash != *mh) {
                out.push(Verdict {
                    sig: "version-content-changed-between-observations".into(),
                    what: format!("v{}: digest/hash seen during the run differs from quiescence", s.version),
                });
            }
        } else {
            out.push(Verdict {
                sig: "version-seen-by-reader-later-unresolvable".into(),
                what: format!("v{} was opened by the reader during the run", s.version),
            });
        }
    }
    // 6. slot uniqueness / immutability over the complete logs (C02 monitor)
    let mut fh = BTreeMap::new();
    for p in &paths {
        if let Some(v) = final_manifest_version(BASE, p) {
            if let Some(h) = env.world.hash_of(p).await {
                fh.insert(v, h);
            }
        }
    }
    // client Ok bookkeeping of the C02 monitor needs the whole log (setup included), which we have
    let (v2, _) = c02::monitor(HandlerKind::External, &ev, &xev, clients, &fh);
    out.extend(v2);
    out
}

// -------------------------------------------------------------------------------------------
// E-CRASH leg
// -------------------------------------------------------------------------------------------

#[derive(Clone, Debug)]
enum FaultPoint {
    Store { k: u64, fault: Fault, crash: bool },
    Ext { op: ExtOp, nth: u32, fault: Fault, crash: bool },
    /// put_if_not_exists fails (either way) and the writer's follow-up `get` ("who owns the
    /// version?") fails as well; the writer survives
    PutThenGetFails { nth: u32, fault: Fault },
}

impl FaultPoint {
    fn name(&self) -> String {
        match self {
            FaultPoint::Store { fault, crash, .. } | FaultPoint::Ext { fault, crash, .. } => format!(
                "{}/{}",
                match fault {
                    Fault::FailBefore => "fail_before",
                    Fault::LostReply => "lost_reply",
                },
                if *crash { "crash" } else { "transient" }
            ),
            FaultPoint::PutThenGetFails { fault, .. } => format!(
                "{}/transient+get_fails",
                match fault {
                    Fault::FailBefore => "fail_before",
                    Fault::LostReply => "lost_reply",
                }
            ),
        }
    }
}

/// protocol step of a mutating storage call of the dry run
fn step_of(label_path: &str, kind: Kind, to: Option<&str>) -> &'static str {
    let dest = to.unwrap_or(label_path);
    match (kind, vers_file(BASE, label_path), vers_file(BASE, dest)) {
        (Kind::Delete, Some(VersFile::Staging(_)), _) => "5-delete-staging",
        (Kind::Copy, _, Some(VersFile::Final(_))) => "3-copy-to-final",
        (_, Some(VersFile::Staging(_)), _) => "1-stage-manifest",
        _ => "0-data-or-transaction-file",
    }
}

async fn crash_scenario(report: &Report, seed: u64, idx: u64, matrix: &Mutex<BTreeMap<String, u64>>) {
    let mut rng = Rng::for_case(seed, idx ^ 0xC10);
    let env = Env::new(HandlerKind::External);
    let mut ids = IdAlloc::new(0);
    let spec = TableSpec::simple(&[("v", ColTy::I32, true), ("s", ColTy::Utf8, true)]);
    let w = env.proc(1);
    let create_final = rng.chance(1, 8);
    let mut history = vec![];
    if !create_final {
        let n0 = rng.urange(6, 30);
        let create = Op::Create {
            batch: spec.batch(&mut rng, &ids.take(n0)),
            v2: rng.chance(1, 3),
            stable_row_ids: rng.chance(1, 3),
            max_rows_per_file: *rng.pick(&[7usize, 1000]),
        };
        if let Err(e) = ops::apply(&create, &w.actor, URI).await {
            report.harness_error(&format!("C10 setup create: {e}"));
            return;
        }
        history.push(create.describe());
        for _ in 0..rng.below(3) {
            let n = rng.urange(1, 6);
            let op = Op::Append {
                batch: spec.batch(&mut rng, &ids.take(n)),
                max_rows_per_file: 1000,
            };
            if let Err(e) = ops::apply(&op, &env.proc(1).actor, URI).await {
                report.harness_error(&format!("C10 setup append: {e}"));
                return;
            }
            history.push(op.describe());
        }
    }
    let final_op = if create_final {
        Op::Create {
            batch: spec.batch(&mut rng, &ids.take(8)),
            v2: rng.chance(1, 3),
            stable_row_ids: false,
            max_rows_per_file: 1000,
        }
    } else {
        match rng.below(4) {
            0 => Op::Delete { pred: format!("id % 3 = {}", rng.below(3)) },
            1 => Op::UpdateConfig { key: "k".into(), value: Some(format!("{}", rng.below(100))) },
            2 => Op::Update { pred: Some("id % 2 = 0".into()), col: "v".into(), expr: "7".into() },
            _ => {
                let n = rng.urange(1, 6);
                Op::Append { batch: spec.batch(&mut rng, &ids.take(n)), max_rows_per_file: 1000 }
            }
        }
    };
    let snap = env.snapshot().await;
    // dry run: count the calls, label the steps
    let env_d = Env::restore(HandlerKind::External, &snap).await;
    let wd = env_d.proc(1);
    wd.actor.store.reset_counters();
    match guarded(ops::apply(&final_op, &wd.actor, URI), 60).await {
        Ok(Ok(())) => {}
        Ok(Err(e)) => {
            report.rejected();
            report.count("dry_run_rejected", 1);
            let _ = e;
            return;
        }
        Err(g) => {
            report.inconclusive(&format!("C10 case {idx}: dry run {g:?}"));
            return;
        }
    }
    let m = wd.actor.store.mutating_calls();
    let dry = env_d.world.events();
    let extc = wd.ext.as_ref().unwrap();
    let mut points: Vec<(FaultPoint, String)> = vec![];
    for k in 1..=m {
        let step = dry
            .iter()
            .find(|e| e.actor == 1 && e.mut_index == Some(k))
            .map(|e| step_of(&e.path, e.kind, e.to.as_deref()))
            .unwrap_or("?");
        for fault in [Fault::FailBefore, Fault::LostReply] {
            for crash in [true, false] {
                points.push((FaultPoint::Store { k, fault, crash }, step.to_string()));
            }
        }
    }
    for (op, step) in [(ExtOp::PutIfNotExists, "2-put_if_not_exists"), (ExtOp::PutIfExists, "4-put_if_exists")] {
        for nth in 1..=extc.calls(op) {
            for fault in [Fault::FailBefore, Fault::LostReply] {
                for crash in [true, false] {
                    points.push((FaultPoint::Ext { op, nth, fault, crash }, step.to_string()));
                }
                if op == ExtOp::PutIfNotExists {
                    points.push((FaultPoint::PutThenGetFails { nth, fault }, step.to_string()));
                }
            }
        }
    }
    {
        let mut stats = QStats::default();
        let v = quiescence_check(&env_d, &[], &[], &mut stats).await;
        for x in v {
            report.violation(
                &format!("{}:fault-free", x.sig),
                &x.what,
                json!({"seed": seed, "case": idx, "leg": "crash", "history": history, "final_op": final_op.describe()}),
            );
        }
    }
    report.count("crash_leg_scenarios", 1);
    let mut outcomes = vec![];
    let mut complete = true;
    for (fp, step) in &points {
        if !report.time_left() {
            complete = false;
            break;
        }
        let env_c = Env::restore(HandlerKind::External, &snap).await;
        let wc = env_c.proc(1);
        wc.actor.store.reset_counters();
        match fp {
            FaultPoint::Store { k, fault, crash } => {
                let mut plan = FaultPlan::default();
                if *crash {
                    plan.crash_at = Some((*k, *fault));
                } else {
                    plan.transient.insert(*k, *fault);
                }
                wc.actor.store.set_plan(plan);
            }
            FaultPoint::Ext { op, nth, fault, crash } => wc.ext.as_ref().unwrap().set_faults(vec![ExtFault {
                op: *op,
                nth: *nth,
                fault: *fault,
                crash: *crash,
            }]),
            FaultPoint::PutThenGetFails { nth, fault } => {
                let c = wc.ext.as_ref().unwrap();
                c.set_faults(vec![ExtFault {
                    op: ExtOp::PutIfNotExists,
                    nth: *nth,
                    fault: *fault,
                    crash: false,
                }]);
                c.set_fail_get_after_put_fault(true);
            }
        }
        let res = guarded(ops::apply(&final_op, &wc.actor, URI), 20).await;
        let (client, res_txt) = match res {
            Err(GuardFail::Timeout) => {
                // Lance's commit backoff is proportional to the duration of the first attempt, so a
                // retry storm can take long on a loaded machine. Dropping the writer here is a crash
                // of the writer at an arbitrary later moment, which is inside the fault model: the
                // oracle below still applies.
                report.count("writers_cut_off_after_20s", 1);
                (None, "cut off after 20 s (treated as a later crash of the writer)".to_string())
            }
            Err(GuardFail::Panic(msg)) => {
                report.count("panics_after_injected_fault", 1);
                (None, format!("panic {msg}"))
            }
            Ok(Ok(())) => (Some(()), "Ok".to_string()),
            Ok(Err(e)) => (None, e.to_string().chars().take(140).collect()),
        };
        // the single writer of this leg commits exactly the next version
        let pre_n = snap
            .ext
            .keys()
            .filter(|(b, _)| b == BASE)
            .map(|(_, v)| *v)
            .max()
            .unwrap_or(0);
        let clients: Vec<ClientResult> = client
            .map(|_| ClientResult {
                actor: 1,
                op: final_op.describe(),
                result: Ok(pre_n + 1),
                digest: None,
            })
            .into_iter()
            .collect();
        let mut stats = QStats::default();
        let verdicts = quiescence_check(&env_c, &clients, &[], &mut stats).await;
        report.count("versions_checked", stats.versions_checked);
        report.count("portable_versions_checked", stats.portable_versions_checked);
        report.count("entries_repaired_by_reader", stats.repaired_by_reader);
        report.count("events", env_c.world.log_len() as u64);
        let class = format!("{step}/{}", fp.name());
        *matrix.lock().unwrap().entry(class.clone()).or_insert(0) += 1;
        for v in &verdicts {
            let sig = if v.sig == SIG_DANGLING { v.sig.clone() } else { format!("{}:{class}", v.sig) };
            report.violation(
                &sig,
                &v.what,
                json!({
                    "seed": seed, "case": idx, "leg": "crash", "history": history, "final_op": final_op.describe(),
                    "fault_point": format!("{fp:?}"), "protocol_step": step, "writer_result": res_txt,
                    "writer_mutations": env_c.world.events().iter().filter(|e| e.actor == 1 && e.kind.is_mutating()).map(|e| e.brief()).collect::<Vec<_>>(),
                    "ext_log": env_c.ext.events().iter().map(|e| e.brief()).collect::<Vec<_>>(),
                    "ext_map": env_c.ext.snapshot().iter().map(|((_, v), p)| format!("{v} -> {}", classify_path(p))).collect::<Vec<_>>(),
                    "replay": format!("e_crash C10 --seed {seed} --crashcase {idx}"),
                }),
            );
        }
        outcomes.push(format!("{class} -> writer {res_txt}; oracle {}", if verdicts.is_empty() { "held".to_string() } else { verdicts[0].sig.clone() }));
        // non-trivial: the fault hit one of the five protocol steps
        let nontrivial = !step.starts_with('0');
        report.case(if nontrivial {
            Some(fnv(format!("crash|{class}|{}|{}", final_op.kind(), history.len()).as_bytes()))
        } else {
            None
        });
    }
    if complete {
        report.count("crash_leg_scenarios_fully_enumerated", 1);
    }
    if complete && report.want_sample() && (idx % 5 == 0 || idx < 2) {
        report.sample(json!({
            "leg": "crash", "case": idx, "history": history, "final_op": final_op.describe(),
            "mutating_calls_M": m, "fault_points": points.len(), "outcomes": outcomes,
        }));
    }
}

// -------------------------------------------------------------------------------------------
// selftest
// -------------------------------------------------------------------------------------------

fn selftest(args: &Args) -> i32 {
    let rt = tokio::runtime::Builder::new_current_thread().enable_all().build().unwrap();
    let ok = rt.block_on(async {
        let mut fails: Vec<String> = vec![];
        let spec = TableSpec::simple(&[("v", ColTy::I32, true)]);
        let mut rng = Rng::new(args.seed);
        let mut ids = IdAlloc::new(0);
        let mk = || async { Env::new(HandlerKind::External) };
        // clean table: oracle silent
        let env = mk().await;
        let w = env.proc(1);
        let create = Op::Create { batch: spec.batch(&mut rng, &ids.take(10)), v2: false, stable_row_ids: false, max_rows_per_file: 1000 };
        ops::apply(&create, &w.actor, URI).await.expect("create");
        let app = Op::Append { batch: spec.batch(&mut rng, &ids.take(3)), max_rows_per_file: 1000 };
        ops::apply(&app, &w.actor, URI).await.expect("append");
        let mut st = QStats::default();
        let v = quiescence_check(&env, &[], &[], &mut st).await;
        if !v.is_empty() {
            fails.push(format!("clean table flagged: {v:?}"));
        }
        // corruption 1: final manifest of v2 replaced by other bytes (portable reader / hash check)
        {
            use object_store::ObjectStore;
            let other = env.world.read("t/_versions/1.manifest").await.unwrap();
            env.world
                .backing
                .put(&object_store::path::Path::from("t/_versions/2.manifest"), other.into())
                .await
                .unwrap();
            let v = quiescence_check(&env, &[], &[], &mut st).await;
            if v.is_empty() {
                fails.push("replaced final manifest not flagged".into());
            }
        }
        // corruption 2: external entry points at a staging object that does not exist
        let env = mk().await;
        let w = env.proc(1);
        ops::apply(&create, &w.actor, URI).await.expect("create");
        env.ext.map.lock().unwrap().insert((BASE.to_string(), 2), "t/_versions/2.manifest-00000000-0000-0000-0000-000000000000".into());
        let v = quiescence_check(&env, &[], &[], &mut st).await;
        if !v.iter().any(|x| x.sig.starts_with("dangling")) {
            fails.push(format!("dangling entry not flagged: {v:?}"));
        }
        // corruption 3: an Ok commit that does not exist
        let env = mk().await;
        let w = env.proc(1);
        ops::apply(&create, &w.actor, URI).await.expect("create");
        let lost = vec![ClientResult { actor: 1, op: "x".into(), result: Ok(2), digest: None }];
        let v = quiescence_check(&env, &lost, &[], &mut st).await;
        if !v.iter().any(|x| x.sig == "ok-commit-lost") {
            fails.push(format!("lost Ok commit not flagged: {v:?}"));
        }
        // corruption 4: final manifest removed although the external store says finalised
        let env = mk().await;
        let w = env.proc(1);
        ops::apply(&create, &w.actor, URI).await.expect("create");
        ops::apply(&app, &w.actor, URI).await.expect("append");
        {
            use object_store::ObjectStore;
            env.world.backing.delete(&object_store::path::Path::from("t/_versions/2.manifest")).await.unwrap();
        }
        let v = quiescence_check(&env, &[], &[], &mut st).await;
        if v.is_empty() {
            fails.push("missing final manifest not flagged".into());
        }
        // corruption 5: a reader sample that disagrees
        let env = mk().await;
        let w = env.proc(1);
        ops::apply(&create, &w.actor, URI).await.expect("create");
        let bad = vec![ReaderSample { version: 1, ids_digest: 1, manifest_hash: None }];
        let v = quiescence_check(&env, &[], &bad, &mut st).await;
        if !v.iter().any(|x| x.sig == "version-content-changed-between-observations") {
            fails.push("disagreeing reader sample not flagged".into());
        }
        if fails.is_empty() {
            println!("SELFTEST C10 ok: clean table accepted, 5/5 corrupted states flagged");
            true
        } else {
            println!("SELFTEST C10 FAILED: {fails:?}");
            false
        }
    });
    if ok {
        0
    } else {
        2
    }
}

pub fn run(args: &Args) -> i32 {
    if args.extra.contains_key("selftest") {
        return selftest(args);
    }
    let report = Report::new(
        args,
        "fault_enumeration",
        "Leg 1 (enumeration): a single commit through ExternalManifestCommitHandler is re-run from the restored \
         pre-state once per fault point: every mutating storage call and every external-store write x {fail-before, \
         lost-reply} x {writer dies, writer survives}; non-trivial iff the faulted call is one of the 5 protocol steps \
         (stage, put_if_not_exists, copy, put_if_exists, delete staging); distinct = (step, fault, variant, op kind, \
         history length). Leg 2 (schedules): two writers + a reader under the gate scheduler with faults from the same \
         menu and one optional stale get_latest_version; non-trivial iff both writers issued put_if_not_exists for the \
         same version; distinct = interleaving hash + fault plan. Same quiescence oracle after every run: two readers \
         with the external store (repair), one portable reader without it.",
        (55, 900),
    )
    .with_min_nontrivial(20);
    report.assume("the external manifest store is a linearizable in-process mock (the DynamoDB implementation is out of reach offline); only the trait-level protocol is exercised");
    report.assume("InMemory object store: copy / put / delete are atomic");
    let single_race: Option<u64> = args.extra.get("case").and_then(|s| s.parse().ok());
    let single_crash: Option<u64> = args.extra.get("crashcase").and_then(|s| s.parse().ok());
    let single = single_race.is_some() || single_crash.is_some();
    let matrix: Mutex<BTreeMap<String, u64>> = Mutex::new(BTreeMap::new());
    let next = AtomicU64::new(0);
    let max_cases: u64 = args.tier.pick(40_000, 2_000_000);
    let threads = if single { 1 } else { worker_threads() };
    let race_stats: Mutex<(u64, u64)> = Mutex::new((0, 0));
    run_threads(threads, |_| {
        let report = &report;
        let next = &next;
        let matrix = &matrix;
        let race_stats = &race_stats;
        let seed = args.seed;
        Box::pin(async move {
            let lane = || async {
            loop {
                let idx = next.fetch_add(1, Ordering::SeqCst);
                if !single && (idx >= max_cases || !report.time_left()) {
                    break;
                }
                // alternate the legs: even = enumeration scenario, odd = gated race
                let do_crash = match (single_crash, single_race) {
                    (Some(_), _) => true,
                    (_, Some(_)) => false,
                    _ => idx % 2 == 0,
                };
                if do_crash {
                    crash_scenario(report, seed, single_crash.unwrap_or(idx / 2), matrix).await;
                } else {
                    let ridx = single_race.unwrap_or(idx / 2);
                    match c02::race_cfg(seed, ridx, HandlerKind::External, true, c02::race_secs(report)).await {
                        Err(e) => report.harness_error(&format!("race {ridx}: {e}")),
                        Ok(o) => {
                            if o.watchdog {
                                report.inconclusive(&format!("race {ridx}: scheduler watchdog fired"));
                                report.count("watchdog_fired", 1);
                            }
                            let env = o.env.as_ref().expect("c10 mode returns env");
                            let mut stats = QStats::default();
                            let verdicts = quiescence_check(env, &o.clients, &o.samples, &mut stats).await;
                            report.count("versions_checked", stats.versions_checked);
                            report.count("portable_versions_checked", stats.portable_versions_checked);
                            report.count("entries_repaired_by_reader", stats.repaired_by_reader);
                            report.count("events", o.events as u64);
                            report.count("released_calls", o.released as u64);
                            report.count("nondeterministic_steps", o.nondet);
                            report.count("races", 1);
                            report.count("reader_samples", o.samples.len() as u64);
                            {
                                let mut g = race_stats.lock().unwrap();
                                g.0 += 1;
                                if o.contended > 0 {
                                    g.1 += 1;
                                }
                            }
                            for v in verdicts.iter() {
                                let sig = if v.sig == SIG_DANGLING { v.sig.clone() } else { format!("{}:race", v.sig) };
                                let mut w = o.witness.clone();
                                w["leg"] = json!("race");
                                w["replay"] = json!(format!("e_crash C10 --seed {seed} --case {ridx}"));
                                w["ext_map"] = json!(env.ext.snapshot().iter().map(|((_, v), p)| format!("{v} -> {}", classify_path(p))).collect::<Vec<_>>());
                                report.violation(&sig, &v.what, w);
                            }
                            if o.contended > 0 && report.want_sample() && (ridx % 11 == 0 || ridx < 4) {
                                let mut s = o.sample.clone();
                                s["leg"] = json!("race");
                                s["oracle"] = json!(if verdicts.is_empty() { "held".to_string() } else { verdicts[0].sig.clone() });
                                report.sample(s);
                            }
                            report.case(if o.contended > 0 { Some(o.ihash) } else { None });
                        }
                    }
                }
                if single {
                    break;
                }
            }
            };
            let lanes = if single { 1 } else { 3 };
            futures::future::join_all((0..lanes).map(|_| lane())).await;
        })
    });
    report.set("crash_leg_runs_by_step_and_fault", json!(matrix.lock().unwrap().clone()));
    let rs = *race_stats.lock().unwrap();
    report.set("race_leg", json!({"races": rs.0, "both_writers_reached_put_if_not_exists_for_same_version": rs.1}));
    report.set(
        "level_note",
        json!("fault points of each enumerated commit are complete (crash_leg_scenarios_fully_enumerated); commits and schedules are sampled. Out of reach: the DynamoDB implementation of the store."),
    );
    report.finish()
}
