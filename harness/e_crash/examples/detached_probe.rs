//! Minimal probe: V2-named table on memory://, one detached commit, then a plain open.
use arrow_array::{Int64Array, RecordBatch, RecordBatchIterator};
use arrow_schema::{DataType, Field, Schema};
use lance::dataset::{CommitBuilder, InsertBuilder, WriteMode, WriteParams};
use lance::Dataset;
use std::sync::Arc;

fn batch(lo: i64, n: i64) -> RecordBatch {
    let schema = Arc::new(Schema::new(vec![Field::new("id", DataType::Int64, false)]));
    RecordBatch::try_new(schema, vec![Arc::new(Int64Array::from((lo..lo + n).collect::<Vec<_>>()))]).unwrap()
}

#[tokio::main(flavor = "current_thread")]
async fn main() {
    let uri = std::env::args().nth(1).unwrap_or_else(|| "memory://probe".to_string());
    let b = batch(0, 10);
    let reader = RecordBatchIterator::new(vec![Ok(b.clone())], b.schema());
    let params = WriteParams { enable_v2_manifest_paths: true, mode: WriteMode::Create, ..Default::default() };
    let ds = Dataset::write(reader, &uri, Some(params)).await.unwrap();
    let ds = Arc::new(ds);
    println!("created v{} scheme {:?}", ds.manifest().version, ds.manifest_location().naming_scheme);
    let ap = WriteParams { mode: WriteMode::Append, ..Default::default() };
    let txn = InsertBuilder::new(ds.clone()).with_params(&ap).execute_uncommitted(vec![batch(100, 5)]).await.unwrap();
    let det = CommitBuilder::new(ds.clone()).with_detached(true).execute(txn).await.unwrap();
    println!("detached commit ok: version {:#x}", det.manifest().version);
    // same process, same session (memory:// stores are per registry): re-resolve the latest version
    let mut again = (*ds).clone();
    let r = std::panic::AssertUnwindSafe(again.checkout_latest());
    let r = futures::FutureExt::catch_unwind(r).await;
    match r {
        Ok(Ok(())) => println!("checkout_latest ok: v{}", again.manifest().version),
        Ok(Err(e)) => println!("checkout_latest Err: {e}"),
        Err(_) => println!("checkout_latest PANICKED"),
    }
    let r = futures::FutureExt::catch_unwind(std::panic::AssertUnwindSafe(ds.latest_version_id())).await;
    println!("latest_version_id: {:?}", r.map(|x| x.map_err(|e| e.to_string())).map_err(|_| "PANICKED"));
}
