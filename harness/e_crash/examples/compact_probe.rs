//! Probe: how many commits does compact_files make, and which transactions?
use lance::dataset::optimize::{compact_files, CompactionOptions};
use lance::dataset::{WriteMode, WriteParams};
use lance::Dataset;
use arrow_array::{Int64Array, Int32Array, RecordBatch, RecordBatchIterator};
use arrow_schema::{DataType, Field, Schema};
use std::sync::Arc;

#[tokio::main(flavor = "current_thread")]
async fn main() {
    let uri = "memory://cp";
    let schema = Arc::new(Schema::new(vec![Field::new("id", DataType::Int64, false), Field::new("v", DataType::Int32, true)]));
    let b = RecordBatch::try_new(schema.clone(), vec![Arc::new(Int64Array::from((0..42).collect::<Vec<i64>>())), Arc::new(Int32Array::from((0..42).collect::<Vec<i32>>()))]).unwrap();
    let reader = RecordBatchIterator::new(vec![Ok(b.clone())], b.schema());
    let params = WriteParams { max_rows_per_file: 7, mode: WriteMode::Create, ..Default::default() };
    let mut ds = Dataset::write(reader, uri, Some(params)).await.unwrap();
    let drop_first = std::env::args().nth(1).as_deref() == Some("drop");
    if drop_first { ds.drop_columns(&["v"]).await.unwrap(); }
    let before = ds.manifest().version;
    let opts = CompactionOptions { target_rows_per_fragment: 16, num_threads: Some(1), ..Default::default() };
    compact_files(&mut ds, opts, None).await.unwrap();
    println!("before v{before} after v{}", ds.manifest().version);
    for v in ds.versions().await.unwrap() {
        let d = ds.checkout_version(v.version).await.unwrap();
        let t = d.read_transaction().await.unwrap();
        println!("  v{} op={:?} frags={}", v.version, t.map(|t| t.operation.name().to_string()), d.manifest().fragments.len());
    }
}
