//! Probe: ExternalManifestCommitHandler + detached commit => detached version resolves as latest.
#![allow(dead_code)]
#[path = "../src/common.rs"]
mod common;
use arrow_array::{Int64Array, RecordBatch};
use arrow_schema::{DataType, Field, Schema};
use common::*;
use lance::dataset::{CommitBuilder, InsertBuilder, WriteMode};
use std::sync::Arc;

fn batch(lo: i64, n: i64) -> RecordBatch {
    let schema = Arc::new(Schema::new(vec![Field::new("id", DataType::Int64, false)]));
    RecordBatch::try_new(schema, vec![Arc::new(Int64Array::from((lo..lo + n).collect::<Vec<_>>()))]).unwrap()
}

#[tokio::main(flavor = "current_thread")]
async fn main() {
    let uri = "memory://t";
    let env = Env::new(HandlerKind::External);
    let w = env.proc(1);
    let mut p = w.actor.write_params(WriteMode::Create);
    p.enable_v2_manifest_paths = true;
    w.actor.write(uri, vec![batch(0, 10)], p).await.unwrap();
    w.actor.write(uri, vec![batch(10, 5)], w.actor.write_params(WriteMode::Append)).await.unwrap();
    let ds = Arc::new(w.actor.open(uri).await.unwrap());
    println!("before: latest v{} rows {}", ds.manifest().version, ds.count_rows(None).await.unwrap());
    let ap = w.actor.write_params(WriteMode::Append);
    let txn = InsertBuilder::new(ds.clone()).with_params(&ap).execute_uncommitted(vec![batch(100, 3)]).await.unwrap();
    let det = CommitBuilder::new(ds.clone()).with_detached(true).execute(txn).await.unwrap();
    println!("detached commit: version {:#x}", det.manifest().version);
    println!("external store entries: {:?}", env.ext.snapshot().iter().map(|((_, v), p)| format!("{v:#x} -> {p}")).collect::<Vec<_>>());
    let r = env.proc(2);
    let ds2 = r.actor.open(uri).await.unwrap();
    println!("fresh reader: open() -> version {:#x}, rows {}, latest_version_id {:#x}, versions() {:?}",
        ds2.manifest().version, ds2.count_rows(None).await.unwrap(), ds2.latest_version_id().await.unwrap(),
        ds2.versions().await.unwrap().iter().map(|v| v.version).collect::<Vec<_>>());
    let w2 = env.proc(3);
    let res = w2.actor.write(uri, vec![batch(200, 2)], w2.actor.write_params(WriteMode::Append)).await;
    println!("next append by a fresh writer: {:?}", res.map(|d| d.manifest().version).map_err(|e| e.to_string().chars().take(200).collect::<String>()));
}
