//! Probe: lost reply of ExternalManifestStore::put_if_not_exists (entry written, error returned).
#![allow(dead_code)]
#[path = "../src/common.rs"]
mod common;
use arrow_array::{Int64Array, RecordBatch};
use arrow_schema::{DataType, Field, Schema};
use common::*;
use lance::dataset::WriteMode;
use std::sync::Arc;
use vmon::store::Fault;

fn batch(lo: i64, n: i64) -> RecordBatch {
    let schema = Arc::new(Schema::new(vec![Field::new("id", DataType::Int64, false)]));
    RecordBatch::try_new(schema, vec![Arc::new(Int64Array::from((lo..lo + n).collect::<Vec<_>>()))]).unwrap()
}

#[tokio::main(flavor = "current_thread")]
async fn main() {
    let uri = "memory://t";
    let env = Env::new(HandlerKind::External);
    let w = env.proc(1);
    w.actor.write(uri, vec![batch(0, 10)], w.actor.write_params(WriteMode::Create)).await.unwrap();
    println!("v1 created; external store: {:?}", env.ext.snapshot());
    let w2 = env.proc(2);
    w2.ext.as_ref().unwrap().set_faults(vec![ExtFault { op: ExtOp::PutIfNotExists, nth: 1, fault: Fault::LostReply, crash: false }]);
    let r = w2.actor.write(uri, vec![batch(10, 5)], w2.actor.write_params(WriteMode::Append)).await;
    println!("append with lost reply on put_if_not_exists: {:?}", r.map(|d| d.manifest().version).map_err(|e| e.to_string().chars().take(160).collect::<String>()));
    println!("external store: {:?}", env.ext.snapshot());
    println!("_versions: {:?}", env.world.list_paths().await.into_iter().filter(|p| p.contains("_versions")).collect::<Vec<_>>());
    let rd = env.proc(3);
    println!("fresh reader open(): {:?}", rd.actor.open(uri).await.map(|d| d.manifest().version).map_err(|e| e.to_string().chars().take(220).collect::<String>()));
    println!("fresh reader open_version(1): {:?}", rd.actor.open_version(uri, 1).await.map(|d| d.manifest().version).map_err(|e| e.to_string().chars().take(220).collect::<String>()));
    let w3 = env.proc(4);
    let r = w3.actor.write(uri, vec![batch(20, 5)], w3.actor.write_params(WriteMode::Append)).await;
    println!("fresh writer append: {:?}", r.map(|d| d.manifest().version).map_err(|e| e.to_string().chars().take(220).collect::<String>()));
}
