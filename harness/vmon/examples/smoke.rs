//! Smoke test / usage example of the monitored store + gate scheduler:
//! two actors delete disjoint rows concurrently from the same read version.
use lance::dataset::WriteMode;
use std::sync::Arc;
use vmon::prng::Rng;
use vmon::store::{Sched, Strategy, World};
use vmon::table::{scan_rows, Actor, ColTy, IdAlloc, ScanOpts, TableSpec};

fn main() {
    let seed: u64 = std::env::args().nth(1).and_then(|s| s.parse().ok()).unwrap_or(1);
    let rt = tokio::runtime::Builder::new_current_thread().enable_all().build().unwrap();
    rt.block_on(async move {
        let world = World::memory();
        let a0 = Actor::new(world.new_actor(0));
        let a1 = Actor::new(world.new_actor(1));
        let a2 = Actor::new(world.new_actor(2));
        let spec = TableSpec::simple(&[("v", ColTy::I32, true), ("s", ColTy::Utf8, true)]);
        let mut rng = Rng::new(seed);
        let mut ids = IdAlloc::new(0);
        let uri = "memory://smoke";
        let b = spec.batch(&mut rng, &ids.take(20));
        a0.write(uri, vec![b], a0.write_params(WriteMode::Create)).await.unwrap();
        let mut d1 = a1.open(uri).await.unwrap();
        let mut d2 = a2.open(uri).await.unwrap();
        let sched = Sched::new();
        world.set_sched(Some(sched.clone()));
        sched.begin(1);
        sched.begin(2);
        let s1 = sched.clone();
        let h1 = tokio::spawn(async move { let r = d1.delete("id < 5").await; s1.end(1); (r.map(|_| d1.manifest().version), ) });
        let s2 = sched.clone();
        let h2 = tokio::spawn(async move { let r = d2.delete("id >= 15").await; s2.end(2); (r.map(|_| d2.manifest().version), ) });
        let out = sched.run(Strategy::Uniform(Rng::new(seed)), std::time::Duration::from_secs(30)).await;
        let r1 = h1.await.unwrap();
        let r2 = h2.await.unwrap();
        world.set_sched(None);
        println!("r1={:?} r2={:?}", r1.0, r2.0);
        println!("released {} calls, nondet steps {}, watchdog {}", out.released.len(), out.nondeterministic_steps, out.watchdog_fired);
        for l in out.brief(60) { println!("  {l}"); }
        let ds = a0.fresh_session().open(uri).await.unwrap();
        let (names, rows) = scan_rows(&ds, &ScanOpts::default()).await.unwrap();
        println!("latest v{} rows {} cols {:?}", ds.manifest().version, rows.len(), names);
        println!("events {}", world.log_len());
        let _ = Arc::new(0);
    });
}
