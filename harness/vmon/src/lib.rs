pub mod prng;
pub mod report;
pub mod store;
pub mod table;
