//! Monitored object store (DESIGN §2.4).
//!
//! One `World` = one shared backing store ("the bucket") + an append-only event log + an optional
//! gate scheduler. Every "process" (actor) talks to the world through its own `ActorStore`, which
//! is handed to Lance through the public `ObjectStoreParams.object_store_wrapper` hook: our
//! `WrappingObjectStore::wrap` ignores the store Lance built and returns the actor's store, so
//! separately opened datasets share storage while every call is attributed to its actor.
//!
//! Layers per call: recorder -> gate (park until the controller releases) -> faults
//! (fail-before / lost-reply / crash-at-k) -> backing store.

use async_trait::async_trait;
use bytes::Bytes;
use futures::stream::BoxStream;
use futures::{StreamExt, TryStreamExt};
use lance_io::object_store::WrappingObjectStore;
use object_store::path::Path;
use object_store::{
    GetOptions, GetResult, ListResult, MultipartUpload, ObjectMeta, ObjectStore, PutMultipartOptions,
    PutMode, PutOptions, PutPayload, PutResult, UploadPart,
};
use std::collections::{BTreeMap, HashMap, HashSet};
use std::sync::atomic::{AtomicBool, AtomicU64, Ordering};
use std::sync::{Arc, Mutex};
use tokio::sync::{oneshot, Notify};

use crate::prng::{fnv, Rng};

#[derive(Clone, Copy, Debug, PartialEq, Eq, Hash, PartialOrd, Ord)]
pub enum Kind {
    Put,
    PutCreate,
    PutUpdate,
    MultipartComplete,
    Get,
    Head,
    Delete,
    List,
    ListDelim,
    Copy,
    CopyIfNotExists,
    Rename,
    RenameIfNotExists,
}

impl Kind {
    pub fn is_mutating(&self) -> bool {
        !matches!(self, Kind::Get | Kind::Head | Kind::List | Kind::ListDelim)
    }
    pub fn name(&self) -> &'static str {
        match self {
            Kind::Put => "put",
            Kind::PutCreate => "put_create",
            Kind::PutUpdate => "put_update",
            Kind::MultipartComplete => "mp_complete",
            Kind::Get => "get",
            Kind::Head => "head",
            Kind::Delete => "delete",
            Kind::List => "list",
            Kind::ListDelim => "list_delim",
            Kind::Copy => "copy",
            Kind::CopyIfNotExists => "copy_if_not_exists",
            Kind::Rename => "rename",
            Kind::RenameIfNotExists => "rename_if_not_exists",
        }
    }
}

#[derive(Clone, Debug)]
pub struct Event {
    pub t: u64,
    pub actor: usize,
    pub kind: Kind,
    pub path: String,
    pub to: Option<String>,
    /// Ok(()) or the error class ("NotFound", "AlreadyExists", "Precondition", "Injected", "Crashed", other)
    pub result: Result<(), String>,
    /// whether the effect reached the backing store (true for lost replies)
    pub applied: bool,
    /// content hash of the destination object after a successful mutation (destination only)
    pub hash: Option<u64>,
    /// index of this call among the actor's mutating calls (1-based), if mutating
    pub mut_index: Option<u64>,
}

impl Event {
    pub fn dest(&self) -> &str {
        self.to.as_deref().unwrap_or(&self.path)
    }
    pub fn ok(&self) -> bool {
        self.result.is_ok()
    }
    pub fn brief(&self) -> String {
        format!(
            "a{} {} {}{} -> {}{}",
            self.actor,
            self.kind.name(),
            classify_path(&self.path),
            self.to
                .as_ref()
                .map(|t| format!(" => {}", classify_path(t)))
                .unwrap_or_default(),
            match &self.result {
                Ok(()) => "ok".to_string(),
                Err(e) => format!("err:{e}"),
            },
            if self.applied && self.result.is_err() {
                " (applied)"
            } else {
                ""
            }
        )
    }
}

/// Replace uuids / random suffixes / long digit strings by class names so that two runs of the
/// same logical interleaving hash equal.
pub fn classify_path(p: &str) -> String {
    let mut out = String::new();
    for (i, seg) in p.split('/').enumerate() {
        if i > 0 {
            out.push('/');
        }
        out.push_str(&classify_segment(seg));
    }
    out
}

fn looks_uuid(s: &str) -> bool {
    let hex = s.chars().filter(|c| c.is_ascii_hexdigit()).count();
    s.len() >= 32 && hex >= 30 && s.chars().all(|c| c.is_ascii_hexdigit() || c == '-')
}

fn classify_segment(seg: &str) -> String {
    // split off extension(s)
    let (stem, ext) = match seg.find('.') {
        Some(i) => (&seg[..i], &seg[i..]),
        None => (seg, ""),
    };
    let ext_c = if let Some(i) = ext.find("manifest-") {
        format!("{}manifest-<uuid>", &ext[..i])
    } else {
        ext.to_string()
    };
    if looks_uuid(stem) {
        return format!("<uuid>{ext_c}");
    }
    // deletion files: {fragid}-{readversion}-{rand}.bin/arrow ; txn files: {version}-{uuid}.txn
    let parts: Vec<&str> = stem.split('-').collect();
    if parts.len() >= 2 && parts[0].chars().all(|c| c.is_ascii_digit()) && !parts[0].is_empty() {
        let rest = parts[1..].join("-");
        if looks_uuid(&rest) {
            return format!("{}-<uuid>{ext_c}", parts[0]);
        }
        if parts.len() == 3 && parts[2].chars().all(|c| c.is_ascii_digit()) {
            return format!("{}-{}-<rand>{ext_c}", parts[0], parts[1]);
        }
    }
    if stem.len() >= 16 && stem.chars().all(|c| c.is_ascii_digit()) {
        // V2 manifest names are u64::MAX - version, zero padded
        if let Ok(x) = stem.parse::<u64>() {
            return format!("<v{}>{ext_c}", u64::MAX - x);
        }
    }
    if stem.len() >= 24
        && stem
            .chars()
            .all(|c| c.is_ascii_alphanumeric() || c == '_' || c == '-')
        && stem.chars().filter(|c| c.is_ascii_digit()).count() >= 6
    {
        return format!("<rand>{ext_c}");
    }
    format!("{stem}{ext_c}")
}

// -------------------------------------------------------------------------------------------
// scheduler (gate)
// -------------------------------------------------------------------------------------------

pub struct Parked {
    pub actor: usize,
    pub kind: Kind,
    pub path: String,
    pub seq: u64,
    tx: oneshot::Sender<()>,
}

#[derive(Clone, Debug)]
pub struct ParkedInfo {
    pub actor: usize,
    pub kind: Kind,
    pub path: String,
    pub seq: u64,
}

#[derive(Default)]
struct SchedState {
    parked: Vec<Parked>,
    active: HashSet<usize>,
    released: Vec<ParkedInfo>,
    seq: u64,
    nondeterministic_steps: u64,
}

#[derive(Default)]
pub struct Sched {
    state: Mutex<SchedState>,
    notify: Notify,
}

#[derive(Debug, Clone)]
pub struct SchedOutcome {
    pub released: Vec<ParkedInfo>,
    pub nondeterministic_steps: u64,
    pub watchdog_fired: bool,
}

impl SchedOutcome {
    /// hash of the normalised released sequence = identity of the interleaving
    pub fn interleaving_hash(&self) -> u64 {
        let mut s = String::new();
        for r in &self.released {
            s.push_str(&format!(
                "{}:{}:{};",
                r.actor,
                r.kind.name(),
                classify_path(&r.path)
            ));
        }
        fnv(s.as_bytes())
    }
    pub fn brief(&self, max: usize) -> Vec<String> {
        self.released
            .iter()
            .take(max)
            .map(|r| format!("a{} {} {}", r.actor, r.kind.name(), classify_path(&r.path)))
            .collect()
    }
}

/// How the controller picks the next call to release.
pub enum Strategy {
    /// seeded uniform choice among parked calls
    Uniform(Rng),
    /// PCT-like: random actor priorities, `d` priority change points at random steps
    Pct {
        rng: Rng,
        prio: Vec<u64>,
        change_at: Vec<u64>,
    },
    /// actor order: always release the first actor in `order` that has a parked call
    /// ("actor k runs to its commit first")
    ActorOrder(Vec<usize>),
    /// round robin over actors
    RoundRobin(usize),
    /// replay of explicit (actor) choices; falls back to first parked when exhausted
    Script(Vec<usize>, usize),
}

impl Strategy {
    pub fn pct(mut rng: Rng, actors: usize, d: usize, horizon: u64) -> Self {
        let mut prio: Vec<u64> = (0..actors as u64).map(|i| (i + 1) * 1000).collect();
        rng.shuffle(&mut prio);
        let change_at = (0..d).map(|_| rng.below(horizon.max(1))).collect();
        Strategy::Pct {
            rng,
            prio,
            change_at,
        }
    }
    fn choose(&mut self, step: u64, parked: &[ParkedInfo]) -> usize {
        match self {
            Strategy::Uniform(r) => r.usize_below(parked.len()),
            Strategy::Pct {
                rng,
                prio,
                change_at,
            } => {
                if change_at.contains(&step) {
                    // demote the currently highest priority actor that has a parked call
                    if let Some(best) = parked.iter().map(|p| p.actor).max_by_key(|a| prio[*a]) {
                        prio[best] = rng.below(500);
                    }
                }
                let best = parked
                    .iter()
                    .enumerate()
                    .max_by_key(|(_, p)| (prio[p.actor], u64::MAX - p.seq))
                    .map(|(i, _)| i)
                    .unwrap_or(0);
                best
            }
            Strategy::ActorOrder(order) => {
                for a in order.iter() {
                    if let Some((i, _)) = parked
                        .iter()
                        .enumerate()
                        .filter(|(_, p)| p.actor == *a)
                        .min_by_key(|(_, p)| p.seq)
                    {
                        return i;
                    }
                }
                0
            }
            Strategy::RoundRobin(next) => {
                let mut actors: Vec<usize> = parked.iter().map(|p| p.actor).collect();
                actors.sort();
                actors.dedup();
                let a = *actors.iter().find(|a| **a >= *next).unwrap_or(&actors[0]);
                *next = a + 1;
                parked
                    .iter()
                    .enumerate()
                    .filter(|(_, p)| p.actor == a)
                    .min_by_key(|(_, p)| p.seq)
                    .map(|(i, _)| i)
                    .unwrap_or(0)
            }
            Strategy::Script(choices, pos) => {
                let want = choices.get(*pos).copied();
                *pos += 1;
                if let Some(a) = want {
                    if let Some((i, _)) = parked
                        .iter()
                        .enumerate()
                        .filter(|(_, p)| p.actor == a)
                        .min_by_key(|(_, p)| p.seq)
                    {
                        return i;
                    }
                }
                0
            }
        }
    }
}

impl Sched {
    pub fn new() -> Arc<Self> {
        Arc::new(Self::default())
    }
    /// Actor starts an operation whose storage calls must be gated.
    pub fn begin(&self, actor: usize) {
        self.state.lock().unwrap().active.insert(actor);
        self.notify.notify_one();
    }
    /// Actor finished its operation (calls made afterwards pass through ungated).
    pub fn end(&self, actor: usize) {
        let mut g = self.state.lock().unwrap();
        g.active.remove(&actor);
        // release anything this actor still has parked (detached background tasks)
        let mut i = 0;
        while i < g.parked.len() {
            if g.parked[i].actor == actor {
                let p = g.parked.swap_remove(i);
                let _ = p.tx.send(());
            } else {
                i += 1;
            }
        }
        drop(g);
        self.notify.notify_one();
    }
    fn is_active(&self, actor: usize) -> bool {
        self.state.lock().unwrap().active.contains(&actor)
    }
    async fn park(&self, actor: usize, kind: Kind, path: &str) {
        let rx = {
            let mut g = self.state.lock().unwrap();
            if !g.active.contains(&actor) {
                return;
            }
            let (tx, rx) = oneshot::channel();
            g.seq += 1;
            let seq = g.seq;
            g.parked.push(Parked {
                actor,
                kind,
                path: path.to_string(),
                seq,
                tx,
            });
            rx
        };
        self.notify.notify_one();
        let _ = rx.await;
    }

    /// Drive the schedule until no actor is active. `max_wall`: watchdog (inconclusive when it fires).
    pub async fn run(
        &self,
        mut strategy: Strategy,
        max_wall: std::time::Duration,
    ) -> SchedOutcome {
        let start = std::time::Instant::now();
        let mut step: u64 = 0;
        let mut watchdog_fired = false;
        loop {
            // decide under the lock
            enum Next {
                Done,
                Release(Parked),
                Wait,
            }
            let next = {
                let mut g = self.state.lock().unwrap();
                if g.active.is_empty() {
                    Next::Done
                } else {
                    let parked_actors: HashSet<usize> = g.parked.iter().map(|p| p.actor).collect();
                    if !g.parked.is_empty() && g.active.iter().all(|a| parked_actors.contains(a)) {
                        let infos: Vec<ParkedInfo> = g
                            .parked
                            .iter()
                            .map(|p| ParkedInfo {
                                actor: p.actor,
                                kind: p.kind,
                                path: p.path.clone(),
                                seq: p.seq,
                            })
                            .collect();
                        let idx = strategy.choose(step, &infos).min(infos.len() - 1);
                        g.released.push(infos[idx].clone());
                        Next::Release(g.parked.remove(idx))
                    } else {
                        Next::Wait
                    }
                }
            };
            match next {
                Next::Done => break,
                Next::Release(p) => {
                    step += 1;
                    let _ = p.tx.send(());
                    // let the released call make progress before re-evaluating
                    tokio::task::yield_now().await;
                }
                Next::Wait => {
                    if start.elapsed() > max_wall {
                        watchdog_fired = true;
                        // unblock everything so the run can end
                        let mut g = self.state.lock().unwrap();
                        g.active.clear();
                        for p in g.parked.drain(..) {
                            let _ = p.tx.send(());
                        }
                        break;
                    }
                    let timed_out = tokio::time::timeout(
                        std::time::Duration::from_millis(100),
                        self.notify.notified(),
                    )
                    .await
                    .is_err();
                    if timed_out {
                        // some active actor is neither parked nor finished for 100 ms of real time
                        // (CPU work, backoff sleep). Proceed with what is parked, count the step.
                        let p = {
                            let mut g = self.state.lock().unwrap();
                            if g.parked.is_empty() {
                                None
                            } else {
                                let infos: Vec<ParkedInfo> = g
                                    .parked
                                    .iter()
                                    .map(|p| ParkedInfo {
                                        actor: p.actor,
                                        kind: p.kind,
                                        path: p.path.clone(),
                                        seq: p.seq,
                                    })
                                    .collect();
                                let idx = strategy.choose(step, &infos).min(infos.len() - 1);
                                g.released.push(infos[idx].clone());
                                g.nondeterministic_steps += 1;
                                Some(g.parked.remove(idx))
                            }
                        };
                        if let Some(p) = p {
                            step += 1;
                            let _ = p.tx.send(());
                            tokio::task::yield_now().await;
                        }
                    }
                }
            }
        }
        let g = self.state.lock().unwrap();
        SchedOutcome {
            released: g.released.clone(),
            nondeterministic_steps: g.nondeterministic_steps,
            watchdog_fired,
        }
    }
}

// -------------------------------------------------------------------------------------------
// world + faults
// -------------------------------------------------------------------------------------------

#[derive(Clone, Copy, Debug, PartialEq, Eq)]
pub enum Fault {
    /// the call fails, nothing reaches the store
    FailBefore,
    /// the effect is applied, the caller gets an error
    LostReply,
}

#[derive(Clone, Debug, Default)]
pub struct FaultPlan {
    /// k-th mutating call (1-based) of this actor "kills the process": that call is subject to the
    /// given fault and every later call of the actor fails.
    pub crash_at: Option<(u64, Fault)>,
    /// one-shot transient faults on the k-th mutating call (the actor keeps running)
    pub transient: BTreeMap<u64, Fault>,
    /// one-shot transient fault on the first call whose kind and path substring match
    pub on_match: Vec<(Kind, String, Fault)>,
}

#[derive(Clone, Copy, Debug, PartialEq, Eq)]
pub enum ListOrder {
    AsIs,
    Reversed,
    Shuffled(u64),
}

pub struct World {
    pub backing: Arc<dyn ObjectStore>,
    log: Mutex<Vec<Event>>,
    clock: AtomicU64,
    pub sched: Mutex<Option<Arc<Sched>>>,
    mtime_override: Mutex<HashMap<String, chrono::DateTime<chrono::Utc>>>,
    pub list_order: Mutex<ListOrder>,
}

impl std::fmt::Debug for World {
    fn fmt(&self, f: &mut std::fmt::Formatter<'_>) -> std::fmt::Result {
        write!(f, "World")
    }
}

impl World {
    pub fn memory() -> Arc<Self> {
        Self::with_backing(Arc::new(object_store::memory::InMemory::new()))
    }
    pub fn with_backing(backing: Arc<dyn ObjectStore>) -> Arc<Self> {
        Arc::new(Self {
            backing,
            log: Mutex::new(vec![]),
            clock: AtomicU64::new(0),
            sched: Mutex::new(None),
            mtime_override: Mutex::new(HashMap::new()),
            list_order: Mutex::new(ListOrder::AsIs),
        })
    }
    pub fn actor(self: &Arc<Self>, id: usize) -> Arc<ActorStore> {
        Arc::new_cyclic(|me| ActorStore {
            me: me.clone(),
            world: self.clone(),
            actor: id,
            plan: Mutex::new(FaultPlan::default()),
            mut_calls: AtomicU64::new(0),
            all_calls: AtomicU64::new(0),
            crashed: AtomicBool::new(false),
        })
    }
    pub fn set_sched(&self, s: Option<Arc<Sched>>) {
        *self.sched.lock().unwrap() = s;
    }
    pub fn now(&self) -> u64 {
        self.clock.load(Ordering::SeqCst)
    }
    pub fn log_len(&self) -> usize {
        self.log.lock().unwrap().len()
    }
    pub fn events(&self) -> Vec<Event> {
        self.log.lock().unwrap().clone()
    }
    pub fn events_since(&self, from: usize) -> Vec<Event> {
        self.log.lock().unwrap()[from..].to_vec()
    }
    pub fn clear_log(&self) {
        self.log.lock().unwrap().clear();
    }
    fn record(&self, e: Event) {
        self.log.lock().unwrap().push(e);
    }
    /// Make every object currently in the store look `age` older (exercises time based cleanup
    /// without a clock hook).
    pub async fn age_all(&self, age: chrono::Duration) {
        let metas: Vec<ObjectMeta> = self
            .backing
            .list(None)
            .try_collect()
            .await
            .unwrap_or_default();
        let mut g = self.mtime_override.lock().unwrap();
        for m in metas {
            let cur = g
                .get(m.location.as_ref())
                .copied()
                .unwrap_or(m.last_modified);
            g.insert(m.location.to_string(), cur - age);
        }
    }
    pub fn set_mtime(&self, path: &str, t: chrono::DateTime<chrono::Utc>) {
        self.mtime_override
            .lock()
            .unwrap()
            .insert(path.to_string(), t);
    }
    fn fix_meta(&self, mut m: ObjectMeta) -> ObjectMeta {
        if let Some(t) = self.mtime_override.lock().unwrap().get(m.location.as_ref()) {
            m.last_modified = *t;
        }
        m
    }
    fn forget_mtime(&self, path: &str) {
        self.mtime_override.lock().unwrap().remove(path);
    }
    /// Unlogged, ungated listing of all object paths (for oracles).
    pub async fn list_paths(&self) -> Vec<String> {
        let mut v: Vec<String> = self
            .backing
            .list(None)
            .try_collect::<Vec<_>>()
            .await
            .unwrap_or_default()
            .into_iter()
            .map(|m| m.location.to_string())
            .collect();
        v.sort();
        v
    }
    pub async fn read(&self, path: &str) -> Option<Bytes> {
        let r = self.backing.get(&Path::from(path)).await.ok()?;
        r.bytes().await.ok()
    }
    pub async fn hash_of(&self, path: &str) -> Option<u64> {
        self.read(path).await.map(|b| fnv(&b))
    }
    /// Full copy of the store contents (restore point for crash enumeration).
    pub async fn snapshot(&self) -> BTreeMap<String, Bytes> {
        let mut out = BTreeMap::new();
        for p in self.list_paths().await {
            if let Some(b) = self.read(&p).await {
                out.insert(p, b);
            }
        }
        out
    }
    /// New in-memory world holding exactly `snap`.
    pub async fn from_snapshot(snap: &BTreeMap<String, Bytes>) -> Arc<Self> {
        let w = Self::memory();
        for (p, b) in snap {
            w.backing
                .put(&Path::from(p.as_str()), PutPayload::from_bytes(b.clone()))
                .await
                .expect("snapshot restore");
        }
        w
    }
}

pub struct ActorStore {
    me: std::sync::Weak<ActorStore>,
    pub world: Arc<World>,
    pub actor: usize,
    plan: Mutex<FaultPlan>,
    mut_calls: AtomicU64,
    all_calls: AtomicU64,
    crashed: AtomicBool,
}

impl std::fmt::Debug for ActorStore {
    fn fmt(&self, f: &mut std::fmt::Formatter<'_>) -> std::fmt::Result {
        write!(f, "ActorStore({})", self.actor)
    }
}

impl std::fmt::Display for ActorStore {
    fn fmt(&self, f: &mut std::fmt::Formatter<'_>) -> std::fmt::Result {
        write!(f, "ActorStore({})", self.actor)
    }
}

fn injected(what: &str) -> object_store::Error {
    object_store::Error::Generic {
        store: "vmon",
        source: format!("injected fault: {what}").into(),
    }
}

fn classify<T>(r: &object_store::Result<T>) -> Result<(), String> {
    match r {
        Ok(_) => Ok(()),
        Err(e) => Err(err_class(e)),
    }
}

fn err_class(e: &object_store::Error) -> String {
    match e {
        object_store::Error::NotFound { .. } => "NotFound".into(),
        object_store::Error::AlreadyExists { .. } => "AlreadyExists".into(),
        object_store::Error::Precondition { .. } => "Precondition".into(),
        object_store::Error::NotModified { .. } => "NotModified".into(),
        object_store::Error::NotImplemented => "NotImplemented".into(),
        object_store::Error::Generic { source, .. } => {
            let s = source.to_string();
            if s.contains("injected fault: crash") {
                "Crashed".into()
            } else if s.contains("injected fault") {
                "Injected".into()
            } else {
                "Generic".into()
            }
        }
        _ => "Other".into(),
    }
}

impl ActorStore {
    pub fn set_plan(&self, p: FaultPlan) {
        *self.plan.lock().unwrap() = p;
    }
    pub fn reset_counters(&self) {
        self.mut_calls.store(0, Ordering::SeqCst);
        self.all_calls.store(0, Ordering::SeqCst);
    }
    pub fn mutating_calls(&self) -> u64 {
        self.mut_calls.load(Ordering::SeqCst)
    }
    pub fn total_calls(&self) -> u64 {
        self.all_calls.load(Ordering::SeqCst)
    }
    pub fn is_crashed(&self) -> bool {
        self.crashed.load(Ordering::SeqCst)
    }
    /// Wrapper to hand to `ObjectStoreParams.object_store_wrapper`.
    pub fn wrapper(self: &Arc<Self>) -> Arc<dyn WrappingObjectStore> {
        Arc::new(ActorWrapper(self.clone()))
    }

    /// gate + decide fault. Returns (mut_index, fault to apply)
    async fn enter(&self, kind: Kind, path: &str) -> (Option<u64>, Option<Fault>, bool) {
        self.all_calls.fetch_add(1, Ordering::SeqCst);
        let sched = self.world.sched.lock().unwrap().clone();
        if let Some(s) = sched {
            if s.is_active(self.actor) {
                s.park(self.actor, kind, path).await;
            }
        }
        if self.crashed.load(Ordering::SeqCst) {
            return (None, Some(Fault::FailBefore), true);
        }
        let mut idx = None;
        let mut fault = None;
        let mut crash = false;
        if kind.is_mutating() {
            let k = self.mut_calls.fetch_add(1, Ordering::SeqCst) + 1;
            idx = Some(k);
            let mut plan = self.plan.lock().unwrap();
            if let Some((ck, f)) = plan.crash_at {
                if ck == k {
                    self.crashed.store(true, Ordering::SeqCst);
                    fault = Some(f);
                    crash = true;
                }
            }
            if fault.is_none() {
                if let Some(f) = plan.transient.remove(&k) {
                    fault = Some(f);
                }
            }
        }
        if fault.is_none() {
            let mut plan = self.plan.lock().unwrap();
            if let Some(i) = plan
                .on_match
                .iter()
                .position(|(k, sub, _)| *k == kind && path.contains(sub.as_str()))
            {
                let (_, _, f) = plan.on_match.remove(i);
                fault = Some(f);
            }
        }
        (idx, fault, crash)
    }

    async fn finish(
        &self,
        kind: Kind,
        path: &Path,
        to: Option<&Path>,
        mut_index: Option<u64>,
        applied: bool,
        result: Result<(), String>,
    ) {
        let dest = to.unwrap_or(path);
        let hash = if kind.is_mutating() && applied && kind != Kind::Delete {
            let d = dest.to_string();
            if d.contains("_versions/") || d.contains("_refs/") {
                self.world.hash_of(&d).await
            } else {
                None
            }
        } else {
            None
        };
        if applied && kind.is_mutating() {
            // a rewritten / moved object gets its real mtime back
            self.world.forget_mtime(dest.as_ref());
        }
        let t = self.world.clock.fetch_add(1, Ordering::SeqCst);
        self.world.record(Event {
            t,
            actor: self.actor,
            kind,
            path: path.to_string(),
            to: to.map(|p| p.to_string()),
            result,
            applied,
            hash,
            mut_index,
        });
    }

    /// Generic mutating call with fault handling.
    async fn mutate<T, F, Fut>(
        &self,
        kind: Kind,
        path: &Path,
        to: Option<&Path>,
        f: F,
    ) -> object_store::Result<T>
    where
        F: FnOnce() -> Fut,
        Fut: std::future::Future<Output = object_store::Result<T>>,
    {
        let (idx, fault, crash) = self.enter(kind, path.as_ref()).await;
        let tag = if crash || self.is_crashed() {
            "crash"
        } else {
            "transient"
        };
        match fault {
            Some(Fault::FailBefore) => {
                let res: object_store::Result<T> = Err(injected(tag));
                self.finish(kind, path, to, idx, false, classify(&res)).await;
                res
            }
            Some(Fault::LostReply) => {
                let real = f().await;
                let applied = real.is_ok();
                let res: object_store::Result<T> = match real {
                    Ok(_) => Err(injected(tag)),
                    Err(e) => Err(e),
                };
                self.finish(kind, path, to, idx, applied, classify(&res)).await;
                res
            }
            None => {
                let res = f().await;
                let applied = res.is_ok();
                self.finish(kind, path, to, idx, applied, classify(&res)).await;
                res
            }
        }
    }

    async fn observe<T, F, Fut>(&self, kind: Kind, path: &Path, f: F) -> object_store::Result<T>
    where
        F: FnOnce() -> Fut,
        Fut: std::future::Future<Output = object_store::Result<T>>,
    {
        let (_, fault, _) = self.enter(kind, path.as_ref()).await;
        let res = if fault.is_some() {
            Err(injected(if self.is_crashed() {
                "crash"
            } else {
                "transient"
            }))
        } else {
            f().await
        };
        self.finish(kind, path, None, None, false, classify(&res)).await;
        res
    }
}

#[derive(Debug)]
struct ActorWrapper(Arc<ActorStore>);

impl WrappingObjectStore for ActorWrapper {
    fn wrap(&self, _store_prefix: &str, _original: Arc<dyn ObjectStore>) -> Arc<dyn ObjectStore> {
        self.0.clone()
    }
}

#[derive(Debug)]
struct GatedUpload {
    inner: Box<dyn MultipartUpload>,
    store: Arc<ActorStore>,
    path: Path,
}

#[async_trait]
impl MultipartUpload for GatedUpload {
    fn put_part(&mut self, data: PutPayload) -> UploadPart {
        if self.store.is_crashed() {
            return Box::pin(async { Err(injected("crash")) });
        }
        self.inner.put_part(data)
    }
    async fn complete(&mut self) -> object_store::Result<PutResult> {
        let store = self.store.clone();
        let path = self.path.clone();
        let inner = &mut self.inner;
        store
            .mutate(Kind::MultipartComplete, &path, None, || async move {
                inner.complete().await
            })
            .await
    }
    async fn abort(&mut self) -> object_store::Result<()> {
        self.inner.abort().await
    }
}

#[async_trait]
impl ObjectStore for ActorStore {
    async fn put_opts(
        &self,
        location: &Path,
        payload: PutPayload,
        opts: PutOptions,
    ) -> object_store::Result<PutResult> {
        let kind = match &opts.mode {
            PutMode::Overwrite => Kind::Put,
            PutMode::Create => Kind::PutCreate,
            PutMode::Update(_) => Kind::PutUpdate,
        };
        let backing = self.world.backing.clone();
        self.mutate(kind, location, None, || async move {
            backing.put_opts(location, payload, opts).await
        })
        .await
    }

    async fn put_multipart_opts(
        &self,
        location: &Path,
        opts: PutMultipartOptions,
    ) -> object_store::Result<Box<dyn MultipartUpload>> {
        if self.is_crashed() {
            return Err(injected("crash"));
        }
        let inner = self.world.backing.put_multipart_opts(location, opts).await?;
        let me = self.self_arc();
        Ok(Box::new(GatedUpload {
            inner,
            store: me,
            path: location.clone(),
        }))
    }

    async fn get_opts(&self, location: &Path, options: GetOptions) -> object_store::Result<GetResult> {
        let backing = self.world.backing.clone();
        let head = options.head;
        let kind = if head { Kind::Head } else { Kind::Get };
        let world = self.world.clone();
        self.observe(kind, location, || async move {
            let mut r = backing.get_opts(location, options).await?;
            r.meta = world.fix_meta(r.meta);
            Ok(r)
        })
        .await
    }

    async fn head(&self, location: &Path) -> object_store::Result<ObjectMeta> {
        let backing = self.world.backing.clone();
        let world = self.world.clone();
        self.observe(Kind::Head, location, || async move {
            backing.head(location).await.map(|m| world.fix_meta(m))
        })
        .await
    }

    async fn delete(&self, location: &Path) -> object_store::Result<()> {
        let backing = self.world.backing.clone();
        self.mutate(Kind::Delete, location, None, || async move {
            backing.delete(location).await
        })
        .await
    }

    fn list(&self, prefix: Option<&Path>) -> BoxStream<'static, object_store::Result<ObjectMeta>> {
        let me = self.self_arc();
        let prefix = prefix.cloned();
        let fut = async move {
            let p = prefix.clone().unwrap_or_else(|| Path::from(""));
            let backing = me.world.backing.clone();
            let world = me.world.clone();
            let res: object_store::Result<Vec<ObjectMeta>> = me
                .observe(Kind::List, &p, || async move {
                    let mut v: Vec<ObjectMeta> =
                        backing.list(prefix.as_ref()).try_collect().await?;
                    let order = *world.list_order.lock().unwrap();
                    match order {
                        ListOrder::AsIs => {}
                        ListOrder::Reversed => v.reverse(),
                        ListOrder::Shuffled(seed) => {
                            let mut r = Rng::new(seed ^ v.len() as u64);
                            r.shuffle(&mut v);
                        }
                    }
                    Ok(v.into_iter().map(|m| world.fix_meta(m)).collect())
                })
                .await;
            match res {
                Ok(v) => futures::stream::iter(v.into_iter().map(Ok)).boxed(),
                Err(e) => futures::stream::once(async move { Err(e) }).boxed(),
            }
        };
        futures::stream::once(fut).flatten().boxed()
    }

    async fn list_with_delimiter(&self, prefix: Option<&Path>) -> object_store::Result<ListResult> {
        let backing = self.world.backing.clone();
        let world = self.world.clone();
        let p = prefix.cloned().unwrap_or_else(|| Path::from(""));
        self.observe(Kind::ListDelim, &p, || async move {
            let mut r = backing.list_with_delimiter(prefix).await?;
            r.objects = r.objects.into_iter().map(|m| world.fix_meta(m)).collect();
            Ok(r)
        })
        .await
    }

    async fn copy(&self, from: &Path, to: &Path) -> object_store::Result<()> {
        let backing = self.world.backing.clone();
        self.mutate(Kind::Copy, from, Some(to), || async move {
            backing.copy(from, to).await
        })
        .await
    }

    async fn rename(&self, from: &Path, to: &Path) -> object_store::Result<()> {
        let backing = self.world.backing.clone();
        self.mutate(Kind::Rename, from, Some(to), || async move {
            backing.rename(from, to).await
        })
        .await
    }

    async fn copy_if_not_exists(&self, from: &Path, to: &Path) -> object_store::Result<()> {
        let backing = self.world.backing.clone();
        self.mutate(Kind::CopyIfNotExists, from, Some(to), || async move {
            backing.copy_if_not_exists(from, to).await
        })
        .await
    }

    async fn rename_if_not_exists(&self, from: &Path, to: &Path) -> object_store::Result<()> {
        let backing = self.world.backing.clone();
        self.mutate(Kind::RenameIfNotExists, from, Some(to), || async move {
            backing.rename_if_not_exists(from, to).await
        })
        .await
    }
}

impl ActorStore {
    fn self_arc(&self) -> Arc<ActorStore> {
        self.me.upgrade().expect("ActorStore dropped while in use")
    }
}

impl World {
    /// Create an actor store (alias of `actor`).
    pub fn new_actor(self: &Arc<Self>, id: usize) -> Arc<ActorStore> {
        self.actor(id)
    }
}
