//! Small deterministic PRNG (xoshiro256** seeded through splitmix64). Every random choice of
//! every workload goes through this so that `VERIF_SEED` (+ a per-case index) replays a case.

#[derive(Clone, Debug)]
pub struct Rng {
    s: [u64; 4],
}

fn splitmix(x: &mut u64) -> u64 {
    *x = x.wrapping_add(0x9E37_79B9_7F4A_7C15);
    let mut z = *x;
    z = (z ^ (z >> 30)).wrapping_mul(0xBF58_476D_1CE4_E5B9);
    z = (z ^ (z >> 27)).wrapping_mul(0x94D0_49BB_1331_11EB);
    z ^ (z >> 31)
}

impl Rng {
    pub fn new(seed: u64) -> Self {
        let mut x = seed ^ 0x5EED_5EED_5EED_5EED;
        let s = [
            splitmix(&mut x),
            splitmix(&mut x),
            splitmix(&mut x),
            splitmix(&mut x),
        ];
        Self { s }
    }
    /// Independent stream for case `i` of seed `seed`.
    pub fn for_case(seed: u64, i: u64) -> Self {
        Self::new(seed.wrapping_mul(0x9E37_79B9_7F4A_7C15) ^ i.wrapping_mul(0xD6E8_FEB8_6659_FD93))
    }
    pub fn next_u64(&mut self) -> u64 {
        let r = self.s[1].wrapping_mul(5).rotate_left(7).wrapping_mul(9);
        let t = self.s[1] << 17;
        self.s[2] ^= self.s[0];
        self.s[3] ^= self.s[1];
        self.s[1] ^= self.s[2];
        self.s[0] ^= self.s[3];
        self.s[2] ^= t;
        self.s[3] = self.s[3].rotate_left(45);
        r
    }
    pub fn next_u32(&mut self) -> u32 {
        (self.next_u64() >> 32) as u32
    }
    /// uniform in [0, n)  (n > 0)
    pub fn below(&mut self, n: u64) -> u64 {
        debug_assert!(n > 0);
        if n == 0 {
            return 0;
        }
        // multiply-shift; bias is irrelevant for workload generation
        ((self.next_u64() as u128 * n as u128) >> 64) as u64
    }
    pub fn usize_below(&mut self, n: usize) -> usize {
        self.below(n as u64) as usize
    }
    /// uniform in [lo, hi] inclusive
    pub fn range(&mut self, lo: i64, hi: i64) -> i64 {
        debug_assert!(lo <= hi);
        let span = (hi as i128 - lo as i128 + 1) as u128;
        if span > u64::MAX as u128 {
            return self.next_u64() as i64;
        }
        (lo as i128 + self.below(span as u64) as i128) as i64
    }
    pub fn urange(&mut self, lo: usize, hi: usize) -> usize {
        lo + self.usize_below(hi - lo + 1)
    }
    pub fn bool(&mut self) -> bool {
        self.next_u64() & 1 == 1
    }
    /// true with probability num/den
    pub fn chance(&mut self, num: u64, den: u64) -> bool {
        self.below(den) < num
    }
    pub fn f64(&mut self) -> f64 {
        (self.next_u64() >> 11) as f64 / (1u64 << 53) as f64
    }
    pub fn pick<'a, T>(&mut self, xs: &'a [T]) -> &'a T {
        &xs[self.usize_below(xs.len())]
    }
    pub fn pick_weighted<'a, T>(&mut self, xs: &'a [(u32, T)]) -> &'a T {
        let total: u64 = xs.iter().map(|x| x.0 as u64).sum();
        let mut r = self.below(total.max(1));
        for (w, t) in xs {
            if r < *w as u64 {
                return t;
            }
            r -= *w as u64;
        }
        &xs[xs.len() - 1].1
    }
    pub fn shuffle<T>(&mut self, xs: &mut [T]) {
        for i in (1..xs.len()).rev() {
            let j = self.usize_below(i + 1);
            xs.swap(i, j);
        }
    }
    /// k distinct indices out of n (k <= n), in random order
    pub fn sample_indices(&mut self, n: usize, k: usize) -> Vec<usize> {
        let mut v: Vec<usize> = (0..n).collect();
        self.shuffle(&mut v);
        v.truncate(k.min(n));
        v
    }
    pub fn bytes(&mut self, n: usize) -> Vec<u8> {
        let mut v = Vec::with_capacity(n);
        while v.len() < n {
            let x = self.next_u64().to_le_bytes();
            let take = (n - v.len()).min(8);
            v.extend_from_slice(&x[..take]);
        }
        v
    }
}

/// FNV-1a 64 — used for case signatures (stable across runs and platforms).
pub fn fnv(data: &[u8]) -> u64 {
    let mut h: u64 = 0xcbf2_9ce4_8422_2325;
    for b in data {
        h ^= *b as u64;
        h = h.wrapping_mul(0x0000_0100_0000_01B3);
    }
    h
}

pub fn fnv_str(s: &str) -> u64 {
    fnv(s.as_bytes())
}
