//! Verdict discipline shared by every check: argument parsing, evidence file, violation /
//! known-finding / inconclusive bookkeeping, sanity gate, exit code.
//!
//! Exit codes: 0 = held on everything observed (possibly with KNOWN-FINDING lines);
//! 1 = violation (a `VIOLATION property=<id> replay=<path>` line was printed);
//! 2 = harness error or inconclusive (never printed as VIOLATION).

use serde_json::{json, Map, Value};
use std::collections::{BTreeMap, HashSet};
use std::sync::Mutex;
use std::time::Instant;

#[derive(Clone, Copy, Debug, PartialEq, Eq)]
pub enum Tier {
    Quick,
    Thorough,
}

impl Tier {
    pub fn name(&self) -> &'static str {
        match self {
            Tier::Quick => "quick",
            Tier::Thorough => "thorough",
        }
    }
    pub fn pick<T>(&self, quick: T, thorough: T) -> T {
        match self {
            Tier::Quick => quick,
            Tier::Thorough => thorough,
        }
    }
}

#[derive(Clone, Debug)]
pub struct Args {
    pub prop: String,
    pub tier: Tier,
    pub seed: u64,
    pub replay: Option<String>,
    /// wall-clock budget override in seconds (workloads are capped by ops AND time)
    pub budget_s: Option<u64>,
    /// free-form extra arguments (`--key value`)
    pub extra: BTreeMap<String, String>,
}

pub fn verif_root() -> String {
    std::env::var("VERIF_ROOT").unwrap_or_else(|_| "/verif".to_string())
}

pub fn parse_args() -> Args {
    let mut it = std::env::args().skip(1);
    let mut prop = String::new();
    let mut tier = match std::env::var("VERIF_TIER").ok().as_deref() {
        Some("thorough") => Tier::Thorough,
        _ => Tier::Quick,
    };
    let mut seed: u64 = std::env::var("VERIF_SEED")
        .ok()
        .and_then(|s| s.trim().parse::<i64>().ok())
        .map(|x| x as u64)
        .unwrap_or(1);
    let mut replay = None;
    let mut budget_s = std::env::var("VERIF_BUDGET_S")
        .ok()
        .and_then(|s| s.parse().ok());
    let mut extra = BTreeMap::new();
    while let Some(a) = it.next() {
        match a.as_str() {
            "quick" => tier = Tier::Quick,
            "thorough" => tier = Tier::Thorough,
            "--tier" => {
                tier = match it.next().as_deref() {
                    Some("thorough") => Tier::Thorough,
                    _ => Tier::Quick,
                }
            }
            "--seed" => {
                seed = it
                    .next()
                    .and_then(|s| s.parse::<i64>().ok())
                    .map(|x| x as u64)
                    .unwrap_or(seed)
            }
            "--replay" => replay = it.next(),
            "--budget" => budget_s = it.next().and_then(|s| s.parse().ok()),
            s if s.starts_with("--") => {
                let v = it.next().unwrap_or_default();
                extra.insert(s.trim_start_matches("--").to_string(), v);
            }
            s => {
                if prop.is_empty() {
                    prop = s.to_string()
                }
            }
        }
    }
    Args {
        prop,
        tier,
        seed,
        replay,
        budget_s,
        extra,
    }
}

#[derive(Debug, Clone)]
struct KnownFinding {
    property: String,
    signature: String,
    what: String,
}

fn load_known() -> Vec<KnownFinding> {
    // committed files only; never written at run time
    let mut out = vec![];
    let mut paths = vec![format!("{}/known_findings.json", verif_root())];
    if let Ok(rd) = std::fs::read_dir(format!("{}/known_findings.d", verif_root())) {
        let mut extra: Vec<String> = rd
            .filter_map(|e| e.ok())
            .map(|e| e.path().to_string_lossy().to_string())
            .filter(|p| p.ends_with(".json"))
            .collect();
        extra.sort();
        paths.extend(extra);
    }
    for path in paths {
        load_known_file(&path, &mut out);
    }
    out
}

fn load_known_file(path: &str, out: &mut Vec<KnownFinding>) {
    let Ok(txt) = std::fs::read_to_string(path) else {
        return;
    };
    let Ok(v) = serde_json::from_str::<Value>(&txt) else {
        eprintln!("harness: cannot parse {path}");
        return;
    };
    if let Some(arr) = v.get("findings").and_then(|x| x.as_array()) {
        for f in arr {
            out.push(KnownFinding {
                property: f["property"].as_str().unwrap_or("").to_string(),
                signature: f["signature"].as_str().unwrap_or("").to_string(),
                what: f["what"].as_str().unwrap_or("").to_string(),
            });
        }
    }
}

struct Inner {
    evaluations: u64,
    sigs: HashSet<u64>,
    samples: Vec<Value>,
    counters: BTreeMap<String, u64>,
    extra: Map<String, Value>,
    assumptions: Vec<String>,
    violations: Vec<(String, String, String)>, // (signature, what, replay path)
    violation_sigs: HashSet<String>,
    known_hits: BTreeMap<String, (String, u64)>,
    inconclusive: Vec<String>,
    harness_errors: Vec<String>,
    rejected: u64,
    exhaustive: Option<bool>,
}

pub struct Report {
    pub prop: String,
    pub tier: Tier,
    pub seed: u64,
    level: String,
    rule: String,
    start: Instant,
    budget_s: u64,
    min_nontrivial: usize,
    max_samples: usize,
    known: Vec<KnownFinding>,
    inner: Mutex<Inner>,
}

impl Report {
    /// `level`: one of the EVIDENCE schema levels. `rule`: how cases are generated and what makes
    /// one distinct / non-trivial. `budget`: (quick seconds, thorough seconds) wall cap for the workload.
    pub fn new(args: &Args, level: &str, rule: &str, budget: (u64, u64)) -> Self {
        let budget_s = args.budget_s.unwrap_or(args.tier.pick(budget.0, budget.1));
        Self {
            prop: args.prop.clone(),
            tier: args.tier,
            seed: args.seed,
            level: level.to_string(),
            rule: rule.to_string(),
            start: Instant::now(),
            budget_s,
            min_nontrivial: 2,
            max_samples: 6,
            known: load_known(),
            inner: Mutex::new(Inner {
                evaluations: 0,
                sigs: HashSet::new(),
                samples: vec![],
                counters: BTreeMap::new(),
                extra: Map::new(),
                assumptions: vec![],
                violations: vec![],
                violation_sigs: HashSet::new(),
                known_hits: BTreeMap::new(),
                inconclusive: vec![],
                harness_errors: vec![],
                rejected: 0,
                exhaustive: None,
            }),
        }
    }
    pub fn with_min_nontrivial(mut self, n: usize) -> Self {
        self.min_nontrivial = n.max(2);
        self
    }
    pub fn elapsed_s(&self) -> f64 {
        self.start.elapsed().as_secs_f64()
    }
    /// true while the workload may start another case
    pub fn time_left(&self) -> bool {
        self.elapsed_s() < self.budget_s as f64
    }
    pub fn budget_s(&self) -> u64 {
        self.budget_s
    }
    /// One executed case. `sig`: Some(signature hash) iff the case is non-trivial by the rule.
    pub fn case(&self, sig: Option<u64>) {
        let mut g = self.inner.lock().unwrap();
        g.evaluations += 1;
        if let Some(s) = sig {
            g.sigs.insert(s);
        }
    }
    pub fn cases(&self, n: u64) {
        self.inner.lock().unwrap().evaluations += n;
    }
    pub fn nontrivial(&self, sig: u64) {
        self.inner.lock().unwrap().sigs.insert(sig);
    }
    pub fn rejected(&self) {
        self.inner.lock().unwrap().rejected += 1;
    }
    pub fn sample(&self, v: Value) {
        let mut g = self.inner.lock().unwrap();
        if g.samples.len() < self.max_samples {
            g.samples.push(v);
        }
    }
    pub fn want_sample(&self) -> bool {
        self.inner.lock().unwrap().samples.len() < self.max_samples
    }
    pub fn count(&self, key: &str, n: u64) {
        *self
            .inner
            .lock()
            .unwrap()
            .counters
            .entry(key.to_string())
            .or_insert(0) += n;
    }
    pub fn counter(&self, key: &str) -> u64 {
        *self.inner.lock().unwrap().counters.get(key).unwrap_or(&0)
    }
    pub fn set(&self, key: &str, v: Value) {
        self.inner.lock().unwrap().extra.insert(key.to_string(), v);
    }
    pub fn exhaustive(&self, b: bool) {
        self.inner.lock().unwrap().exhaustive = Some(b);
    }
    pub fn assume(&self, s: &str) {
        let mut g = self.inner.lock().unwrap();
        if !g.assumptions.iter().any(|x| x == s) {
            g.assumptions.push(s.to_string());
        }
    }
    pub fn inconclusive(&self, why: &str) {
        eprintln!("INCONCLUSIVE property={} {}", self.prop, why);
        self.inner.lock().unwrap().inconclusive.push(why.to_string());
    }
    pub fn harness_error(&self, why: &str) {
        eprintln!("HARNESS-ERROR property={} {}", self.prop, why);
        self.inner
            .lock()
            .unwrap()
            .harness_errors
            .push(why.to_string());
    }
    pub fn n_violations(&self) -> usize {
        self.inner.lock().unwrap().violations.len()
    }
    pub fn n_evaluations(&self) -> u64 {
        self.inner.lock().unwrap().evaluations
    }
    pub fn n_nontrivial(&self) -> usize {
        self.inner.lock().unwrap().sigs.len()
    }

    /// Report a witness of a property violation. `signature` is the narrow, oracle-computed class
    /// of the witness (used for known-finding matching and de-duplication); `witness` is everything
    /// needed to replay it. Returns true if it counted as a new violation (not a known finding).
    pub fn violation(&self, signature: &str, what: &str, witness: Value) -> bool {
        if let Some(k) = self
            .known
            .iter()
            .find(|k| k.property == self.prop && k.signature == signature)
        {
            let mut g = self.inner.lock().unwrap();
            let e = g
                .known_hits
                .entry(signature.to_string())
                .or_insert((k.what.clone(), 0));
            e.1 += 1;
            return false;
        }
        let mut g = self.inner.lock().unwrap();
        if g.violation_sigs.contains(signature) && g.violations.len() >= 1 {
            // same class already reported; count only
            *g.counters
                .entry("violations_duplicate_signature".into())
                .or_insert(0) += 1;
            return true;
        }
        g.violation_sigs.insert(signature.to_string());
        let n = g.violations.len();
        let dir = format!("{}/work/replay", verif_root());
        let _ = std::fs::create_dir_all(&dir);
        let path = format!("{}/{}-{}-{}.json", dir, self.prop, self.seed, n);
        let doc = json!({
            "property": self.prop, "seed": self.seed, "tier": self.tier.name(),
            "signature": signature, "what": what, "witness": witness,
        });
        let _ = std::fs::write(&path, serde_json::to_string_pretty(&doc).unwrap_or_default());
        println!("VIOLATION property={} replay={}", self.prop, path);
        println!("  signature={} what={}", signature, what);
        g.violations
            .push((signature.to_string(), what.to_string(), path));
        true
    }

    /// Writes the evidence file, prints KNOWN-FINDING lines and returns the process exit code.
    pub fn finish(&self) -> i32 {
        let g = self.inner.lock().unwrap();
        for (sig, (what, n)) in &g.known_hits {
            println!(
                "KNOWN-FINDING: property={} {} [signature={} witnesses={}]",
                self.prop, what, sig, n
            );
        }
        let mut coverage = Map::new();
        coverage.insert("evaluations".into(), json!(g.evaluations));
        coverage.insert("distinct_nontrivial".into(), json!(g.sigs.len()));
        coverage.insert("rule".into(), json!(self.rule));
        coverage.insert("samples".into(), Value::Array(g.samples.clone()));
        coverage.insert("rejected_inputs".into(), json!(g.rejected));
        if let Some(e) = g.exhaustive {
            coverage.insert("exhaustive".into(), json!(e));
        }
        for (k, v) in &g.counters {
            coverage.insert(k.clone(), json!(v));
        }
        for (k, v) in &g.extra {
            coverage.insert(k.clone(), v.clone());
        }
        coverage.insert(
            "known_findings_hit".into(),
            json!(g
                .known_hits
                .iter()
                .map(|(k, v)| json!({"signature": k, "witnesses": v.1}))
                .collect::<Vec<_>>()),
        );
        if !g.inconclusive.is_empty() {
            coverage.insert("inconclusive".into(), json!(g.inconclusive));
        }
        let verdict = if !g.violations.is_empty() {
            "violated"
        } else if !g.harness_errors.is_empty() {
            "harness_error"
        } else if g.sigs.len() < self.min_nontrivial || g.evaluations == 0 {
            "inconclusive_too_few_nontrivial_cases"
        } else {
            "held_on_observed"
        };
        coverage.insert("verdict".into(), json!(verdict));
        let ev = json!({
            "property_id": self.prop,
            "tier": self.tier.name(),
            "seed": self.seed as i64,
            "level": self.level,
            "coverage": Value::Object(coverage),
            "assumptions": g.assumptions,
            "wall_s": (self.elapsed_s() * 1000.0).round() / 1000.0,
            "violations": g.violations.len(),
        });
        let dir = format!("{}/evidence", verif_root());
        let _ = std::fs::create_dir_all(&dir);
        let path = std::env::var("VERIF_EVIDENCE_OUT")
            .unwrap_or_else(|_| format!("{}/{}.json", dir, self.prop));
        if let Err(e) = std::fs::write(&path, serde_json::to_string_pretty(&ev).unwrap()) {
            eprintln!("harness: cannot write evidence {path}: {e}");
            return 2;
        }
        println!(
            "RESULT property={} tier={} seed={} verdict={} evaluations={} distinct_nontrivial={} violations={} known={} wall_s={:.1}",
            self.prop, self.tier.name(), self.seed, verdict, g.evaluations, g.sigs.len(),
            g.violations.len(), g.known_hits.len(), self.elapsed_s()
        );
        match verdict {
            "violated" => 1,
            "held_on_observed" => 0,
            _ => {
                eprintln!(
                    "harness: verdict {verdict} (evaluations={}, distinct_nontrivial={}, min={}); errors={:?}",
                    g.evaluations,
                    g.sigs.len(),
                    self.min_nontrivial,
                    g.harness_errors
                );
                2
            }
        }
    }
}
