//! Model-table helpers: canonical logical cells, Arrow -> model rows, typed batch generators with
//! a globally unique `id` primary key, scan helpers and actor (per-process) dataset handles.

use arrow_array::builder::*;
use arrow_array::cast::AsArray;
use arrow_array::types::*;
use arrow_array::*;
use arrow_schema::{DataType, Field, Schema, SchemaRef, TimeUnit};
use futures::TryStreamExt;
use lance::dataset::{ReadParams, WriteMode, WriteParams};
use lance::session::Session;
use lance::Dataset;
use lance_io::object_store::ObjectStoreParams;
use lance_table::io::commit::CommitHandler;
use std::collections::BTreeMap;
use std::sync::Arc;

use crate::prng::{fnv, Rng};
use crate::store::ActorStore;

/// Canonical logical value of one Arrow cell. Floats compare bitwise after NaN canonicalisation
/// (so -0.0 != 0.0 and NaN == NaN: a storage round trip must preserve both).
#[derive(Clone, Debug)]
pub enum Cell {
    Null,
    Bool(bool),
    Int(i128),
    Float(f64),
    Str(String),
    Bin(Vec<u8>),
    List(Vec<Cell>),
    Struct(Vec<(String, Cell)>),
    /// fallback: Arrow display string of the value
    Other(String),
}

impl PartialEq for Cell {
    fn eq(&self, o: &Self) -> bool {
        use Cell::*;
        match (self, o) {
            (Null, Null) => true,
            (Bool(a), Bool(b)) => a == b,
            (Int(a), Int(b)) => a == b,
            (Float(a), Float(b)) => (a.is_nan() && b.is_nan()) || a.to_bits() == b.to_bits(),
            (Str(a), Str(b)) => a == b,
            (Bin(a), Bin(b)) => a == b,
            (List(a), List(b)) => a == b,
            (Struct(a), Struct(b)) => a == b,
            (Other(a), Other(b)) => a == b,
            _ => false,
        }
    }
}
impl Eq for Cell {}

impl Cell {
    pub fn is_null(&self) -> bool {
        matches!(self, Cell::Null)
    }
    pub fn as_i64(&self) -> Option<i64> {
        match self {
            Cell::Int(x) => Some(*x as i64),
            _ => None,
        }
    }
    pub fn render(&self) -> String {
        match self {
            Cell::Null => "∅".into(),
            Cell::Bool(b) => b.to_string(),
            Cell::Int(i) => i.to_string(),
            Cell::Float(f) => {
                if f.is_nan() {
                    "NaN".into()
                } else {
                    format!("{:?}", f)
                }
            }
            Cell::Str(s) => format!("{s:?}"),
            Cell::Bin(b) => format!("x{}", b.iter().map(|x| format!("{x:02x}")).collect::<String>()),
            Cell::List(v) => format!(
                "[{}]",
                v.iter().map(|c| c.render()).collect::<Vec<_>>().join(",")
            ),
            Cell::Struct(v) => format!(
                "{{{}}}",
                v.iter()
                    .map(|(k, c)| format!("{k}:{}", c.render()))
                    .collect::<Vec<_>>()
                    .join(",")
            ),
            Cell::Other(s) => format!("~{s}"),
        }
    }
}

pub type Row = Vec<Cell>;

pub fn render_row(r: &Row) -> String {
    r.iter().map(|c| c.render()).collect::<Vec<_>>().join("|")
}

pub fn digest_rows(rows: &[Row]) -> u64 {
    let mut s = String::new();
    for r in rows {
        s.push_str(&render_row(r));
        s.push('\n');
    }
    fnv(s.as_bytes())
}

macro_rules! prim_int {
    ($arr:expr, $i:expr, $t:ty) => {
        Cell::Int($arr.as_primitive::<$t>().value($i) as i128)
    };
}

/// Logical value of `arr[i]` (independent of offsets, slicing and physical layout).
pub fn cell_at(arr: &dyn Array, i: usize) -> Cell {
    if arr.is_null(i) {
        return Cell::Null;
    }
    match arr.data_type() {
        DataType::Null => Cell::Null,
        DataType::Boolean => Cell::Bool(arr.as_boolean().value(i)),
        DataType::Int8 => prim_int!(arr, i, Int8Type),
        DataType::Int16 => prim_int!(arr, i, Int16Type),
        DataType::Int32 => prim_int!(arr, i, Int32Type),
        DataType::Int64 => prim_int!(arr, i, Int64Type),
        DataType::UInt8 => prim_int!(arr, i, UInt8Type),
        DataType::UInt16 => prim_int!(arr, i, UInt16Type),
        DataType::UInt32 => prim_int!(arr, i, UInt32Type),
        DataType::UInt64 => prim_int!(arr, i, UInt64Type),
        DataType::Date32 => prim_int!(arr, i, Date32Type),
        DataType::Date64 => prim_int!(arr, i, Date64Type),
        DataType::Time32(TimeUnit::Second) => prim_int!(arr, i, Time32SecondType),
        DataType::Time32(TimeUnit::Millisecond) => prim_int!(arr, i, Time32MillisecondType),
        DataType::Time64(TimeUnit::Microsecond) => prim_int!(arr, i, Time64MicrosecondType),
        DataType::Time64(TimeUnit::Nanosecond) => prim_int!(arr, i, Time64NanosecondType),
        DataType::Timestamp(TimeUnit::Second, _) => prim_int!(arr, i, TimestampSecondType),
        DataType::Timestamp(TimeUnit::Millisecond, _) => prim_int!(arr, i, TimestampMillisecondType),
        DataType::Timestamp(TimeUnit::Microsecond, _) => prim_int!(arr, i, TimestampMicrosecondType),
        DataType::Timestamp(TimeUnit::Nanosecond, _) => prim_int!(arr, i, TimestampNanosecondType),
        DataType::Duration(TimeUnit::Second) => prim_int!(arr, i, DurationSecondType),
        DataType::Duration(TimeUnit::Millisecond) => prim_int!(arr, i, DurationMillisecondType),
        DataType::Duration(TimeUnit::Microsecond) => prim_int!(arr, i, DurationMicrosecondType),
        DataType::Duration(TimeUnit::Nanosecond) => prim_int!(arr, i, DurationNanosecondType),
        DataType::Decimal128(_, _) => Cell::Int(arr.as_primitive::<Decimal128Type>().value(i)),
        DataType::Float16 => Cell::Float(arr.as_primitive::<Float16Type>().value(i).to_f64()),
        DataType::Float32 => {
            let v = arr.as_primitive::<Float32Type>().value(i);
            // keep f32 bit identity: widen exactly
            Cell::Float(v as f64)
        }
        DataType::Float64 => Cell::Float(arr.as_primitive::<Float64Type>().value(i)),
        DataType::Utf8 => Cell::Str(arr.as_string::<i32>().value(i).to_string()),
        DataType::LargeUtf8 => Cell::Str(arr.as_string::<i64>().value(i).to_string()),
        DataType::Utf8View => Cell::Str(arr.as_string_view().value(i).to_string()),
        DataType::Binary => Cell::Bin(arr.as_binary::<i32>().value(i).to_vec()),
        DataType::LargeBinary => Cell::Bin(arr.as_binary::<i64>().value(i).to_vec()),
        DataType::BinaryView => Cell::Bin(arr.as_binary_view().value(i).to_vec()),
        DataType::FixedSizeBinary(_) => Cell::Bin(arr.as_fixed_size_binary().value(i).to_vec()),
        DataType::List(_) => {
            let v = arr.as_list::<i32>().value(i);
            Cell::List((0..v.len()).map(|j| cell_at(v.as_ref(), j)).collect())
        }
        DataType::LargeList(_) => {
            let v = arr.as_list::<i64>().value(i);
            Cell::List((0..v.len()).map(|j| cell_at(v.as_ref(), j)).collect())
        }
        DataType::FixedSizeList(_, _) => {
            let v = arr.as_fixed_size_list().value(i);
            Cell::List((0..v.len()).map(|j| cell_at(v.as_ref(), j)).collect())
        }
        DataType::Struct(fields) => {
            let s = arr.as_struct();
            Cell::Struct(
                fields
                    .iter()
                    .enumerate()
                    .map(|(k, f)| (f.name().clone(), cell_at(s.column(k).as_ref(), i)))
                    .collect(),
            )
        }
        DataType::Dictionary(_, _) => {
            let d = arr.as_any_dictionary();
            let keys = d.normalized_keys();
            cell_at(d.values().as_ref(), keys[i])
        }
        _ => {
            let f = arrow::util::display::ArrayFormatter::try_new(
                arr,
                &arrow::util::display::FormatOptions::default(),
            );
            match f {
                Ok(f) => Cell::Other(f.value(i).to_string()),
                Err(_) => Cell::Other(format!("{:?}", arr.data_type())),
            }
        }
    }
}

pub fn batch_to_rows(b: &RecordBatch) -> Vec<Row> {
    let n = b.num_rows();
    let mut rows = vec![Vec::with_capacity(b.num_columns()); n];
    for c in b.columns() {
        for (i, row) in rows.iter_mut().enumerate() {
            row.push(cell_at(c.as_ref(), i));
        }
    }
    rows
}

pub fn batches_to_rows(bs: &[RecordBatch]) -> Vec<Row> {
    bs.iter().flat_map(batch_to_rows).collect()
}

// -------------------------------------------------------------------------------------------
// generators
// -------------------------------------------------------------------------------------------

#[derive(Clone, Debug, PartialEq)]
pub enum ColTy {
    I8,
    I16,
    I32,
    I64,
    U8,
    U16,
    U32,
    U64,
    F32,
    F64,
    Bool,
    Utf8,
    LargeUtf8,
    Binary,
    Date32,
    TsMicro,
    Dec128(u8, i8),
    FslF32(i32),
    ListI32,
    StructIS,
    DictUtf8,
}

impl ColTy {
    pub fn arrow(&self) -> DataType {
        match self {
            ColTy::I8 => DataType::Int8,
            ColTy::I16 => DataType::Int16,
            ColTy::I32 => DataType::Int32,
            ColTy::I64 => DataType::Int64,
            ColTy::U8 => DataType::UInt8,
            ColTy::U16 => DataType::UInt16,
            ColTy::U32 => DataType::UInt32,
            ColTy::U64 => DataType::UInt64,
            ColTy::F32 => DataType::Float32,
            ColTy::F64 => DataType::Float64,
            ColTy::Bool => DataType::Boolean,
            ColTy::Utf8 => DataType::Utf8,
            ColTy::LargeUtf8 => DataType::LargeUtf8,
            ColTy::Binary => DataType::Binary,
            ColTy::Date32 => DataType::Date32,
            ColTy::TsMicro => DataType::Timestamp(TimeUnit::Microsecond, None),
            ColTy::Dec128(p, s) => DataType::Decimal128(*p, *s),
            ColTy::FslF32(d) => {
                DataType::FixedSizeList(Arc::new(Field::new("item", DataType::Float32, true)), *d)
            }
            ColTy::ListI32 => DataType::List(Arc::new(Field::new("item", DataType::Int32, true))),
            ColTy::StructIS => DataType::Struct(
                vec![
                    Field::new("a", DataType::Int32, true),
                    Field::new("s", DataType::Utf8, true),
                ]
                .into(),
            ),
            ColTy::DictUtf8 => {
                DataType::Dictionary(Box::new(DataType::Int32), Box::new(DataType::Utf8))
            }
        }
    }
    pub fn scalar_pool() -> Vec<ColTy> {
        vec![
            ColTy::I8,
            ColTy::I16,
            ColTy::I32,
            ColTy::I64,
            ColTy::U8,
            ColTy::U16,
            ColTy::U32,
            ColTy::U64,
            ColTy::F32,
            ColTy::F64,
            ColTy::Bool,
            ColTy::Utf8,
            ColTy::LargeUtf8,
            ColTy::Binary,
            ColTy::Date32,
            ColTy::TsMicro,
        ]
    }
}

#[derive(Clone, Debug)]
pub struct ColSpec {
    pub name: String,
    pub ty: ColTy,
    pub nullable: bool,
    /// nulls per 8 rows (0..=8) when nullable
    pub null_eighths: u8,
    /// values are drawn from a small domain (good for predicates / keys) when true
    pub small_domain: bool,
}

#[derive(Clone, Debug)]
pub struct TableSpec {
    pub cols: Vec<ColSpec>,
}

pub const WORDS: &[&str] = &[
    "", "a", "b", "ab", "abc", "zeta", "Alpha", "é", "日本", "x y", "lance", "0", "null", "%_",
];

impl TableSpec {
    /// `id: Int64 NOT NULL` followed by `extra` random columns from `pool`.
    pub fn random(rng: &mut Rng, pool: &[ColTy], extra: usize) -> Self {
        let mut cols = vec![];
        for i in 0..extra {
            let ty = rng.pick(pool).clone();
            let nullable = rng.bool();
            cols.push(ColSpec {
                name: format!("c{i}"),
                ty,
                nullable,
                null_eighths: *rng.pick(&[0u8, 1, 4, 8]),
                small_domain: rng.chance(2, 3),
            });
        }
        Self { cols }
    }
    pub fn simple(cols: &[(&str, ColTy, bool)]) -> Self {
        Self {
            cols: cols
                .iter()
                .map(|(n, t, nullable)| ColSpec {
                    name: n.to_string(),
                    ty: t.clone(),
                    nullable: *nullable,
                    null_eighths: if *nullable { 2 } else { 0 },
                    small_domain: true,
                })
                .collect(),
        }
    }
    pub fn schema(&self) -> SchemaRef {
        let mut f = vec![Field::new("id", DataType::Int64, false)];
        for c in &self.cols {
            f.push(Field::new(&c.name, c.ty.arrow(), c.nullable));
        }
        Arc::new(Schema::new(f))
    }
    pub fn describe(&self) -> String {
        self.cols
            .iter()
            .map(|c| {
                format!(
                    "{}:{:?}{}",
                    c.name,
                    c.ty,
                    if c.nullable {
                        format!("?{}", c.null_eighths)
                    } else {
                        "".into()
                    }
                )
            })
            .collect::<Vec<_>>()
            .join(",")
    }
    /// Batch with the given ids (column 0) and random values elsewhere.
    pub fn batch(&self, rng: &mut Rng, ids: &[i64]) -> RecordBatch {
        let n = ids.len();
        let mut arrays: Vec<ArrayRef> = vec![Arc::new(Int64Array::from(ids.to_vec()))];
        for c in &self.cols {
            arrays.push(gen_column(rng, c, n));
        }
        RecordBatch::try_new(self.schema(), arrays).expect("generated batch")
    }
}

fn is_null(rng: &mut Rng, c: &ColSpec) -> bool {
    c.nullable && rng.below(8) < c.null_eighths as u64
}

fn gen_int(rng: &mut Rng, lo: i128, hi: i128, small: bool) -> i128 {
    if small {
        let v = rng.range(-3, 12) as i128;
        return v.clamp(lo, hi);
    }
    match rng.below(8) {
        0 => lo,
        1 => hi,
        2 => 0i128.clamp(lo, hi),
        3 => (lo + 1).min(hi),
        4 => (hi - 1).max(lo),
        _ => {
            let span = (hi - lo) as u128;
            let r = ((rng.next_u64() as u128) << 64 | rng.next_u64() as u128) % (span + 1);
            lo + r as i128
        }
    }
}

pub fn gen_f64(rng: &mut Rng, small: bool) -> f64 {
    if small {
        return *rng.pick(&[0.0, 1.0, -1.0, 2.5, 3.0, 10.0, -0.0, 100.25]);
    }
    match rng.below(12) {
        0 => f64::NAN,
        1 => f64::INFINITY,
        2 => f64::NEG_INFINITY,
        3 => 0.0,
        4 => -0.0,
        5 => f64::MIN_POSITIVE / 4.0,
        6 => 1e30,
        7 => -1e-30,
        _ => (rng.f64() - 0.5) * 2000.0,
    }
}

pub fn gen_string(rng: &mut Rng, small: bool) -> String {
    if small || rng.chance(1, 2) {
        rng.pick(WORDS).to_string()
    } else {
        let n = rng.urange(0, 40);
        (0..n)
            .map(|_| *rng.pick(&['a', 'b', 'z', ' ', 'é', '日', '0', '_', 'Q']))
            .collect()
    }
}

pub fn gen_column(rng: &mut Rng, c: &ColSpec, n: usize) -> ArrayRef {
    macro_rules! ints {
        ($b:ty, $t:ty) => {{
            let mut b = <$b>::with_capacity(n);
            for _ in 0..n {
                if is_null(rng, c) {
                    b.append_null();
                } else {
                    b.append_value(
                        gen_int(rng, <$t>::MIN as i128, <$t>::MAX as i128, c.small_domain) as $t,
                    );
                }
            }
            Arc::new(b.finish()) as ArrayRef
        }};
    }
    match &c.ty {
        ColTy::I8 => ints!(Int8Builder, i8),
        ColTy::I16 => ints!(Int16Builder, i16),
        ColTy::I32 => ints!(Int32Builder, i32),
        ColTy::I64 => ints!(Int64Builder, i64),
        ColTy::U8 => ints!(UInt8Builder, u8),
        ColTy::U16 => ints!(UInt16Builder, u16),
        ColTy::U32 => ints!(UInt32Builder, u32),
        ColTy::U64 => ints!(UInt64Builder, u64),
        ColTy::Date32 => {
            let mut b = Date32Builder::with_capacity(n);
            for _ in 0..n {
                if is_null(rng, c) {
                    b.append_null();
                } else {
                    b.append_value(gen_int(rng, -100_000, 100_000, c.small_domain) as i32);
                }
            }
            Arc::new(b.finish())
        }
        ColTy::TsMicro => {
            let mut b = TimestampMicrosecondBuilder::with_capacity(n);
            for _ in 0..n {
                if is_null(rng, c) {
                    b.append_null();
                } else {
                    b.append_value(
                        gen_int(rng, -4_000_000_000_000_000, 4_000_000_000_000_000, c.small_domain)
                            as i64,
                    );
                }
            }
            Arc::new(b.finish())
        }
        ColTy::Dec128(p, s) => {
            let mut b = Decimal128Builder::with_capacity(n);
            let max = 10i128.pow(*p as u32) - 1;
            for _ in 0..n {
                if is_null(rng, c) {
                    b.append_null();
                } else {
                    b.append_value(gen_int(rng, -max, max, c.small_domain));
                }
            }
            Arc::new(b.finish().with_precision_and_scale(*p, *s).unwrap())
        }
        ColTy::F32 => {
            let mut b = Float32Builder::with_capacity(n);
            for _ in 0..n {
                if is_null(rng, c) {
                    b.append_null();
                } else {
                    b.append_value(gen_f64(rng, c.small_domain) as f32);
                }
            }
            Arc::new(b.finish())
        }
        ColTy::F64 => {
            let mut b = Float64Builder::with_capacity(n);
            for _ in 0..n {
                if is_null(rng, c) {
                    b.append_null();
                } else {
                    b.append_value(gen_f64(rng, c.small_domain));
                }
            }
            Arc::new(b.finish())
        }
        ColTy::Bool => {
            let mut b = BooleanBuilder::with_capacity(n);
            for _ in 0..n {
                if is_null(rng, c) {
                    b.append_null();
                } else {
                    b.append_value(rng.bool());
                }
            }
            Arc::new(b.finish())
        }
        ColTy::Utf8 => {
            let mut b = StringBuilder::new();
            for _ in 0..n {
                if is_null(rng, c) {
                    b.append_null();
                } else {
                    b.append_value(gen_string(rng, c.small_domain));
                }
            }
            Arc::new(b.finish())
        }
        ColTy::LargeUtf8 => {
            let mut b = LargeStringBuilder::new();
            for _ in 0..n {
                if is_null(rng, c) {
                    b.append_null();
                } else {
                    b.append_value(gen_string(rng, c.small_domain));
                }
            }
            Arc::new(b.finish())
        }
        ColTy::Binary => {
            let mut b = BinaryBuilder::new();
            for _ in 0..n {
                if is_null(rng, c) {
                    b.append_null();
                } else {
                    let len = rng.urange(0, 12);
                    b.append_value(rng.bytes(len));
                }
            }
            Arc::new(b.finish())
        }
        ColTy::FslF32(d) => {
            let mut b = FixedSizeListBuilder::new(Float32Builder::new(), *d);
            for _ in 0..n {
                let null = is_null(rng, c);
                for _ in 0..*d {
                    b.values().append_value(if null {
                        0.0
                    } else {
                        (rng.f64() * 8.0 - 4.0) as f32
                    });
                }
                b.append(!null);
            }
            Arc::new(b.finish())
        }
        ColTy::ListI32 => {
            let mut b = ListBuilder::new(Int32Builder::new());
            for _ in 0..n {
                if is_null(rng, c) {
                    b.append_null();
                } else {
                    let len = rng.urange(0, 4);
                    for _ in 0..len {
                        if rng.chance(1, 6) {
                            b.values().append_null();
                        } else {
                            b.values().append_value(rng.range(-5, 5) as i32);
                        }
                    }
                    b.append(true);
                }
            }
            Arc::new(b.finish())
        }
        ColTy::StructIS => {
            let mut a = Int32Builder::new();
            let mut s = StringBuilder::new();
            let mut valid = vec![];
            for _ in 0..n {
                let null = is_null(rng, c);
                valid.push(!null);
                if null || rng.chance(1, 5) {
                    a.append_null();
                } else {
                    a.append_value(rng.range(-5, 5) as i32);
                }
                if null || rng.chance(1, 5) {
                    s.append_null();
                } else {
                    s.append_value(gen_string(rng, true));
                }
            }
            let fields = match c.ty.arrow() {
                DataType::Struct(f) => f,
                _ => unreachable!(),
            };
            let nulls = if c.nullable {
                Some(arrow_buffer::NullBuffer::from(valid))
            } else {
                None
            };
            Arc::new(StructArray::new(
                fields,
                vec![Arc::new(a.finish()), Arc::new(s.finish())],
                nulls,
            ))
        }
        ColTy::DictUtf8 => {
            let mut b = StringDictionaryBuilder::<Int32Type>::new();
            for _ in 0..n {
                if is_null(rng, c) {
                    b.append_null();
                } else {
                    b.append_value(gen_string(rng, true));
                }
            }
            Arc::new(b.finish())
        }
    }
}

/// Monotone id allocator; ids are globally unique per world and never reused. The writer id goes
/// in the high bits so concurrent writers never collide.
#[derive(Clone, Debug)]
pub struct IdAlloc {
    next: i64,
    base: i64,
}

impl IdAlloc {
    pub fn new(writer: usize) -> Self {
        Self {
            next: 0,
            base: (writer as i64) << 40,
        }
    }
    pub fn take(&mut self, n: usize) -> Vec<i64> {
        let v: Vec<i64> = (0..n as i64).map(|i| self.base + self.next + i).collect();
        self.next += n as i64;
        v
    }
}

// -------------------------------------------------------------------------------------------
// dataset access helpers
// -------------------------------------------------------------------------------------------

/// How one "process" reaches the table: its own store handle, session and commit handler.
#[derive(Clone)]
pub struct Actor {
    pub store: Arc<ActorStore>,
    pub session: Arc<Session>,
    pub commit_handler: Option<Arc<dyn CommitHandler>>,
}

impl Actor {
    pub fn new(store: Arc<ActorStore>) -> Self {
        Self {
            store,
            session: Arc::new(Session::default()),
            commit_handler: None,
        }
    }
    pub fn with_commit_handler(mut self, h: Arc<dyn CommitHandler>) -> Self {
        self.commit_handler = Some(h);
        self
    }
    /// "Reboot": same storage identity, fresh caches.
    pub fn fresh_session(&self) -> Self {
        Self {
            store: self.store.clone(),
            session: Arc::new(Session::default()),
            commit_handler: self.commit_handler.clone(),
        }
    }
    pub fn store_params(&self) -> ObjectStoreParams {
        ObjectStoreParams {
            object_store_wrapper: Some(self.store.wrapper()),
            ..Default::default()
        }
    }
    pub fn write_params(&self, mode: WriteMode) -> WriteParams {
        WriteParams {
            mode,
            store_params: Some(self.store_params()),
            commit_handler: self.commit_handler.clone(),
            session: Some(self.session.clone()),
            ..Default::default()
        }
    }
    pub fn read_params(&self) -> ReadParams {
        ReadParams {
            store_options: Some(self.store_params()),
            commit_handler: self.commit_handler.clone(),
            session: Some(self.session.clone()),
            ..Default::default()
        }
    }
    pub async fn open(&self, uri: &str) -> lance::Result<Dataset> {
        lance::dataset::builder::DatasetBuilder::from_uri(uri)
            .with_read_params(self.read_params())
            .load()
            .await
    }
    pub async fn open_version(&self, uri: &str, v: u64) -> lance::Result<Dataset> {
        lance::dataset::builder::DatasetBuilder::from_uri(uri)
            .with_read_params(self.read_params())
            .with_version(v)
            .load()
            .await
    }
    pub async fn write(
        &self,
        uri: &str,
        batches: Vec<RecordBatch>,
        params: WriteParams,
    ) -> lance::Result<Dataset> {
        let schema = batches[0].schema();
        let reader = RecordBatchIterator::new(batches.into_iter().map(Ok), schema);
        Dataset::write(reader, uri, Some(params)).await
    }
}

#[derive(Clone, Debug, Default)]
pub struct ScanOpts {
    pub with_row_id: bool,
    pub with_row_addr: bool,
    pub ordered: bool,
    pub filter: Option<String>,
    pub columns: Option<Vec<String>>,
}

pub async fn scan_batches(ds: &Dataset, o: &ScanOpts) -> lance::Result<Vec<RecordBatch>> {
    let mut s = ds.scan();
    if o.with_row_id {
        s.with_row_id();
    }
    if o.with_row_addr {
        s.with_row_address();
    }
    if o.ordered {
        s.scan_in_order(true);
    }
    if let Some(f) = &o.filter {
        s.filter(f)?;
    }
    if let Some(c) = &o.columns {
        s.project(c)?;
    }
    s.try_into_stream().await?.try_collect().await
}

/// Scan to model rows (column order of the scan output; names returned alongside).
pub async fn scan_rows(ds: &Dataset, o: &ScanOpts) -> lance::Result<(Vec<String>, Vec<Row>)> {
    let bs = scan_batches(ds, o).await?;
    let names = if let Some(b) = bs.first() {
        b.schema().fields().iter().map(|f| f.name().clone()).collect()
    } else {
        vec![]
    };
    Ok((names, batches_to_rows(&bs)))
}

/// Rows keyed by primary key `id` (column named "id" must be present). Err(duplicate id) if an id
/// appears twice — with unique ids that is already a violation of several properties.
pub fn key_rows(names: &[String], rows: Vec<Row>) -> Result<BTreeMap<i64, Row>, i64> {
    let k = names.iter().position(|n| n == "id").expect("id column");
    let mut m = BTreeMap::new();
    for r in rows {
        let id = r[k].as_i64().expect("id not null");
        if m.insert(id, r).is_some() {
            return Err(id);
        }
    }
    Ok(m)
}
