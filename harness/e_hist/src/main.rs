//! Engine binary `e_hist`: one module per property. See /verif/DESIGN.md.
use vmon::report::parse_args;

mod hist;
mod probe;
mod snap;
mod walker;

mod c05;
mod c06;
mod c07;
mod c08;
mod c09;
mod c38;
mod c42;

fn main() {
    let args = parse_args();
    let code = match args.prop.as_str() {
        "PROBE" => probe::run(&args),
        "C05" => c05::run(&args),
        "C06" => c06::run(&args),
        "C07" => c07::run(&args),
        "C08" => c08::run(&args),
        "C09" => c09::run(&args),
        "C38" => c38::run(&args),
        "C42" => c42::run(&args),
        other => {
            eprintln!("HARNESS-ERROR e_hist does not serve property '{other}'");
            2
        }
    };
    std::process::exit(code);
}
