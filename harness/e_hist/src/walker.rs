//! Independent structural walker over one checked-out version (C05 monitor) and recomputation of
//! the set of objects a manifest references (C08/C09 oracles).
//!
//! Nothing here calls `Dataset::validate` to *decide* an invariant: deletion files and row-id
//! sequences are read as raw bytes from the backing store and decoded here, data files are opened
//! one by one with the file reader. `validate()` / full scan are run in addition, as the property
//! demands that they succeed.

use arrow_array::cast::AsArray;
use arrow_array::types::UInt32Type;
use bytes::Bytes;
use futures::TryStreamExt;
use lance::Dataset;
use lance_core::cache::LanceCache;
use lance_core::datatypes::Field;
use lance_encoding::decoder::DecoderPlugins;
use lance_file::reader::{FileReader, FileReaderOptions};
use lance_index::DatasetIndexExt;
use lance_io::scheduler::{ScanScheduler, SchedulerConfig};
use lance_io::utils::CachedFileSize;
use lance_table::format::{DeletionFileType, Fragment, RowIdMeta};
use object_store::path::Path;
use std::collections::{BTreeMap, BTreeSet, HashMap, HashSet};
use std::sync::Arc;
use vmon::store::World;

/// Raw byte access to the bucket, bypassing Lance (memory world or the local filesystem).
#[derive(Clone)]
pub enum RawStore {
    World(Arc<World>),
    Fs,
}

impl RawStore {
    pub async fn read(&self, path: &str) -> Option<Bytes> {
        match self {
            RawStore::World(w) => w.read(path).await,
            RawStore::Fs => std::fs::read(format!("/{}", path.trim_start_matches('/')))
                .ok()
                .map(Bytes::from),
        }
    }
}

/// `memory://t0/tree/a` -> `t0/tree/a`; `/tmp/x` or `file:///tmp/x` -> `tmp/x`
pub fn uri_to_path(uri: &str) -> String {
    let s = if let Some(r) = uri.strip_prefix("memory://") {
        r
    } else if let Some(r) = uri.strip_prefix("file://") {
        r
    } else {
        uri
    };
    s.trim_matches('/').to_string()
}

/// Objects one manifest references (full object-store paths as strings).
#[derive(Clone, Debug, Default, PartialEq, Eq)]
pub struct RefSet {
    pub manifest: String,
    pub data: BTreeSet<String>,
    pub deletions: BTreeSet<String>,
    /// index directories, without trailing slash
    pub index_dirs: BTreeSet<String>,
    pub txn: Option<String>,
}

impl RefSet {
    pub fn references(&self, path: &str) -> Option<&'static str> {
        if self.manifest == path {
            return Some("manifest");
        }
        if self.data.contains(path) {
            return Some("data");
        }
        if self.deletions.contains(path) {
            return Some("deletion");
        }
        if self.txn.as_deref() == Some(path) {
            return Some("transaction");
        }
        for d in &self.index_dirs {
            if path.len() > d.len() && path.starts_with(d.as_str()) && path.as_bytes()[d.len()] == b'/' {
                return Some("index");
            }
        }
        None
    }
    pub fn n_objects(&self) -> usize {
        1 + self.data.len() + self.deletions.len() + self.index_dirs.len() + self.txn.iter().count()
    }
}

#[derive(Clone, Debug, PartialEq, Eq)]
pub struct FragInfo {
    pub id: u64,
    pub physical_rows: Option<usize>,
    pub deleted: Vec<u32>,
    pub row_ids: Option<Vec<u64>>,
    pub n_files: usize,
    /// data file paths (relative, as stored)
    pub files: Vec<String>,
}

#[derive(Clone, Debug, Default)]
pub struct WalkOut {
    /// (narrow signature, detail)
    pub problems: Vec<(String, String)>,
    pub frags: Vec<FragInfo>,
    pub refs: RefSet,
    pub data_files_opened: u64,
    pub deletion_files_read: u64,
    pub rowid_seqs_decoded: u64,
    pub index_segments: u64,
    pub live_rows: u64,
    pub view: Option<View>,
}

fn pre_order<'a>(f: &'a Field, out: &mut Vec<&'a Field>) {
    out.push(f);
    for c in &f.children {
        pre_order(c, out);
    }
}

fn base_root(ds: &Dataset, base_id: Option<u32>) -> Result<(String, bool), String> {
    match base_id {
        None => Ok((ds.branch_location().path.to_string(), true)),
        Some(id) => {
            let bp = ds
                .manifest()
                .base_paths
                .get(&id)
                .ok_or_else(|| format!("base id {id} not in manifest.base_paths"))?;
            Ok((uri_to_path(&bp.path), bp.is_dataset_root))
        }
    }
}

pub fn data_file_path(ds: &Dataset, base_id: Option<u32>, rel: &str) -> Result<String, String> {
    let (root, is_root) = base_root(ds, base_id)?;
    Ok(if is_root {
        format!("{root}/data/{rel}")
    } else {
        format!("{root}/{rel}")
    })
}

pub fn deletion_path(ds: &Dataset, frag: &Fragment) -> Result<Option<String>, String> {
    let Some(d) = &frag.deletion_file else {
        return Ok(None);
    };
    let (root, _) = base_root(ds, d.base_id)?;
    let ext = match d.file_type {
        DeletionFileType::Array => "arrow",
        DeletionFileType::Bitmap => "bin",
    };
    Ok(Some(format!(
        "{root}/_deletions/{}-{}-{}.{ext}",
        frag.id, d.read_version, d.id
    )))
}

/// Decode a deletion file from raw bytes (own decoder: Arrow IPC file with one UInt32 column, or a
/// serialized roaring bitmap).
pub fn decode_deletion(bytes: &[u8], ty: &DeletionFileType) -> Result<Vec<u32>, String> {
    match ty {
        DeletionFileType::Array => {
            let cur = std::io::Cursor::new(bytes.to_vec());
            let rd = arrow::ipc::reader::FileReader::try_new(cur, None).map_err(|e| e.to_string())?;
            let mut out = vec![];
            for b in rd {
                let b = b.map_err(|e| e.to_string())?;
                if b.num_columns() != 1 {
                    return Err("deletion file with != 1 column".into());
                }
                let a = b.column(0);
                if a.null_count() > 0 {
                    return Err("null in deletion file".into());
                }
                let a = a
                    .as_primitive_opt::<UInt32Type>()
                    .ok_or("deletion column is not u32")?;
                out.extend(a.values().iter().copied());
            }
            Ok(out)
        }
        DeletionFileType::Bitmap => {
            let bm = roaring::RoaringBitmap::deserialize_from(bytes).map_err(|e| e.to_string())?;
            Ok(bm.iter().collect())
        }
    }
}

async fn data_file_rows(ds: &Dataset, frag: &Fragment, idx: usize, path: &str) -> Result<u64, String> {
    let df = &frag.files[idx];
    let store = Arc::new(ds.object_store().clone());
    let p = Path::parse(path).map_err(|e| e.to_string())?;
    if df.is_legacy_file() {
        let max_field_id = df.fields.iter().copied().max().unwrap_or(0);
        let off = df.fields.first().copied().unwrap_or(0);
        let r = lance_file::previous::reader::FileReader::try_new_with_fragment_id(
            &store,
            &p,
            ds.schema().clone(),
            frag.id as u32,
            off,
            max_field_id,
            None,
        )
        .await
        .map_err(|e| e.to_string())?;
        Ok(r.len() as u64)
    } else {
        let sched = ScanScheduler::new(store.clone(), SchedulerConfig::max_bandwidth(&store));
        let fs = sched
            .open_file(&p, &CachedFileSize::unknown())
            .await
            .map_err(|e| e.to_string())?;
        let r = FileReader::try_open(
            fs,
            None,
            Arc::<DecoderPlugins>::default(),
            &LanceCache::no_cache(),
            FileReaderOptions::default(),
        )
        .await
        .map_err(|e| e.to_string())?;
        Ok(r.num_rows())
    }
}

/// What the walker observed of one version (everything the structural invariants talk about).
#[derive(Clone, Debug, Default)]
pub struct View {
    /// pre-order (field id, name)
    pub schema_fields: Vec<(i32, String)>,
    /// field ids declared NOT NULL
    pub non_nullable: Vec<i32>,
    pub frags: Vec<FragView>,
    pub max_fragment_id: Option<u32>,
    pub next_row_id: u64,
    pub stable_row_ids: bool,
    pub indices: Vec<IdxView>,
}

#[derive(Clone, Debug, Default)]
pub struct FileView {
    pub path: String,
    pub fields: Vec<i32>,
    pub n_column_indices: usize,
    pub legacy: bool,
    /// row count read from the file itself (deep walks only)
    pub rows: Option<u64>,
}

#[derive(Clone, Debug, Default)]
pub struct FragView {
    pub id: u64,
    pub physical_rows: Option<usize>,
    pub files: Vec<FileView>,
    /// (offsets as stored, num_deleted_rows recorded in the manifest)
    pub deletion: Option<(Vec<u32>, Option<usize>)>,
    pub has_row_id_meta: bool,
    pub row_ids: Option<Vec<u64>>,
}

#[derive(Clone, Debug, Default)]
pub struct IdxView {
    pub name: String,
    pub uuid: String,
    pub fields: Vec<i32>,
    pub bitmap: Option<Vec<u32>>,
}

/// The structural invariants of C05 over an observed view (pure; the selftest corrupts views).
pub fn check_view(v: &View) -> Vec<(String, String)> {
    let mut out: Vec<(String, String)> = vec![];
    let mut bad = |sig: &str, detail: String| out.push((sig.to_string(), detail));
    let mut seen: HashMap<i32, &str> = HashMap::new();
    for (id, name) in &v.schema_fields {
        if *id < 0 {
            bad("schema-field-id-negative", format!("field {name} has id {id}"));
        }
        if let Some(prev) = seen.insert(*id, name.as_str()) {
            bad(
                "schema-field-id-duplicate",
                format!("field id {id} used by '{prev}' and '{name}'"),
            );
        }
    }
    let schema_ids: HashSet<i32> = v.schema_fields.iter().map(|f| f.0).collect();
    let mut prev_id: Option<u64> = None;
    let mut live_rowids: HashMap<u64, (u64, usize)> = HashMap::new();
    for frag in &v.frags {
        if let Some(p) = prev_id {
            if frag.id <= p {
                bad(
                    "fragment-ids-not-strictly-increasing",
                    format!("fragment {} after {}", frag.id, p),
                );
            }
        }
        prev_id = Some(frag.id);
        match v.max_fragment_id {
            Some(mx) if frag.id > mx as u64 => bad(
                "fragment-id-above-max_fragment_id",
                format!("fragment {} > max_fragment_id {}", frag.id, mx),
            ),
            None => bad(
                "max_fragment_id-missing",
                format!("fragment {} present but max_fragment_id is None", frag.id),
            ),
            _ => {}
        }
        if frag.files.is_empty() {
            bad("fragment-without-files", format!("fragment {}", frag.id));
        }
        let mut by_field: HashMap<i32, usize> = HashMap::new();
        for (i, df) in frag.files.iter().enumerate() {
            for fid in &df.fields {
                if *fid < 0 {
                    continue; // tombstoned
                }
                if let Some(j) = by_field.insert(*fid, i) {
                    bad(
                        "field-stored-by-two-data-files",
                        format!(
                            "fragment {} field {} in files #{} ({}) and #{} ({})",
                            frag.id, fid, j, frag.files[j].path, i, df.path
                        ),
                    );
                }
            }
            if !df.legacy && df.fields.len() != df.n_column_indices {
                bad(
                    "datafile-fields-vs-column-indices",
                    format!("fragment {} file {}", frag.id, df.path),
                );
            }
            if let Some(n) = df.rows {
                if Some(n as usize) != frag.physical_rows {
                    bad(
                        "datafile-rows-ne-physical_rows",
                        format!(
                            "fragment {} file {} has {} rows, physical_rows {:?}",
                            frag.id, df.path, n, frag.physical_rows
                        ),
                    );
                }
            }
        }
        if frag.physical_rows.is_none() {
            bad("physical_rows-missing", format!("fragment {}", frag.id));
        }
        let phys = frag.physical_rows.unwrap_or(0);
        let mut del: HashSet<u32> = HashSet::new();
        if let Some((offs, recorded)) = &frag.deletion {
            for o in offs {
                if !del.insert(*o) {
                    bad(
                        "deletion-vector-duplicate-offsets",
                        format!("fragment {} offset {}", frag.id, o),
                    );
                }
                if *o as usize >= phys {
                    bad(
                        "deletion-offset-out-of-range",
                        format!("fragment {} offset {} >= physical_rows {}", frag.id, o, phys),
                    );
                }
            }
            if let Some(n) = recorded {
                if *n != del.len() {
                    bad(
                        "deletion-count-ne-num_deleted_rows",
                        format!(
                            "fragment {} vector has {} offsets, num_deleted_rows {}",
                            frag.id,
                            del.len(),
                            n
                        ),
                    );
                }
            }
        }
        if v.stable_row_ids {
            if !frag.has_row_id_meta {
                bad("row_id_meta-missing", format!("fragment {}", frag.id));
            }
            if let Some(ids) = &frag.row_ids {
                if ids.len() != phys {
                    bad(
                        "rowid-count-ne-physical_rows",
                        format!(
                            "fragment {} has {} row ids, physical_rows {}",
                            frag.id,
                            ids.len(),
                            phys
                        ),
                    );
                }
                for (pos, rid) in ids.iter().enumerate() {
                    if del.contains(&(pos as u32)) {
                        continue;
                    }
                    if *rid >= v.next_row_id {
                        bad(
                            "rowid-not-below-next_row_id",
                            format!(
                                "fragment {} pos {} row id {} >= next_row_id {}",
                                frag.id, pos, rid, v.next_row_id
                            ),
                        );
                    }
                    if let Some((f0, p0)) = live_rowids.insert(*rid, (frag.id, pos)) {
                        bad(
                            "rowid-duplicate-among-live-rows",
                            format!(
                                "row id {} at fragment {} pos {} and fragment {} pos {}",
                                rid, f0, p0, frag.id, pos
                            ),
                        );
                    }
                }
            }
        }
    }
    let mut uuids = HashSet::new();
    let mut by_name: BTreeMap<&str, Vec<&IdxView>> = BTreeMap::new();
    for i in &v.indices {
        if !uuids.insert(i.uuid.as_str()) {
            bad("index-uuid-duplicate", format!("{} {}", i.name, i.uuid));
        }
        for f in &i.fields {
            if !schema_ids.contains(f) {
                bad(
                    "index-field-not-in-schema",
                    format!("index {} ({}) names field id {}", i.name, i.uuid, f),
                );
            }
        }
        if let (Some(bm), Some(mx)) = (&i.bitmap, v.max_fragment_id) {
            if let Some(top) = bm.iter().max() {
                if *top > mx {
                    bad(
                        "index-bitmap-above-max_fragment_id",
                        format!("index {} covers fragment {} > {}", i.name, top, mx),
                    );
                }
            }
        }
        by_name.entry(i.name.as_str()).or_default().push(i);
    }
    for (name, segs) in by_name {
        for a in 0..segs.len() {
            for b in a + 1..segs.len() {
                if let (Some(x), Some(y)) = (&segs[a].bitmap, &segs[b].bitmap) {
                    let xs: HashSet<&u32> = x.iter().collect();
                    let inter: Vec<&u32> = y.iter().filter(|f| xs.contains(f)).collect();
                    if !inter.is_empty() {
                        bad(
                            "index-segment-bitmaps-overlap",
                            format!(
                                "index {} segments {} and {} both cover fragments {:?}",
                                name, segs[a].uuid, segs[b].uuid, inter
                            ),
                        );
                    }
                }
            }
        }
    }
    drop(bad);
    out
}

/// Run a Lance call, turning a panic into an error string prefixed with "panic: ".
pub async fn guard<T, F>(fut: F) -> Result<T, String>
where
    F: std::future::Future<Output = Result<T, String>>,
{
    use futures::FutureExt;
    match std::panic::AssertUnwindSafe(fut).catch_unwind().await {
        Ok(r) => r,
        Err(p) => {
            let msg = p
                .downcast_ref::<String>()
                .cloned()
                .or_else(|| p.downcast_ref::<&str>().map(|s| s.to_string()))
                .unwrap_or_else(|| "panic".into());
            Err(format!("panic: {msg}"))
        }
    }
}

fn sig_of(base: &str, err: &str) -> String {
    if err.starts_with("panic: ") {
        format!("{base}-panic")
    } else {
        format!("{base}-error")
    }
}

/// Walk one version. `deep`: also open every data file, run validate() and a full scan.
pub async fn walk(ds: &Dataset, raw: &RawStore, deep: bool) -> WalkOut {
    let (view, mut out) = observe(ds, raw, deep).await;
    let mut p = check_view(&view);
    out.problems.append(&mut p);
    if deep {
        let live_total = out.live_rows;
        if let Err(e) = guard(async { ds.validate().await.map_err(|e| e.to_string()) }).await {
            out.problems.push((sig_of("validate", &e), e));
        }
        match guard(scan_count_with_rowid(ds)).await {
            Ok(n) => {
                if n != live_total {
                    out.problems.push((
                        "rowid-scan-rows-ne-physical-minus-deleted".into(),
                        format!("ordered scan with _rowid returned {} rows, manifest implies {}", n, live_total),
                    ));
                }
            }
            Err(e) => out.problems.push((sig_of("full-scan-with-rowid", &e), e)),
        }
        match guard(scan_count(ds)).await {
            Ok(n) => {
                if n != live_total {
                    out.problems.push((
                        "scan-rows-ne-physical-minus-deleted".into(),
                        format!("scan returned {} rows, manifest implies {}", n, live_total),
                    ));
                }
            }
            Err(e) => out.problems.push((sig_of("full-scan", &e), e)),
        }
        match guard(async { ds.count_rows(None).await.map_err(|e| e.to_string()) }).await {
            Ok(n) => {
                if n as u64 != live_total {
                    out.problems.push((
                        "count_rows-ne-physical-minus-deleted".into(),
                        format!("count_rows {} vs {}", n, live_total),
                    ));
                }
            }
            Err(e) => out.problems.push((sig_of("count_rows", &e), e)),
        }
    }
    out.view = Some(view);
    out
}

/// Observation step: manifest + raw bytes -> `View` (+ I/O level problems and reference set).
pub async fn observe(ds: &Dataset, raw: &RawStore, deep: bool) -> (View, WalkOut) {
    let mut out = WalkOut::default();
    let m = ds.manifest();
    let mut view = View {
        max_fragment_id: m.max_fragment_id,
        next_row_id: m.next_row_id,
        stable_row_ids: m.uses_stable_row_ids(),
        ..Default::default()
    };
    let mut fields = vec![];
    for f in &ds.schema().fields {
        pre_order(f, &mut fields);
    }
    view.schema_fields = fields.iter().map(|f| (f.id, f.name.clone())).collect();
    view.non_nullable = fields.iter().filter(|f| !f.nullable).map(|f| f.id).collect();
    let mut problems: Vec<(String, String)> = vec![];
    let mut bad = |sig: &str, detail: String| problems.push((sig.to_string(), detail));
    let mut refs = RefSet {
        manifest: ds.manifest_location().path.to_string(),
        ..Default::default()
    };
    if let Some(t) = &m.transaction_file {
        if !t.is_empty() {
            refs.txn = Some(format!("{}/_transactions/{}", ds.branch_location().path, t));
        }
    }
    let mut frag_infos = vec![];
    let mut live_total = 0u64;
    for frag in m.fragments.iter() {
        let mut fv = FragView {
            id: frag.id,
            physical_rows: frag.physical_rows,
            has_row_id_meta: frag.row_id_meta.is_some(),
            ..Default::default()
        };
        for (i, df) in frag.files.iter().enumerate() {
            let mut file = FileView {
                path: df.path.clone(),
                fields: df.fields.clone(),
                n_column_indices: df.column_indices.len(),
                legacy: df.is_legacy_file(),
                rows: None,
            };
            match data_file_path(ds, df.base_id, &df.path) {
                Ok(p) => {
                    if deep {
                        match data_file_rows(ds, frag, i, &p).await {
                            Ok(n) => {
                                out.data_files_opened += 1;
                                file.rows = Some(n);
                            }
                            Err(e) => bad(
                                "datafile-unreadable",
                                format!("fragment {} file {}: {}", frag.id, p, e),
                            ),
                        }
                    }
                    refs.data.insert(p);
                }
                Err(e) => bad("datafile-base-unresolvable", e),
            }
            fv.files.push(file);
        }
        let phys = frag.physical_rows.unwrap_or(0);
        let mut deleted: Vec<u32> = vec![];
        match deletion_path(ds, frag) {
            Ok(Some(p)) => {
                let d = frag.deletion_file.as_ref().unwrap();
                match raw.read(&p).await {
                    Some(bytes) => match decode_deletion(&bytes, &d.file_type) {
                        Ok(v) => {
                            out.deletion_files_read += 1;
                            fv.deletion = Some((v.clone(), d.num_deleted_rows));
                            deleted = v;
                            deleted.sort_unstable();
                            deleted.dedup();
                        }
                        Err(e) => bad(
                            "deletion-file-undecodable",
                            format!("fragment {} file {}: {}", frag.id, p, e),
                        ),
                    },
                    None => bad(
                        "deletion-file-missing",
                        format!("fragment {} file {}", frag.id, p),
                    ),
                }
                refs.deletions.insert(p);
            }
            Ok(None) => {}
            Err(e) => bad("deletion-base-unresolvable", e),
        }
        if view.stable_row_ids {
            if let Some(meta) = &frag.row_id_meta {
                let bytes: Option<Vec<u8>> = match meta {
                    RowIdMeta::Inline(b) => Some(b.clone()),
                    RowIdMeta::External(f) => {
                        let p = format!("{}/{}", ds.branch_location().path, f.path);
                        raw.read(&p).await.and_then(|b| {
                            let s = f.offset as usize;
                            let e = s + f.size as usize;
                            if e <= b.len() {
                                Some(b[s..e].to_vec())
                            } else {
                                None
                            }
                        })
                    }
                };
                match bytes {
                    None => bad("row_id_meta-unreadable", format!("fragment {}", frag.id)),
                    Some(b) => match lance_table::rowids::read_row_ids(&b) {
                        Err(e) => bad(
                            "row_id_meta-undecodable",
                            format!("fragment {}: {}", frag.id, e),
                        ),
                        Ok(seq) => {
                            out.rowid_seqs_decoded += 1;
                            fv.row_ids = Some(seq.iter().collect());
                        }
                    },
                }
            }
        }
        live_total += (phys - deleted.len().min(phys)) as u64;
        frag_infos.push(FragInfo {
            id: frag.id,
            physical_rows: frag.physical_rows,
            deleted,
            row_ids: fv.row_ids.clone(),
            n_files: frag.files.len(),
            files: frag.files.iter().map(|f| f.path.clone()).collect(),
        });
        view.frags.push(fv);
    }
    match guard(async { ds.load_indices().await.map_err(|e| e.to_string()) }).await {
        Err(e) => bad(&sig_of("load_indices", &e), e),
        Ok(idx) => {
            for i in idx.iter() {
                out.index_segments += 1;
                match base_root(ds, i.base_id) {
                    Ok((root, _)) => {
                        refs.index_dirs.insert(format!("{root}/_indices/{}", i.uuid));
                    }
                    Err(e) => bad("index-base-unresolvable", e),
                }
                view.indices.push(IdxView {
                    name: i.name.clone(),
                    uuid: i.uuid.to_string(),
                    fields: i.fields.clone(),
                    bitmap: i.fragment_bitmap.as_ref().map(|b| b.iter().collect()),
                });
            }
        }
    }
    drop(bad);
    out.problems = problems;
    out.frags = frag_infos;
    out.refs = refs;
    out.live_rows = live_total;
    (view, out)
}

async fn scan_count(ds: &Dataset) -> Result<u64, String> {
    let st = ds.scan().try_into_stream().await.map_err(|e| e.to_string())?;
    let bs: Vec<arrow_array::RecordBatch> = st.try_collect().await.map_err(|e| e.to_string())?;
    Ok(bs.iter().map(|b| b.num_rows() as u64).sum())
}

async fn scan_count_with_rowid(ds: &Dataset) -> Result<u64, String> {
    let mut sc = ds.scan();
    sc.with_row_id().scan_in_order(true);
    let st = sc.try_into_stream().await.map_err(|e| e.to_string())?;
    let bs: Vec<arrow_array::RecordBatch> = st.try_collect().await.map_err(|e| e.to_string())?;
    Ok(bs.iter().map(|b| b.num_rows() as u64).sum())
}
