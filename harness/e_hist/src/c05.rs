//! C05 — every committed version is internally well formed.
//!
//! Random histories over the whole op set; after every step every *new* version is walked deeply
//! by the independent structural walker (crate::walker), and at the end of the history every
//! retained version is walked again through a fresh Session.
use crate::hist::{base_weights, Hist, HistCfg, Loc, OpKind};
use crate::walker::{check_view, walk, View};
use serde_json::json;
use vmon::prng::Rng;
use vmon::report::{Args, Report};

pub fn run(args: &Args) -> i32 {
    if args.extra.contains_key("selftest") {
        return selftest(args);
    }
    let report = Report::new(
        args,
        "exploration",
        "case = one seeded history (Rng::for_case(seed,i)) of <=12 (quick) / <=40 (thorough) public write/maintenance ops on a memory:// table (+branches, shallow clones), random storage version and stable-row-id setting; every version it commits is walked by an independent manifest walker. Non-trivial = >=3 ops committed and >=2 versions walked with >=1 deletion file or index or multi-file fragment seen; distinct by (config, op kinds, outcomes).",
        (70, 900),
    )
    .with_min_nontrivial(10);
    let max_ops = args.tier.pick(12usize, 40);
    let max_cases = args.tier.pick(4000u64, 200_000);
    if let Some(c) = args.extra.get("case").and_then(|c| c.parse::<u64>().ok()) {
        // debugging aid: run one case verbosely (evidence goes to the normal place)
        std::env::set_var("E_HIST_VERBOSE", "1");
        let rt = tokio::runtime::Builder::new_current_thread().enable_all().build().unwrap();
        rt.block_on(one_case(args.seed, c, max_ops, &report));
        return report.finish();
    }
    crate::hist::run_parallel(&report, args, 16, max_cases, 120, |i, report| {
        Box::pin(one_case(args.seed, i, max_ops, report))
    });
    report.finish()
}

/// Deep-walk one version; raises violations. Returns whether the version had "interesting" structure.
pub async fn walk_and_report(
    h: &Hist,
    loc: &Loc,
    v: u64,
    ds: &lance::Dataset,
    fresh: bool,
    report: &Report,
    seed: u64,
    case: u64,
) -> bool {
    use futures::FutureExt;
    let what = format!("{}:v{}{}", loc.label(), v, if fresh { " (fresh session)" } else { " (writer session)" });
    let w = match std::panic::AssertUnwindSafe(walk(ds, &h.env.raw(), true)).catch_unwind().await {
        Ok(w) => w,
        Err(p) => {
            let msg = crate::hist::panic_msg(&p);
            let sig = if msg.contains("rewrite group that was a split of indexed and non-indexed data") {
                // narrow class: the frag-reuse index written by a deferred-remap compaction cannot be
                // applied to its own version's index list
                "load_indices-panics-applying-frag-reuse-index-of-deferred-remap-compaction".to_string()
            } else {
                format!(
                    "panic-while-validating-version:{}",
                    msg.chars().filter(|c| c.is_ascii_alphanumeric() || *c == ' ').take(60).collect::<String>()
                )
            };
            report.violation(
                &sig,
                &format!("{what}: panic {msg}"),
                json!({"seed": seed, "case": case, "config": h.cfg.describe(), "version": what, "panic": msg, "ops": h.ops_json(48)}),
            );
            return false;
        }
    };
    report.count("versions_walked", 1);
    report.count("data_files_opened", w.data_files_opened);
    report.count("deletion_files_decoded", w.deletion_files_read);
    report.count("rowid_sequences_decoded", w.rowid_seqs_decoded);
    report.count("index_segments_checked", w.index_segments);
    report.count("fragments_walked", w.frags.len() as u64);
    for (sig, detail) in &w.problems {
        let mut sig = sig.clone();
        if !fresh && (sig == "full-scan-with-rowid-error" || sig == "rowid-scan-rows-ne-physical-minus-deleted") {
            if let Some(s) = classify_rowid_scan_failure(h, loc, v, &w).await {
                sig = s;
            }
        }
        let stale_before = h.steps.iter().any(|s| {
            s.outcome.is_ok() && s.loc.as_ref() == Some(loc) && matches!(s.extra, crate::hist::Extra::Stale { what: "append", .. })
        });
        sig = narrow_class(&sig, detail, w.view.as_ref(), stale_before);
        if sig == "rowid-duplicate-among-live-rows" || sig == "rowid-not-below-next_row_id" {
            // row-id sequences persisted by a rewrite that read them through the session cache:
            // only classified narrowly when this lineage really reused a fragment id before
            if let Some(lin) = h.lin.get(loc) {
                if !lin.reused_fragment_ids().is_empty() && h.cfg.stable_row_ids {
                    sig = format!("{sig}-in-lineage-with-reused-fragment-ids");
                }
            }
        }
        report.violation(
            &sig,
            &format!("{what}: {detail}"),
            json!({"seed": seed, "case": case, "config": h.cfg.describe(), "version": what,
                   "problem": detail, "all_problems": w.problems,
                   "manifest_view": w.view.as_ref().map(|v| json!({"schema_fields": v.schema_fields, "not_null": v.non_nullable,
                        "fragments": v.frags.iter().map(|f| json!({"id": f.id, "rows": f.physical_rows, "files": f.files.iter().map(|d| format!("{:?}", d.fields)).collect::<Vec<_>>()})).collect::<Vec<_>>()})),
                   "ops": h.ops_json(48)}),
        );
    }
    w.deletion_files_read > 0 || w.index_segments > 0 || w.frags.iter().any(|f| f.n_files > 1)
}

/// Narrow, oracle-computed classes for failures whose cause is visible in the observed view.
pub fn narrow_class(sig: &str, detail: &str, view: Option<&View>, stale_append_before: bool) -> String {
    if sig.ends_with("-panic") && detail.contains("rewrite group that was a split of indexed and non-indexed data") {
        // the frag-reuse index written by a deferred-remap compaction cannot be applied to the index
        // list of its own version (load_indices unwraps the error)
        return "load_indices-panics-applying-frag-reuse-index-of-deferred-remap-compaction".into();
    }
    let lacks_field = |only_not_null: bool| -> bool {
        view.map(|view| {
            view.frags.iter().any(|f| {
                view.schema_fields.iter().any(|(id, _)| {
                    (!only_not_null || view.non_nullable.contains(id))
                        && !f.files.iter().any(|df| df.fields.contains(id))
                })
            })
        })
        .unwrap_or(false)
    };
    if sig.ends_with("-panic") && detail.contains("is declared as non-nullable but contains null values") && lacks_field(true) {
        // some fragment stores no data file for a NOT NULL schema field; the reader panics when it
        // null-fills that column
        return "reader-panics-null-filling-not-null-column-absent-from-a-fragment".into();
    }
    let legacy = view.map(|v| v.frags.iter().any(|f| f.files.iter().any(|df| df.legacy))).unwrap_or(false);
    if sig.ends_with("-error") && detail.contains("Cannot mix legacy and non-legacy readers") && legacy && lacks_field(false) {
        // a legacy-format fragment lacks a schema field; the legacy reader cannot be combined with
        // the null-filling reader
        return "scan-fails-legacy-fragment-lacks-a-schema-field".into();
    }
    if sig.starts_with("full-scan") && detail.contains("panicked") && detail.contains("PrimitiveArray data should contain a single buffer") && stale_append_before {
        // same root cause as the other stale-append classes: an append from a stale handle was rebased
        // over schema changes; its data file carries a field id that meanwhile names another column
        // (dropped, files compacted away, id handed out again by add_columns) and is decoded as that type
        return "decoder-panics-on-fragment-appended-from-stale-handle-after-schema-change".into();
    }
    let dead_file = view
        .map(|v| {
            let ids: std::collections::HashSet<i32> = v.schema_fields.iter().map(|f| f.0).collect();
            v.frags.iter().any(|f| f.files.iter().any(|df| !df.fields.iter().any(|i| ids.contains(i))))
        })
        .unwrap_or(false);
    if sig == "validate-error" && detail.contains("did not have any fields in common with the dataset schema") && dead_file {
        // a data file all of whose columns were dropped (add_columns writes one file per new column,
        // drop_columns is metadata only): reads skip it, validate() insists on opening it
        return "validate-rejects-data-file-whose-columns-were-all-dropped".into();
    }
    let tombstones = view.map(|v| v.frags.iter().any(|f| f.files.iter().any(|df| df.fields.iter().any(|i| *i < 0)))).unwrap_or(false);
    if sig.ends_with("-error") && sig.starts_with("full-scan") && legacy && tombstones {
        // legacy-format data file whose first field id was tombstoned by an in-place column rewrite:
        // the reader derives its field-id offset from fields[0] (= -2) and reads the wrong pages
        return "scan-fails-legacy-data-file-with-tombstoned-field-id".into();
    }
    if sig == "validate-error" && detail.contains("is not in increasing order") && detail.contains("Field id -") && tombstones {
        // FileFragment::validate compares every field id with a constant -1 ("let last = -1" is never
        // updated), so any data file that carries a tombstoned (-2) field id fails validation
        return "validate-rejects-data-file-with-tombstoned-field-id".into();
    }
    sig.to_string()
}

/// A scan with `_rowid` failed through the long-lived session. If (a) the same scan through a
/// fresh session succeeds and (b) a fragment id of this version named a *different* fragment
/// (other data files) in an earlier version of the lineage, the failure is the stale per-fragment
/// row-id-sequence cache entry: narrow class.
async fn classify_rowid_scan_failure(h: &Hist, loc: &Loc, v: u64, w: &crate::walker::WalkOut) -> Option<String> {
    let fresh = h.open_at(loc, Some(v), true).await.ok()?;
    let mut sc = fresh.scan();
    sc.with_row_id().scan_in_order(true);
    let st = sc.try_into_stream().await.ok()?;
    use futures::TryStreamExt;
    let bs: Vec<arrow_array::RecordBatch> = st.try_collect().await.ok()?;
    let n: u64 = bs.iter().map(|b| b.num_rows() as u64).sum();
    if n != w.live_rows {
        return None;
    }
    let lin = h.lin.get(loc)?;
    let reused_ids = lin.reused_fragment_ids();
    let reused = w.frags.iter().any(|f| reused_ids.contains(&f.id));
    if reused {
        Some("rowid-scan-fails-only-through-warm-session-after-fragment-id-reuse".into())
    } else {
        None
    }
}

async fn one_case(seed: u64, case: u64, max_ops: usize, report: &Report) {
    let mut rng = Rng::for_case(seed, case);
    let mut cfg = HistCfg::random(&mut rng);
    cfg.partial_upsert_on_legacy = true;
    let n_ops = rng.urange(4, max_ops);
    let weights = base_weights();
    let mut h = Hist::mem(rng.clone(), cfg);
    h.case = case;
    let rec = h.create_table("memory://t0").await;
    if !rec.outcome.is_ok() {
        report.harness_error(&format!("case {case}: create failed: {}", rec.outcome.text()));
        return;
    }
    let mut interesting = false;
    let mut walked = 0u64;
    let mut recs = vec![rec];
    for _ in 0..n_ops {
        if !report.time_left() {
            break;
        }
        let kind: OpKind = *rng.pick_weighted(&weights);
        recs.push(h.step(kind).await);
        let rec = recs.last().unwrap();
        if let crate::hist::Extra::LegacyTombstones { loc } = &rec.extra {
            // Judge from the manifest only (shallow observation: no data file is opened, nothing is
            // scanned) and end the case: scanning such a table in-process can abort the whole check.
            let head = h.lin[loc].head.clone();
            let (view, _) = crate::walker::observe(&head, &h.env.raw(), false).await;
            let hit = view.frags.iter().any(|f| f.files.iter().any(|df| df.legacy && df.fields.iter().any(|i| *i < 0)));
            report.count("legacy_tables_with_tombstoned_field_ids_not_scanned", 1);
            if hit {
                report.violation(
                    "scan-fails-legacy-data-file-with-tombstoned-field-id",
                    &format!("{}:v{}: legacy data file carries a tombstoned (-2) field id after partial-schema merge_insert (judged from the manifest; the version is deliberately not scanned in-process: the legacy reader derives its field-id offset from that id and decodes garbage, up to aborting the process on a huge allocation)", loc.label(), head.manifest().version),
                    json!({"seed": seed, "case": case, "config": h.cfg.describe(), "structural_evidence_only": true,
                           "fragments": view.frags.iter().map(|f| f.files.iter().map(|d| format!("{}:{:?}", d.path, d.fields)).collect::<Vec<_>>()).collect::<Vec<_>>(),
                           "ops": h.ops_json(48)}),
                );
            }
            h.count_ops(report);
            report.case(None);
            return;
        }
        for (loc, v) in rec.new_versions.clone() {
            let Some(lin) = h.lin.get(&loc) else { continue };
            let ds = if lin.latest() == v {
                Ok(lin.head.clone())
            } else {
                lin.head.checkout_version((loc.branch.clone(), Some(v))).await
            };
            match ds {
                Ok(ds) => {
                    interesting |= walk_and_report(&h, &loc, v, &ds, false, report, seed, case).await;
                    walked += 1;
                }
                Err(e) => {
                    report.violation(
                        "new-version-cannot-be-opened",
                        &format!("{}:v{} {}", loc.label(), v, e),
                        json!({"seed": seed, "case": case, "ops": h.ops_json(48)}),
                    );
                }
            }
        }
    }
    // final pass: every retained version of every live lineage through a fresh session
    for loc in h.live_locs() {
        let vs: Vec<u64> = h.lin[&loc].snaps.keys().copied().collect();
        for v in vs {
            match h.open_at(&loc, Some(v), true).await {
                Ok(ds) => {
                    walk_and_report(&h, &loc, v, &ds, true, report, seed, case).await;
                    report.count("versions_rewalked_fresh_session", 1);
                }
                Err(e) => {
                    report.violation(
                        "retained-version-cannot-be-opened",
                        &format!("{}:v{} {}", loc.label(), v, e),
                        json!({"seed": seed, "case": case, "ops": h.ops_json(48)}),
                    );
                }
            }
        }
    }
    if std::env::var("E_HIST_VERBOSE").is_ok() {
        println!("config: {}", h.cfg.describe());
        for s in &h.steps {
            println!("{}", s.brief());
        }
        for p in &h.problems {
            println!("PROBLEM {p}");
        }
        for p in &h.model_disagreements {
            println!("MODEL {p}");
        }
    }
    h.count_ops(report);
    let committed = h.steps.iter().filter(|s| s.outcome.is_ok() && !s.new_versions.is_empty()).count();
    let nontrivial = committed >= 3 && walked >= 2 && interesting;
    report.case(if nontrivial { Some(h.shape_sig()) } else { None });
    for d in h.model_disagreements.iter().take(2) {
        report.count("model_disagreement_samples", 1);
        if report.counter("model_disagreement_samples") <= 3 {
            report.set(
                &format!("model_disagreement_{}", report.counter("model_disagreement_samples")),
                json!({"seed": seed, "case": case, "what": d}),
            );
        }
    }
    for p in h.problems.iter().take(1) {
        if report.counter("engine_problem_samples") < 3 {
            report.count("engine_problem_samples", 1);
            report.set(
                &format!("engine_problem_{}", report.counter("engine_problem_samples")),
                json!({"seed": seed, "case": case, "what": p}),
            );
        }
    }
    if report.want_sample() && nontrivial {
        report.sample(json!({"case": case, "config": h.cfg.describe(), "versions_walked": walked,
                             "lineages": h.live_locs().iter().map(|l| l.label()).collect::<Vec<_>>(),
                             "ops": h.ops_json(14)}));
    }
}

/// Corrupt the *observation* in every way the property rules out and check that the pure oracle
/// flags each with the expected signature.
fn selftest(args: &Args) -> i32 {
    let rt = tokio::runtime::Builder::new_current_thread().enable_all().build().unwrap();
    let view: View = rt.block_on(async {
        // a real history that ends with deletions, an index and stable row ids
        let mut rng = Rng::for_case(args.seed, 0);
        let mut cfg = HistCfg::random(&mut rng);
        cfg.stable_row_ids = true;
        cfg.storage = lance_encoding::version::LanceFileVersion::V2_0;
        let mut h = Hist::mem(rng, cfg);
        h.create_table("memory://t0").await;
        for k in [OpKind::Append, OpKind::DeleteIds, OpKind::Append, OpKind::CreateIndex, OpKind::AddColumn, OpKind::DeleteIds] {
            h.step(k).await;
        }
        let loc = h.live_locs()[0].clone();
        let w = walk(&h.lin[&loc].head, &h.env.raw(), true).await;
        assert!(w.problems.is_empty(), "selftest base history not clean: {:?}", w.problems);
        w.view.unwrap()
    });
    let mut failures = vec![];
    let mut expect = |name: &str, v: &View, sig: &str| {
        let p = check_view(v);
        if !p.iter().any(|(s, _)| s == sig) {
            failures.push(format!("{name}: expected {sig}, got {:?}", p));
        }
    };
    assert!(check_view(&view).is_empty());
    let fi = view.frags.iter().position(|f| f.deletion.is_some()).expect("a fragment with deletions");
    let mut v = view.clone();
    v.schema_fields[1].0 = v.schema_fields[0].0;
    expect("dup field id", &v, "schema-field-id-duplicate");
    let mut v = view.clone();
    let mut extra = v.frags[0].files[0].clone();
    extra.path = "other.lance".into();
    v.frags[0].files.push(extra);
    expect("field in two files", &v, "field-stored-by-two-data-files");
    let mut v = view.clone();
    v.frags[0].files[0].rows = v.frags[0].files[0].rows.map(|r| r + 1);
    expect("row count", &v, "datafile-rows-ne-physical_rows");
    let mut v = view.clone();
    let phys = v.frags[fi].physical_rows.unwrap() as u32;
    v.frags[fi].deletion.as_mut().unwrap().0.push(phys);
    expect("deletion out of range", &v, "deletion-offset-out-of-range");
    let mut v = view.clone();
    let d = v.frags[fi].deletion.as_mut().unwrap();
    d.1 = Some(d.0.len() + 1);
    expect("num_deleted_rows", &v, "deletion-count-ne-num_deleted_rows");
    if view.frags.len() >= 2 {
        let mut v = view.clone();
        v.frags.swap(0, 1);
        expect("fragment order", &v, "fragment-ids-not-strictly-increasing");
    }
    let mut v = view.clone();
    v.max_fragment_id = Some(0);
    v.frags.last_mut().unwrap().id = 5;
    expect("max fragment id", &v, "fragment-id-above-max_fragment_id");
    let mut v = view.clone();
    v.frags[0].row_ids.as_mut().unwrap().pop();
    expect("row id count", &v, "rowid-count-ne-physical_rows");
    let mut v = view.clone();
    // duplicate a live row id
    let live_pos: Vec<usize> = {
        let f = &v.frags[0];
        let del: std::collections::HashSet<u32> = f.deletion.as_ref().map(|d| d.0.iter().copied().collect()).unwrap_or_default();
        (0..f.row_ids.as_ref().unwrap().len()).filter(|p| !del.contains(&(*p as u32))).collect()
    };
    if live_pos.len() >= 2 {
        let ids = v.frags[0].row_ids.as_mut().unwrap();
        ids[live_pos[1]] = ids[live_pos[0]];
        expect("dup row id", &v, "rowid-duplicate-among-live-rows");
    }
    let mut v = view.clone();
    v.next_row_id = 1;
    expect("next_row_id", &v, "rowid-not-below-next_row_id");
    let mut v = view.clone();
    v.indices[0].fields = vec![999];
    expect("index field", &v, "index-field-not-in-schema");
    let mut v = view.clone();
    let mut seg = v.indices[0].clone();
    seg.uuid = "other".into();
    v.indices.push(seg);
    expect("index overlap", &v, "index-segment-bitmaps-overlap");
    if failures.is_empty() {
        println!("SELFTEST C05 ok: 12 corruptions of the observation all flagged");
        0
    } else {
        for f in failures {
            println!("SELFTEST C05 FAILED: {f}");
        }
        2
    }
}
