//! C07 — restore reproduces the old version; row ids stay unique over the whole history.
use crate::hist::{Extra, Hist, HistCfg, Loc, OpKind, Weights};
use crate::snap::Snapshot;
use serde_json::{json, Value};
use std::collections::BTreeMap;
use vmon::prng::Rng;
use vmon::report::{Args, Report};

fn weights() -> Weights {
    use OpKind::*;
    vec![
        (12, Append),
        (5, DeleteIds),
        (2, DeleteVal),
        (6, Update),
        (8, Upsert),
        (8, Compact),
        (3, CreateIndex),
        (1, OptimizeIndices),
        (1, AddColumn),
        (1, DropColumn),
        (1, AlterColumn),
        (1, UpdateConfig),
        (14, Restore),
        (2, ConcurrentDeletes),
        (2, StaleWrite),
        (1, TagCreate),
    ]
}

pub fn run(args: &Args) -> i32 {
    if args.extra.contains_key("selftest") {
        return selftest(args);
    }
    let report = Report::new(
        args,
        "exploration",
        "case = one seeded history (<=12 quick / <=40 thorough ops, no overwrite/branches) that repeatedly restores a random earlier version and keeps writing (append, update, merge_insert, compaction), stable row ids on in 3 of 4 cases. Oracles: restored latest == snapshot of the source version (schema, ordered rows incl. _rowid, deletion vectors, index list); the map _rowid -> primary key over every version ever committed is a function. Non-trivial = >=1 restore compared and >=1 later commit that issued rows; distinct by (config, op kinds, outcomes).",
        (70, 900),
    )
    .with_min_nontrivial(10);
    let max_ops = args.tier.pick(12usize, 40);
    let max_cases = args.tier.pick(4000u64, 200_000);
    if let Some(c) = args.extra.get("case").and_then(|c| c.parse::<u64>().ok()) {
        std::env::set_var("E_HIST_VERBOSE", "1");
        let rt = tokio::runtime::Builder::new_current_thread().enable_all().build().unwrap();
        rt.block_on(one_case(args.seed, c, max_ops, &report));
        return report.finish();
    }
    crate::hist::run_parallel(&report, args, 16, max_cases, 180, |i, report| {
        Box::pin(one_case(args.seed, i, max_ops, report))
    });
    report.finish()
}

/// restored latest vs source: what the property names (schema, rows, deletions, indices)
pub fn content_diff(src: &Snapshot, restored: &Snapshot) -> Option<(String, Value)> {
    if src.schema != restored.schema {
        return Some(("schema".into(), json!({"source": src.schema, "restored": restored.schema})));
    }
    if src.rows != restored.rows {
        let (c, d) = crate::snap::diff_rows(src, restored);
        return Some((c, d));
    }
    let fr = |s: &Snapshot| -> Vec<(u64, Option<usize>, Vec<u32>)> {
        s.frags.iter().map(|f| (f.id, f.physical_rows, f.deleted.clone())).collect()
    };
    if fr(src) != fr(restored) || src.n_deleted != restored.n_deleted {
        return Some((
            "deletions".into(),
            json!({"source": format!("{:?}", fr(src)), "restored": format!("{:?}", fr(restored))}),
        ));
    }
    if src.indices != restored.indices {
        return Some(("indices".into(), json!({"source": src.indices, "restored": restored.indices})));
    }
    None
}

#[derive(Default)]
pub struct RowIdMap {
    /// _rowid -> (primary key, first version that showed it)
    pub map: BTreeMap<u64, (i64, u64)>,
    /// next_row_id of every version seen, in commit order
    pub counters: Vec<(u64, u64)>,
    /// (new version, source version) of every restore
    pub restores: Vec<(u64, u64)>,
}

pub struct RowIdConflict {
    pub rowid: u64,
    pub first: (i64, u64),
    pub second: (i64, u64),
}

impl RowIdMap {
    /// feed one version's snapshot; returns conflicts (row id shown with two primary keys)
    pub fn feed(&mut self, s: &Snapshot) -> Vec<RowIdConflict> {
        let mut out = vec![];
        let (Some(kr), Some(ki)) = (
            s.names.iter().position(|n| n == "_rowid"),
            s.names.iter().position(|n| n == "id"),
        ) else {
            return out;
        };
        self.counters.push((s.version, s.next_row_id));
        for r in &s.rows {
            let (Some(rid), Some(id)) = (r[kr].as_i64(), r[ki].as_i64()) else { continue };
            let rid = rid as u64;
            match self.map.get(&rid) {
                None => {
                    self.map.insert(rid, (id, s.version));
                }
                Some((id0, v0)) if *id0 != id => out.push(RowIdConflict {
                    rowid: rid,
                    first: (*id0, *v0),
                    second: (id, s.version),
                }),
                _ => {}
            }
        }
        out
    }
    /// Narrow class of a conflict: was the row id handed out again because a restore rolled the
    /// counter back? (row id >= counter republished by a restore and < the high-water mark before it)
    pub fn classify(&self, c: &RowIdConflict, snaps: &BTreeMap<u64, Snapshot>, removed: &BTreeMap<u64, Snapshot>) -> String {
        for (new_v, src_v) in &self.restores {
            if *new_v > c.second.1 {
                continue;
            }
            let restored_counter = snaps.get(new_v).or_else(|| removed.get(new_v)).map(|s| s.next_row_id);
            let high_water = self.counters.iter().filter(|(v, _)| v < new_v).map(|(_, n)| *n).max();
            if let (Some(rc), Some(hw)) = (restored_counter, high_water) {
                if rc < hw && c.rowid >= rc && c.rowid < hw && c.first.1 > *src_v {
                    return "rowid-reuse-after-restore-next_row_id-rollback".into();
                }
            }
        }
        "rowid-shown-with-two-primary-keys".into()
    }
}

async fn one_case(seed: u64, case: u64, max_ops: usize, report: &Report) {
    let mut rng = Rng::for_case(seed, case);
    let mut cfg = HistCfg::random(&mut rng);
    if rng.chance(3, 4) {
        cfg.stable_row_ids = true;
        if cfg.storage == lance_encoding::version::LanceFileVersion::Legacy {
            cfg.storage = lance_encoding::version::LanceFileVersion::V2_0;
        }
    }
    let n_ops = rng.urange(5, max_ops);
    let w = weights();
    let mut h = Hist::mem(rng.clone(), cfg);
    h.case = case;
    let rec = h.create_table("memory://t0").await;
    if !rec.outcome.is_ok() {
        report.harness_error(&format!("case {case}: create failed: {}", rec.outcome.text()));
        return;
    }
    let loc = Loc::main("memory://t0");
    let mut ids = RowIdMap::default();
    let mut fed: std::collections::BTreeSet<u64> = Default::default();
    let mut restores_compared = 0u64;
    let mut commits_after_restore = 0u64;
    let mut after_restore = false;
    let mut force_write = false;
    let feed_new = |h: &Hist, ids: &mut RowIdMap, fed: &mut std::collections::BTreeSet<u64>, report: &Report, seed: u64, case: u64| {
        let lin = &h.lin[&loc];
        let vs: Vec<u64> = lin.snaps.keys().copied().filter(|v| !fed.contains(v)).collect();
        for v in vs {
            fed.insert(v);
            let s = &lin.snaps[&v];
            if !s.stable_row_ids {
                continue;
            }
            report.count("rowid_pk_pairs_checked", s.rows.len() as u64);
            let conflicts = ids.feed(s);
            if let Some(c) = conflicts.first() {
                let class = ids.classify(c, &lin.snaps, &lin.removed);
                report.violation(
                    &class,
                    &format!(
                        "_rowid {} belongs to id {} in v{} and to id {} in v{} ({} conflicting row ids in that version)",
                        c.rowid, c.first.0, c.first.1, c.second.0, c.second.1, conflicts.len()
                    ),
                    json!({"seed": seed, "case": case, "config": h.cfg.describe(), "rowid": c.rowid,
                           "first": {"id": c.first.0, "version": c.first.1}, "second": {"id": c.second.0, "version": c.second.1},
                           "next_row_id_by_version": ids.counters, "restores(new,src)": ids.restores, "ops": h.ops_json(48)}),
                );
            }
        }
    };
    feed_new(&h, &mut ids, &mut fed, report, seed, case);
    for _ in 0..n_ops {
        if !report.time_left() {
            break;
        }
        let kind: OpKind = if force_write {
            force_write = false;
            *rng.pick(&[OpKind::Append, OpKind::Append, OpKind::Upsert, OpKind::Update])
        } else {
            *rng.pick_weighted(&w)
        };
        let rec = h.step(kind).await;
        if let (true, Extra::Restore { from, .. }) = (rec.outcome.is_ok(), &rec.extra) {
            let lin = &h.lin[&loc];
            let newv = lin.latest();
            ids.restores.push((newv, *from));
            after_restore = true;
            force_write = rng.chance(2, 3);
            match (lin.snaps.get(from), lin.snaps.get(&newv)) {
                (Some(src), Some(dst)) => {
                    restores_compared += 1;
                    report.count("restores_compared", 1);
                    report.count("rows_compared_after_restore", src.rows.len() as u64);
                    if let Some((class, detail)) = content_diff(src, dst) {
                        report.violation(
                            &format!("restored-version-differs-{class}"),
                            &format!("restore of v{from} produced v{newv} whose {class} differ from v{from}"),
                            json!({"seed": seed, "case": case, "config": h.cfg.describe(), "source": from, "restored": newv,
                                   "diff": detail, "ops": h.ops_json(48)}),
                        );
                    }
                    // the restore must not have changed the source either
                    if let Ok(Some((class, detail))) = h.recheck_version(&loc, *from, true).await {
                        report.violation(
                            &format!("restore-changed-source-version-{class}"),
                            &format!("v{from} differs from its snapshot after it was restored"),
                            json!({"seed": seed, "case": case, "diff": detail, "ops": h.ops_json(48)}),
                        );
                    }
                }
                _ => {
                    report.count("restores_without_both_snapshots", 1);
                }
            }
        } else if after_restore && rec.outcome.is_ok() && !rec.new_versions.is_empty() {
            commits_after_restore += 1;
        }
        feed_new(&h, &mut ids, &mut fed, report, seed, case);
    }
    if std::env::var("E_HIST_VERBOSE").is_ok() {
        println!("config: {}", h.cfg.describe());
        for s in &h.steps {
            println!("{}", s.brief());
        }
        println!("next_row_id by version: {:?}", ids.counters);
        for p in &h.problems {
            println!("PROBLEM {p}");
        }
        for p in &h.model_disagreements {
            println!("MODEL {p}");
        }
    }
    h.count_ops(report);
    report.count("distinct_rowids_tracked", ids.map.len() as u64);
    let nontrivial = restores_compared >= 1 && commits_after_restore >= 1;
    report.case(if nontrivial { Some(h.shape_sig()) } else { None });
    if report.want_sample() && nontrivial && h.cfg.stable_row_ids {
        report.sample(json!({"case": case, "config": h.cfg.describe(), "restores(new,src)": ids.restores,
                             "next_row_id_by_version": ids.counters, "rowids_tracked": ids.map.len(), "ops": h.ops_json(14)}));
    }
}

fn selftest(args: &Args) -> i32 {
    let rt = tokio::runtime::Builder::new_current_thread().enable_all().build().unwrap();
    let (v1, v2) = rt.block_on(async {
        let mut rng = Rng::for_case(args.seed, 0);
        let mut cfg = HistCfg::random(&mut rng);
        cfg.storage = lance_encoding::version::LanceFileVersion::V2_0;
        cfg.stable_row_ids = true;
        let mut h = Hist::mem(rng, cfg);
        h.create_table("memory://t0").await;
        h.step(OpKind::Append).await;
        let loc = h.live_locs()[0].clone();
        (h.lin[&loc].snaps[&1].clone(), h.lin[&loc].snaps[&2].clone())
    });
    let mut fails = vec![];
    // (a) restored-content oracle
    let mut m = v1.clone();
    m.rows.pop();
    if content_diff(&v1, &m).map(|x| x.0) != Some("rows-lost".into()) {
        fails.push("dropping a row of the restored version not flagged".to_string());
    }
    let mut m = v1.clone();
    m.indices.push("x".into());
    if content_diff(&v1, &m).map(|x| x.0) != Some("indices".into()) {
        fails.push("index list change not flagged".to_string());
    }
    if content_diff(&v1, &v1).is_some() {
        fails.push("identical snapshots differ".to_string());
    }
    // (b) row id map: simulate the counter rollback: a later version re-issues the row ids v2 used
    let mut ids = RowIdMap::default();
    assert!(ids.feed(&v1).is_empty() && ids.feed(&v2).is_empty());
    let mut v3 = v1.clone(); // "restore of v1"
    v3.version = 3;
    ids.restores.push((3, 1));
    assert!(ids.feed(&v3).is_empty());
    let mut v4 = v2.clone();
    v4.version = 4;
    let ki = v4.names.iter().position(|n| n == "id").unwrap();
    let n1 = v1.rows.len();
    for r in v4.rows.iter_mut().skip(n1) {
        r[ki] = vmon::table::Cell::Int(1_000_000 + r[ki].as_i64().unwrap() as i128);
    }
    let c = ids.feed(&v4);
    let mut snaps = BTreeMap::new();
    snaps.insert(3u64, v3.clone());
    if c.is_empty() {
        fails.push("re-issued row ids not flagged".to_string());
    } else if ids.classify(&c[0], &snaps, &BTreeMap::new()) != "rowid-reuse-after-restore-next_row_id-rollback" {
        fails.push(format!("rollback class not recognised: {}", ids.classify(&c[0], &snaps, &BTreeMap::new())));
    }
    if fails.is_empty() {
        println!("SELFTEST C07 ok: restored-content and rowid-map oracles fire on corrupted observations");
        0
    } else {
        for f in fails {
            println!("SELFTEST C07 FAILED: {f}");
        }
        2
    }
}
