//! C08 — cleanup never removes anything a retained version needs.
//!
//! Leg A (histories): tags, deletions, compaction, indices, orphan files of writes crashed on
//! purpose, ageing, then cleanup under random policies (explicit and auto-cleanup config). Oracle
//! after every step that deleted objects: retained versions (latest, tagged, policy-kept) are still
//! listed, readable and equal to their snapshots; no deleted object is referenced by a retained
//! manifest (reference sets recomputed by crate::walker); deleted manifests were selected by the
//! policy; with delete_unverified=false no young object referenced by no manifest is deleted.
//! Leg B (race): cleanup actor vs writer actor under the gate scheduler, writer parked at each of
//! its storage calls in turn.
use crate::hist::{Extra, Hist, HistCfg, Loc, OpKind, PolicyDesc, StepRec, Weights};
use crate::walker::{walk, RawStore};
use chrono::{DateTime, Utc};
use lance::dataset::optimize::{compact_files, CompactionOptions};
use lance::dataset::WriteMode;
use lance_index::scalar::{BuiltinIndexType, ScalarIndexParams};
use lance_index::{DatasetIndexExt, IndexType};
use serde_json::{json, Value};
use std::collections::{BTreeMap, BTreeSet};
use vmon::prng::Rng;
use vmon::report::{Args, Report};
use vmon::store::{Kind, Sched, Strategy, World};
use vmon::table::{scan_rows, Actor, ColTy, IdAlloc, ScanOpts, TableSpec};

fn weights() -> Weights {
    use OpKind::*;
    vec![
        (10, Append),
        (6, DeleteIds),
        (4, Update),
        (3, Upsert),
        (7, Compact),
        (4, CreateIndex),
        (2, OptimizeIndices),
        (2, Overwrite),
        (3, Restore),
        (5, TagCreate),
        (2, TagUpdate),
        (2, TagDelete),
        (6, CrashedAppend),
        (3, Age),
        (12, Cleanup),
        (3, AutoCleanupConfig),
        (1, AddColumn),
        (1, DropColumn),
    ]
}

pub fn run(args: &Args) -> i32 {
    if args.extra.contains_key("selftest") {
        return selftest();
    }
    let report = Report::new(
        args,
        "exploration",
        "leg A: case = seeded history (<=12 quick / <=40 thorough ops) with tags, deletions, compaction, indices, writes crashed on purpose (orphans), mtime ageing by 8 days, cleanup under random policies (before_version, before_timestamp from real manifest timestamps, retain_n, older_than, delete_unverified, error_if_tagged) and auto-cleanup config; oracle on every step that deleted objects. leg B: cleanup racing one writer op (append/delete/compaction/index build) under the gate scheduler with the writer parked at its k-th storage call, every k (sampled in quick). Non-trivial (A) = a cleanup that deleted >=1 object while >=2 versions were retained; (B) = schedule in which both actors issued storage calls after the park point; distinct by (config, op kinds, outcomes) resp. (writer op, k).",
        (80, 900),
    )
    .with_min_nontrivial(10);
    let max_ops = args.tier.pick(12usize, 40);
    let max_cases = args.tier.pick(4000u64, 200_000);
    if let Some(c) = args.extra.get("case").and_then(|c| c.parse::<u64>().ok()) {
        std::env::set_var("E_HIST_VERBOSE", "1");
        let rt = tokio::runtime::Builder::new_current_thread().enable_all().build().unwrap();
        if c % 4 == 3 {
            rt.block_on(race_case(args.seed, c, args.tier == vmon::report::Tier::Thorough, &report));
        } else {
            rt.block_on(hist_case(args.seed, c, max_ops, &report));
        }
        return report.finish();
    }
    let thorough = args.tier == vmon::report::Tier::Thorough;
    crate::hist::run_parallel(&report, args, 16, max_cases, 240, |i, report| {
        if i % 4 == 3 {
            Box::pin(race_case(args.seed, i, thorough, report))
        } else {
            Box::pin(hist_case(args.seed, i, max_ops, report))
        }
    });
    report.finish()
}

/// Own statement of what a policy selects for removal.
pub fn selected_by_policy(
    p: &PolicyDesc,
    versions: &[(u64, DateTime<Utc>)],
    latest: u64,
    tagged: &BTreeSet<u64>,
) -> (BTreeSet<u64>, BTreeSet<u64>) {
    let mut bv = p.before_version;
    if let Some(n) = p.retain_n {
        // keep the last n versions that exist
        let vs: Vec<u64> = versions.iter().map(|v| v.0).collect();
        bv = Some(if vs.len() <= n { vs[0] } else { vs[vs.len() - n] });
    }
    let matches = |v: u64, ts: DateTime<Utc>| -> bool {
        bv.map(|b| v < b).unwrap_or(true) && p.before_timestamp.map(|t| ts < t).unwrap_or(true)
    };
    let mut selected = BTreeSet::new();
    let mut tagged_old = BTreeSet::new();
    for (v, ts) in versions {
        if *v >= latest {
            continue;
        }
        if matches(*v, *ts) {
            if tagged.contains(v) {
                tagged_old.insert(*v);
            } else {
                selected.insert(*v);
            }
        }
    }
    (selected, tagged_old)
}

struct DeleteView {
    /// successfully deleted object paths of the step
    deleted: Vec<String>,
}

fn deletes_of(world: &World, rec: &StepRec) -> DeleteView {
    let ev = world.events_since(rec.log_from);
    let n = (rec.log_to - rec.log_from).min(ev.len());
    DeleteView {
        deleted: ev[..n]
            .iter()
            .filter(|e| e.kind == Kind::Delete && e.applied)
            .map(|e| e.path.clone())
            .collect(),
    }
}

async fn hist_case(seed: u64, case: u64, max_ops: usize, report: &Report) {
    let mut rng = Rng::for_case(seed, case);
    let mut cfg = HistCfg::random(&mut rng);
    cfg.auto_cleanup_default = false; // auto cleanup is configured explicitly by AutoCleanupConfig
    let n_ops = rng.urange(6, max_ops);
    let w = weights();
    let mut h = Hist::mem(rng.clone(), cfg);
    h.case = case;
    let rec = h.create_table("memory://t0").await;
    if !rec.outcome.is_ok() {
        report.harness_error(&format!("case {case}: create failed: {}", rec.outcome.text()));
        return;
    }
    let loc = Loc::main("memory://t0");
    let world = h.env.world().unwrap().clone();
    let mut nontrivial_cleanups = 0u64;
    let mut orphans: BTreeSet<String> = BTreeSet::new();
    for _ in 0..n_ops {
        if !report.time_left() {
            break;
        }
        let kind: OpKind = *rng.pick_weighted(&w);
        // everything that exists right before the step (retained + snapshots of all listed versions)
        let before_snaps: BTreeMap<u64, crate::snap::Snapshot> = h.lin[&loc].snaps.clone();
        let auto_cfg: BTreeMap<String, String> = before_snaps
            .values()
            .last()
            .map(|s| s.config.iter().filter(|(k, _)| k.starts_with("lance.auto_cleanup.")).map(|(k, v)| (k.clone(), v.clone())).collect())
            .unwrap_or_default();
        let listed_before = h.listed_versions(&loc).await;
        let tagged_before = h.tagged_versions(&loc.table);
        let latest_before = h.lin[&loc].latest();
        let rec = h.step(kind).await;
        if let Extra::Crash { orphans: o, committed: false, .. } = &rec.extra {
            for p in o {
                orphans.insert(p.clone());
            }
            report.count("orphan_objects_created", o.len() as u64);
        }
        let dv = deletes_of(&world, &rec);
        report.count("store_events_inspected", (rec.log_to - rec.log_from) as u64);
        if dv.deleted.is_empty() && rec.removed_versions.is_empty() && kind != OpKind::Cleanup {
            continue;
        }
        report.count("delete_events_inspected", dv.deleted.len() as u64);
        let ctx = |h: &Hist| json!({"seed": seed, "case": case, "config": h.cfg.describe(), "step": rec.brief(), "ops": h.ops_json(48)});

        // ---- which versions had to survive?
        let versions: Vec<(u64, DateTime<Utc>)> = listed_before.clone();
        let removed: BTreeSet<u64> = rec.removed_versions.iter().filter(|(l, _)| *l == loc).map(|(_, v)| *v).collect();
        let (must_survive, explicit): (BTreeSet<u64>, bool) = match (&rec.extra, kind) {
            (Extra::Cleanup { policy, before, tagged, latest, .. }, OpKind::Cleanup) => {
                let (selected, tagged_old) = selected_by_policy(policy, before, *latest, tagged);
                report.count("cleanups_run", 1);
                if policy.error_if_tagged && !tagged_old.is_empty() {
                    // documented: refuse. A refusal must be clean.
                    report.count("cleanups_expected_to_refuse_tagged", 1);
                    if rec.outcome.is_ok() {
                        report.count("cleanup_did_not_refuse_tagged_old_version", 1);
                    } else if !dv.deleted.is_empty() {
                        report.violation(
                            "refused-cleanup-deleted-objects",
                            &format!("cleanup returned '{}' but deleted {} objects", rec.outcome.text(), dv.deleted.len()),
                            json!({"ctx": ctx(&h), "deleted": dv.deleted.iter().take(10).collect::<Vec<_>>()}),
                        );
                    }
                }
                (before.iter().map(|v| v.0).filter(|v| !selected.contains(v)).collect(), true)
            }
            _ => {
                // auto cleanup triggered by a commit (or nothing should have been deleted at all).
                // The hook reads the config of the manifest just committed.
                let auto_cfg: BTreeMap<String, String> = h.lin[&loc]
                    .snaps
                    .values()
                    .last()
                    .map(|s| s.config.iter().filter(|(k, _)| k.starts_with("lance.auto_cleanup.")).map(|(k, v)| (k.clone(), v.clone())).collect())
                    .unwrap_or(auto_cfg.clone());
                let interval = auto_cfg.get("lance.auto_cleanup.interval");
                if interval.is_none() {
                    let allowed = matches!(kind, OpKind::TagDelete | OpKind::CrashedAppend);
                    if !allowed && !dv.deleted.is_empty() {
                        // commits may delete their own temporary objects (e.g. staged manifests);
                        // what matters: nothing a manifest references, checked below
                    }
                    (versions.iter().map(|v| v.0).collect(), false)
                } else {
                    report.count("auto_cleanup_candidate_steps", 1);
                    let older = auto_cfg.get("lance.auto_cleanup.older_than").cloned();
                    let retain: Option<usize> = auto_cfg.get("lance.auto_cleanup.retain_versions").and_then(|s| s.parse().ok());
                    let mut keep: BTreeSet<u64> = BTreeSet::new();
                    // the hook of a commit runs with the handle at the previous version: that one
                    // and everything newer count as "latest" (multi-commit ops run it repeatedly)
                    let latest_after = h.lin[&loc].latest();
                    keep.insert(latest_after);
                    if latest_after > 1 {
                        keep.insert(latest_after - 1);
                    }
                    keep.retain(|v| versions.iter().any(|x| x.0 == *v));
                    let _ = latest_before;
                    keep.extend(tagged_before.iter().copied());
                    // loosest admissible reading: "0s" => everything older than now may go;
                    // "1000days" => nothing may go; retain n => the last n of the listing that
                    // includes the version just committed
                    if older.as_deref() == Some("1000days") {
                        keep.extend(versions.iter().map(|v| v.0));
                    }
                    if let Some(n) = retain {
                        let mut all: Vec<u64> = versions.iter().map(|v| v.0).collect();
                        all.extend(rec.new_versions.iter().filter(|(l, _)| *l == loc).map(|(_, v)| *v));
                        all.sort();
                        all.dedup();
                        let k = all.len().saturating_sub(n);
                        keep.extend(all[k..].iter().copied());
                    }
                    (keep, false)
                }
            }
        };

        // ---- (a) retained versions are still listed, readable, equal
        let lin = &h.lin[&loc];
        let mut retained_now = 0u64;
        for v in &must_survive {
            let still_listed = lin.snaps.contains_key(v) || lin.unreadable.contains_key(v);
            if removed.contains(v) || !still_listed {
                let class = if tagged_before.contains(v) {
                    "cleanup-removed-tagged-version"
                } else if *v == latest_before {
                    "cleanup-removed-latest-version"
                } else if explicit {
                    "cleanup-removed-manifest-not-selected-by-policy"
                } else {
                    "auto-cleanup-removed-version-its-config-keeps"
                };
                report.violation(
                    class,
                    &format!("v{v} had to survive step {} ({}) but is no longer listed", rec.idx, kind.name()),
                    json!({"ctx": ctx(&h), "version": v, "auto_cleanup_config": auto_cfg, "versions_before": versions.iter().map(|x| x.0).collect::<Vec<_>>(), "removed": removed}),
                );
                continue;
            }
            retained_now += 1;
            if !lin.snaps.contains_key(v) {
                continue; // could never be read (C05's subject): nothing to compare with
            }
            let r = h.recheck_version(&loc, *v, true).await;
            report.count("retained_versions_reread", 1);
            match r {
                Ok(None) => {}
                Ok(Some((class, detail))) => {
                    report.violation(
                        &format!("retained-version-{class}-after-cleanup"),
                        &format!("v{v} differs from its snapshot after step {} ({})", rec.idx, kind.name()),
                        json!({"ctx": ctx(&h), "version": v, "diff": detail}),
                    );
                }
                Err(e) => {
                    report.violation(
                        "retained-version-unreadable-after-cleanup",
                        &format!("v{v} cannot be read after step {} ({}): {}", rec.idx, kind.name(), e.chars().take(300).collect::<String>()),
                        json!({"ctx": ctx(&h), "version": v, "error": e}),
                    );
                }
            }
            // and it must still validate
            if let Ok(ds) = h.open_at(&loc, Some(*v), true).await {
                let w = walk(&ds, &h.env.raw(), true).await;
                report.count("retained_versions_validated", 1);
                if let Some((sig, d)) = w.problems.first() {
                    // only failures that a deleted object explains belong to this property
                    if sig.contains("missing") || sig.contains("unreadable") || d.contains("not found") || d.contains("Not found") {
                        report.violation(
                            &format!("retained-version-{sig}-after-cleanup"),
                            &format!("v{v}: {d}"),
                            json!({"ctx": ctx(&h), "version": v, "problems": w.problems}),
                        );
                    }
                }
            }
        }

        // ---- (b) no deleted object is referenced by a version that had to survive; (c) deleted
        // manifests were selected; (d) young unverified objects survive
        let all_refs: Vec<(u64, &crate::walker::RefSet)> = before_snaps.iter().map(|(v, s)| (*v, &s.refs)).collect();
        let du = match &rec.extra {
            Extra::Cleanup { policy, .. } => policy.delete_unverified,
            _ => false,
        };
        for p in &dv.deleted {
            let mut referenced_by_any = false;
            for (v, refs) in &all_refs {
                if let Some(kind_of) = refs.references(p) {
                    referenced_by_any = true;
                    if must_survive.contains(v) {
                        let class = if kind_of == "manifest" {
                            continue; // reported by (a)
                        } else {
                            format!("cleanup-deleted-{kind_of}-file-referenced-by-retained-version")
                        };
                        report.violation(
                            &class,
                            &format!("step {} ({}) deleted {} which v{} references", rec.idx, kind.name(), p, v),
                            json!({"ctx": ctx(&h), "path": p, "version": v, "must_survive": must_survive}),
                        );
                    }
                }
            }
            let is_manifest = p.contains("/_versions/") && p.ends_with(".manifest");
            let under_table = p.starts_with("t0/data/") || p.starts_with("t0/_deletions/") || p.starts_with("t0/_indices/") || p.starts_with("t0/_transactions/");
            if !du && !referenced_by_any && !is_manifest && under_table && !h.aged_paths.contains(p) && kind == OpKind::Cleanup {
                report.violation(
                    "cleanup-deleted-young-object-referenced-by-no-manifest",
                    &format!("delete_unverified=false but {} (younger than 7 days, in no manifest{}) was deleted", p, if orphans.contains(p) { ", orphan of a crashed write" } else { "" }),
                    json!({"ctx": ctx(&h), "path": p, "is_crash_orphan": orphans.contains(p)}),
                );
            }
            if !referenced_by_any && under_table {
                report.count(if h.aged_paths.contains(p) { "aged_unverified_objects_deleted" } else { "young_unverified_objects_deleted_with_delete_unverified" }, 1);
            }
        }
        // young orphans that survived a delete_unverified=false cleanup (the positive observation)
        if kind == OpKind::Cleanup && rec.outcome.is_ok() && !du {
            let now: BTreeSet<String> = world.list_paths().await.into_iter().collect();
            let survived = orphans.iter().filter(|p| !h.aged_paths.contains(*p) && now.contains(*p)).count();
            report.count("young_orphans_seen_surviving_cleanup", survived as u64);
        }
        if kind == OpKind::Cleanup && rec.outcome.is_ok() && !dv.deleted.is_empty() && retained_now >= 2 {
            nontrivial_cleanups += 1;
        }
        if !removed.is_empty() {
            report.count("versions_removed_by_cleanup", removed.len() as u64);
        }
    }
    if std::env::var("E_HIST_VERBOSE").is_ok() {
        println!("config: {}", h.cfg.describe());
        for s in &h.steps {
            println!("{}", s.brief());
        }
        for p in &h.problems {
            println!("PROBLEM {p}");
        }
        for p in &h.model_disagreements {
            println!("MODEL {p}");
        }
    }
    h.count_ops(report);
    let nontrivial = nontrivial_cleanups >= 1;
    report.case(if nontrivial { Some(h.shape_sig()) } else { None });
    if report.want_sample() && nontrivial && report.counter("samples_leg_a") < 3 {
        report.count("samples_leg_a", 1);
        report.sample(json!({"leg": "A", "case": case, "config": h.cfg.describe(), "nontrivial_cleanups": nontrivial_cleanups,
                             "versions_left": h.lin[&loc].snaps.keys().collect::<Vec<_>>(), "versions_removed": h.lin[&loc].removed.keys().collect::<Vec<_>>(),
                             "ops": h.ops_json(14)}));
    }
}

// ---------------------------------------------------------------------------------------------
// leg B: race
// ---------------------------------------------------------------------------------------------

#[derive(Clone, Copy, Debug)]
enum WriterOp {
    Append,
    Delete,
    Compact,
    Index,
}

async fn run_writer(a: &Actor, uri: &str, op: WriterOp, spec: &TableSpec, seed: u64, at: Option<u64>) -> Result<u64, String> {
    let mut ds = match at {
        // a writer that still works from an old version (its files may only be kept alive by manifests
        // the cleanup is about to remove)
        Some(v) => a.open_version(uri, v).await.map_err(|e| e.to_string())?,
        None => a.open(uri).await.map_err(|e| e.to_string())?,
    };
    match op {
        WriterOp::Append => {
            let mut rng = Rng::new(seed);
            let ids: Vec<i64> = (1000..1010).collect();
            let b = spec.batch(&mut rng, &ids);
            let reader = arrow_array::RecordBatchIterator::new(vec![Ok(b.clone())], b.schema());
            let mut p = a.write_params(WriteMode::Append);
            p.max_rows_per_file = 5;
            ds.append(reader, Some(p)).await.map_err(|e| e.to_string())?;
        }
        WriterOp::Delete => ds.delete("id % 3 = 0").await.map_err(|e| e.to_string())?,
        WriterOp::Compact => {
            compact_files(
                &mut ds,
                CompactionOptions {
                    target_rows_per_fragment: 1000,
                    materialize_deletions_threshold: 0.0,
                    ..Default::default()
                },
                None,
            )
            .await
            .map_err(|e| e.to_string())?;
        }
        WriterOp::Index => {
            ds.create_index(&["v"], IndexType::BTree, Some("v_idx".into()), &ScalarIndexParams::for_builtin(BuiltinIndexType::BTree), true)
                .await
                .map_err(|e| e.to_string())?;
        }
    }
    Ok(ds.manifest().version)
}

fn expected_ids(pre: &BTreeSet<i64>, op: WriterOp) -> BTreeSet<i64> {
    match op {
        WriterOp::Append => pre.iter().copied().chain(1000..1010).collect(),
        WriterOp::Delete => pre.iter().copied().filter(|i| i % 3 != 0).collect(),
        _ => pre.clone(),
    }
}

async fn race_case(seed: u64, case: u64, thorough: bool, report: &Report) {
    let mut rng = Rng::for_case(seed, case);
    let op = *rng.pick(&[WriterOp::Append, WriterOp::Delete, WriterOp::Compact, WriterOp::Index]);
    let stable = rng.bool();
    let uri = "memory://r0";
    // ---- pre-state: several versions, some deletions, small fragments
    let world0 = World::memory();
    let a0 = Actor::new(world0.new_actor(0));
    let spec = TableSpec::simple(&[("v", ColTy::I32, true), ("s", ColTy::Utf8, true)]);
    let mut ids = IdAlloc::new(0);
    let mut p = a0.write_params(WriteMode::Create);
    p.enable_stable_row_ids = stable;
    p.max_rows_per_file = 6;
    p.auto_cleanup = None;
    let b = spec.batch(&mut rng, &ids.take(20));
    let mut ds = match a0.write(uri, vec![b], p).await {
        Ok(d) => d,
        Err(e) => {
            report.harness_error(&format!("race pre-state: {e}"));
            return;
        }
    };
    for _ in 0..rng.urange(1, 3) {
        let b = spec.batch(&mut rng, &ids.take(7));
        let reader = arrow_array::RecordBatchIterator::new(vec![Ok(b.clone())], b.schema());
        let mut p = a0.write_params(WriteMode::Append);
        p.max_rows_per_file = 6;
        if ds.append(reader, Some(p)).await.is_err() {
            return;
        }
    }
    let _ = ds.delete("id % 5 = 1").await;
    if rng.bool() {
        let _ = ds.delete("id % 7 = 2").await;
    }
    // half of the scenarios: the latest version is a compaction, and the writer starts from the
    // version before it, whose files only old manifests reference
    let stale_writer = rng.bool();
    let mut writer_at = None;
    if stale_writer {
        let before = ds.manifest().version;
        let _ = compact_files(&mut ds, CompactionOptions { target_rows_per_fragment: 1000, materialize_deletions_threshold: 0.0, ..Default::default() }, None).await;
        if ds.manifest().version > before {
            writer_at = Some(before);
        }
    }
    let pre_latest = ds.manifest().version;
    let pre_ids: BTreeSet<i64> = match scan_rows(&ds, &ScanOpts::default()).await {
        Ok((n, rows)) => {
            let k = n.iter().position(|x| x == "id").unwrap_or(0);
            rows.iter().filter_map(|r| r[k].as_i64()).collect()
        }
        Err(_) => return,
    };
    let snap = world0.snapshot().await;

    // ---- dry run: number of storage calls of the writer alone
    let m_calls = {
        let w = World::from_snapshot(&snap).await;
        let a = Actor::new(w.new_actor(2));
        let r = run_writer(&a, uri, op, &spec, seed, writer_at).await;
        if r.is_err() {
            // e.g. a stale compaction that conflicts even without a cleaner: not a scenario
            report.count("race_writer_dry_run_failed", 1);
            return;
        }
        a.store.total_calls()
    };
    report.count("race_scenarios", 1);
    let ks: Vec<u64> = if thorough || m_calls <= 10 {
        (0..=m_calls).collect()
    } else {
        let mut v: Vec<u64> = rng.sample_indices(m_calls as usize + 1, 10).into_iter().map(|x| x as u64).collect();
        v.sort();
        v
    };
    for k in ks {
        if !report.time_left() {
            break;
        }
        let w = World::from_snapshot(&snap).await;
        let cleaner = Actor::new(w.new_actor(1));
        let writer = Actor::new(w.new_actor(2));
        let cds = match cleaner.open(uri).await {
            Ok(d) => d,
            Err(e) => {
                report.harness_error(&format!("race: cleaner cannot open: {e}"));
                return;
            }
        };
        let sched = Sched::new();
        w.set_sched(Some(sched.clone()));
        sched.begin(1);
        sched.begin(2);
        let s1 = sched.clone();
        let hc = tokio::spawn(async move {
            let r = cds.cleanup_old_versions(chrono::Duration::zero(), Some(false), Some(false)).await;
            s1.end(1);
            r.map(|s| (s.old_versions, s.bytes_removed)).map_err(|e| e.to_string())
        });
        let s2 = sched.clone();
        let (wr, spec2) = (writer.clone(), spec.clone());
        let hw = tokio::spawn(async move {
            let r = run_writer(&wr, uri, op, &spec2, seed, writer_at).await;
            s2.end(2);
            r
        });
        // writer first for k calls, then the cleaner to completion, then the writer
        let mut script = vec![2usize; k as usize];
        script.extend(std::iter::repeat(1usize).take(400));
        script.extend(std::iter::repeat(2usize).take(400));
        let out = sched.run(Strategy::Script(script, 0), std::time::Duration::from_secs(90)).await;
        let rc = hc.await;
        let rw = hw.await;
        w.set_sched(None);
        report.count("race_schedules_run", 1);
        report.count("race_gated_calls_released", out.released.len() as u64);
        report.count("race_nondeterministic_steps", out.nondeterministic_steps);
        if out.watchdog_fired {
            report.inconclusive(&format!("race case {case} k={k}: scheduler watchdog fired"));
            continue;
        }
        let (Ok(rc), Ok(rw)) = (rc, rw) else {
            report.violation(
                "panic-in-cleanup-or-writer-while-racing",
                &format!("writer {:?} parked at call {k}", op),
                json!({"seed": seed, "case": case, "op": format!("{op:?}"), "k": k}),
            );
            continue;
        };
        let deleted: Vec<String> = w.events().iter().filter(|e| e.kind == Kind::Delete && e.applied && e.actor == 1).map(|e| e.path.clone()).collect();
        report.count("race_delete_events_inspected", deleted.len() as u64);
        let both_active = out.released.iter().skip(k as usize).any(|r| r.actor == 1) && out.released.iter().skip(k as usize).any(|r| r.actor == 2);
        let ctx = json!({"seed": seed, "case": case, "writer_op": format!("{op:?}"), "parked_at_call": k, "writer_calls_alone": m_calls,
                         "stable_row_ids": stable, "writer_starts_at_version": writer_at, "cleanup_result": format!("{rc:?}"), "writer_result": format!("{rw:?}"),
                         "cleanup_deleted": deleted.iter().take(20).collect::<Vec<_>>(), "schedule": out.brief(60)});
        // ---- verdict
        let reader = Actor::new(w.new_actor(0));
        let latest = match reader.open(uri).await {
            Ok(d) => d,
            Err(e) => {
                report.violation(
                    "table-unopenable-after-cleanup-race",
                    &e.to_string(),
                    ctx.clone(),
                );
                continue;
            }
        };
        match &rw {
            Err(_) => {
                report.count("race_writer_failed_admissible", 1);
            }
            Ok(v) => {
                report.count("race_writer_committed", 1);
                if latest.manifest().version < *v {
                    report.violation(
                        "writer-ok-but-its-version-is-not-visible-after-cleanup-race",
                        &format!("writer returned v{v}, latest is v{}", latest.manifest().version),
                        ctx.clone(),
                    );
                    continue;
                }
            }
        }
        let raw = RawStore::World(w.clone());
        let wk = walk(&latest, &raw, true).await;
        report.count("race_versions_validated", 1);
        if let Some((sig, d)) = wk.problems.first() {
            report.violation(
                &format!("latest-after-cleanup-race-{sig}"),
                &format!("writer {:?} parked at call {k}, writer result {:?}: {d}", op, rw),
                json!({"ctx": ctx, "problems": wk.problems}),
            );
            continue;
        }
        // deleted objects must not be referenced by the latest manifest
        for p in &deleted {
            if let Some(kind_of) = wk.refs.references(p) {
                report.violation(
                    &format!("cleanup-race-deleted-{kind_of}-file-referenced-by-latest"),
                    &format!("{p} deleted by cleanup but referenced by v{}", latest.manifest().version),
                    ctx.clone(),
                );
            }
        }
        // contents
        if let Ok((n, rows)) = scan_rows(&latest, &ScanOpts::default()).await {
            let kk = n.iter().position(|x| x == "id").unwrap_or(0);
            let got: BTreeSet<i64> = rows.iter().filter_map(|r| r[kk].as_i64()).collect();
            let want = if rw.is_ok() { expected_ids(&pre_ids, op) } else { pre_ids.clone() };
            report.count("race_rows_compared", rows.len() as u64);
            if got != want || got.len() != rows.len() {
                report.violation(
                    "rows-after-cleanup-race-differ-from-serial-outcome",
                    &format!("writer {:?} k={k} result {:?}: {} rows, expected {}", op, rw, rows.len(), want.len()),
                    json!({"ctx": ctx, "missing": want.difference(&got).take(10).collect::<Vec<_>>(), "unexpected": got.difference(&want).take(10).collect::<Vec<_>>()}),
                );
            }
        }
        let _ = pre_latest;
        let sig = vmon::prng::fnv_str(&format!("race:{op:?}:{stable}:{writer_at:?}:{k}:{}", rw.is_ok()));
        if writer_at.is_some() {
            report.count("race_schedules_with_stale_writer", 1);
        }
        report.case(if both_active { Some(sig) } else { None });
        if report.want_sample() && both_active && report.counter("samples_leg_b") < 3 {
            report.count("samples_leg_b", 1);
            report.sample(json!({"leg": "B", "ctx": ctx}));
        }
    }
}

fn selftest() -> i32 {
    // policy model + reference-set oracle on synthetic observations
    let t = |s: i64| DateTime::<Utc>::from_timestamp(1_700_000_000 + s, 0).unwrap();
    let versions = vec![(1u64, t(1)), (2, t(2)), (3, t(3)), (4, t(4)), (5, t(5))];
    let mut tagged = BTreeSet::new();
    tagged.insert(2u64);
    let base = PolicyDesc { before_version: None, before_timestamp: None, retain_n: None, delete_unverified: false, error_if_tagged: false, api: "policy" };
    let mut fails = vec![];
    let (s, told) = selected_by_policy(&PolicyDesc { before_version: Some(4), ..base.clone() }, &versions, 5, &tagged);
    if s != [1u64, 3].into_iter().collect() || told != [2u64].into_iter().collect() {
        fails.push(format!("before_version: {s:?} {told:?}"));
    }
    let (s, _) = selected_by_policy(&PolicyDesc { before_timestamp: Some(t(3)), ..base.clone() }, &versions, 5, &tagged);
    if s != [1u64].into_iter().collect() {
        fails.push(format!("before_timestamp: {s:?}"));
    }
    let (s, _) = selected_by_policy(&PolicyDesc { retain_n: Some(2), ..base.clone() }, &versions, 5, &tagged);
    if s != [1u64, 3].into_iter().collect() {
        fails.push(format!("retain 2: {s:?}"));
    }
    let (s, _) = selected_by_policy(&PolicyDesc { retain_n: Some(9), ..base.clone() }, &versions, 5, &tagged);
    if !s.is_empty() {
        fails.push(format!("retain 9: {s:?}"));
    }
    let mut refs = crate::walker::RefSet::default();
    refs.data.insert("t0/data/a.lance".into());
    refs.index_dirs.insert("t0/_indices/u1".into());
    if refs.references("t0/data/a.lance") != Some("data") || refs.references("t0/_indices/u1/page.lance") != Some("index") || refs.references("t0/_indices/u10/x").is_some() {
        fails.push("RefSet::references".into());
    }
    if fails.is_empty() {
        println!("SELFTEST C08 ok");
        0
    } else {
        for f in fails {
            println!("SELFTEST C08 FAILED: {f}");
        }
        2
    }
}
