//! Ad-hoc probes used while triaging findings (`e_hist PROBE --name <n>`). Not a check.
use crate::hist::{Hist, HistCfg, OpKind};
use futures::TryStreamExt;
use vmon::prng::Rng;
use vmon::report::Args;

pub fn run(args: &Args) -> i32 {
    let rt = tokio::runtime::Builder::new_current_thread().enable_all().build().unwrap();
    let name = args.extra.get("name").cloned().unwrap_or_default();
    rt.block_on(async {
        match name.as_str() {
            "rowid_scan" => rowid_scan(args).await,
            "defer_hang" => defer_hang(args).await,
            "defer_hang2" => defer_hang2(args).await,
            _ => println!("unknown probe"),
        }
    });
    0
}

async fn rowid_scan(args: &Args) {
    let case: u64 = args.extra.get("case").and_then(|c| c.parse().ok()).unwrap_or(18);
    let mut rng = Rng::for_case(args.seed, case);
    let cfg = HistCfg::random(&mut rng);
    let n_ops = rng.urange(4, 12);
    let weights = crate::hist::base_weights();
    let mut h = Hist::mem(rng.clone(), cfg);
    h.create_table("memory://t0").await;
    for _ in 0..n_ops {
        let kind: OpKind = *rng.pick_weighted(&weights);
        let r = h.step(kind).await;
        println!("{}", r.brief());
        if !r.unreadable.is_empty() {
            println!("UNREADABLE {:?}", r.unreadable);
            break;
        }
    }
    let loc = h.live_locs()[0].clone();
    let ds = h.lin[&loc].head.clone();
    println!("version {} next_row_id {}", ds.manifest().version, ds.manifest().next_row_id);
    for f in ds.get_fragments() {
        let md = f.metadata().clone();
        let seq = match &md.row_id_meta {
            Some(lance_table::format::RowIdMeta::Inline(b)) => lance_table::rowids::read_row_ids(b).ok(),
            _ => None,
        };
        let ids: Option<Vec<u64>> = seq.as_ref().map(|s| s.iter().collect());
        let mut sc = f.scan();
        sc.with_row_id();
        let r: Result<Vec<arrow_array::RecordBatch>, _> = match sc.try_into_stream().await {
            Ok(s) => s.try_collect().await,
            Err(e) => Err(e),
        };
        println!(
            "frag {} phys {:?} del {:?} files {} rowids {:?} seq {:?} -> scan {:?}",
            md.id,
            md.physical_rows,
            md.deletion_file.as_ref().map(|d| d.num_deleted_rows),
            md.files.len(),
            ids.as_ref().map(|v| (v.len(), v.first().copied(), v.last().copied())),
            seq,
            r.map(|b| b.iter().map(|x| x.num_rows()).sum::<usize>()).map_err(|e| e.to_string().chars().take(100).collect::<String>())
        );
    }
}

async fn defer_hang(args: &Args) {
    use lance::dataset::optimize::{compact_files, CompactionOptions};
    use lance_index::DatasetIndexExt;
    use std::time::Duration;
    for (stable, with_index) in [(true, false), (true, true), (false, true), (false, false)] {
        let mut rng = Rng::for_case(args.seed, 1);
        let mut cfg = HistCfg::random(&mut rng);
        cfg.stable_row_ids = stable;
        cfg.storage = lance_encoding::version::LanceFileVersion::V2_0;
        let mut h = Hist::mem(rng.clone(), cfg);
        h.create_table("memory://t0").await;
        for k in [OpKind::Append, OpKind::Append, OpKind::DeleteIds, OpKind::Append] {
            h.step(k).await;
        }
        if with_index {
            h.step(OpKind::CreateIndex).await;
        }
        let loc = h.live_locs()[0].clone();
        let mut ds = h.lin[&loc].head.clone();
        let nfr = ds.get_fragments().len();
        let r = compact_files(&mut ds, CompactionOptions { target_rows_per_fragment: 1000, defer_index_remap: true, ..Default::default() }, None).await;
        println!("stable={stable} index={with_index} fragments {nfr} compact -> {:?} version {}", r.map(|m| m.fragments_removed), ds.manifest().version);
        macro_rules! t {
            ($name:expr, $fut:expr) => {
                match tokio::time::timeout(Duration::from_secs(10), $fut).await {
                    Ok(r) => println!("   {} -> {}", $name, r),
                    Err(_) => println!("   {} -> HANGS (10 s)", $name),
                }
            };
        }
        t!("load_indices", async { format!("{:?}", ds.load_indices().await.map(|i| i.iter().map(|x| (x.name.clone(), x.fragment_bitmap.as_ref().map(|b| b.iter().collect::<Vec<_>>()))).collect::<Vec<_>>())) });
        t!("count_rows", async { format!("{:?}", ds.count_rows(None).await) });
        t!("scan", async {
            match ds.scan().try_into_stream().await {
                Ok(s) => format!("{:?}", s.try_collect::<Vec<arrow_array::RecordBatch>>().await.map(|b| b.iter().map(|x| x.num_rows()).sum::<usize>())),
                Err(e) => e.to_string(),
            }
        });
        t!("scan_rowid_ordered", async {
            let mut sc = ds.scan();
            sc.with_row_id().scan_in_order(true);
            match sc.try_into_stream().await {
                Ok(s) => format!("{:?}", s.try_collect::<Vec<arrow_array::RecordBatch>>().await.map(|b| b.iter().map(|x| x.num_rows()).sum::<usize>())),
                Err(e) => e.to_string(),
            }
        });
        t!("validate", async { format!("{:?}", ds.validate().await) });
        t!("delete", async { format!("{:?}", ds.delete("id = 0").await) });
        t!("second compact(defer)", async { format!("{:?}", compact_files(&mut ds, CompactionOptions { target_rows_per_fragment: 1000, defer_index_remap: true, ..Default::default() }, None).await.map(|m| m.fragments_removed)) });
    }
}

async fn defer_hang2(args: &Args) {
    use lance::dataset::optimize::{compact_files, CompactionOptions};
    use lance_index::scalar::{BuiltinIndexType, ScalarIndexParams};
    use lance_index::{DatasetIndexExt, IndexType};
    use std::time::Duration;
    for (stable, bitmap, warm) in [(true, false, true), (true, true, true), (false, false, true), (false, true, true), (true, true, false), (false, true, false)] {
        let mut rng = Rng::for_case(args.seed, 1);
        let mut cfg = HistCfg::random(&mut rng);
        cfg.stable_row_ids = stable;
        cfg.storage = lance_encoding::version::LanceFileVersion::V2_0;
        let mut h = Hist::mem(rng.clone(), cfg);
        h.create_table("memory://t0").await;
        for k in [OpKind::Append, OpKind::Append, OpKind::DeleteIds, OpKind::Append] {
            h.step(k).await;
        }
        let loc = h.live_locs()[0].clone();
        let mut ds = h.lin[&loc].head.clone();
        let (ity, params) = if bitmap {
            (IndexType::Bitmap, ScalarIndexParams::for_builtin(BuiltinIndexType::Bitmap))
        } else {
            (IndexType::BTree, ScalarIndexParams::for_builtin(BuiltinIndexType::BTree))
        };
        ds.create_index(&["v"], ity, Some("v_idx".into()), &params, true).await.unwrap();
        async fn q(ds: &lance::Dataset, p: &str) -> String {
            let mut sc = ds.scan();
            sc.filter(p).unwrap();
            match tokio::time::timeout(Duration::from_secs(10), crate::walker::guard(async {
                match sc.try_into_stream().await {
                    Ok(s) => Ok::<String, String>(format!("{:?}", s.try_collect::<Vec<arrow_array::RecordBatch>>().await.map(|b| b.iter().map(|x| x.num_rows()).sum::<usize>()))),
                    Err(e) => Ok(e.to_string()),
                }
            }))
            .await
            .map(|r| r.unwrap_or_else(|e| e))
            {
                Ok(r) => r,
                Err(_) => "HANGS (10 s)".into(),
            }
        }
        println!("stable={stable} bitmap={bitmap} warm_cache_before_compaction={warm}");
        if warm {
            println!("   before: v IS NOT NULL -> {}", q(&ds, "v IS NOT NULL").await);
        }
        let r = compact_files(&mut ds, CompactionOptions { target_rows_per_fragment: 1000, defer_index_remap: true, ..Default::default() }, None).await;
        println!("   compact(defer) -> {:?}", r.map(|m| m.fragments_removed));
        println!("   after (same session): v IS NOT NULL -> {}", q(&ds, "v IS NOT NULL").await);
        println!("   after (same session): v = 3 -> {}", q(&ds, "v = 3").await);
        let fresh = h.open_at(&loc, None, true).await.unwrap();
        println!("   after (fresh session): v IS NOT NULL -> {}", q(&fresh, "v IS NOT NULL").await);
    }
}
