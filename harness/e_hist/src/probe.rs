//! Ad-hoc probes used while triaging findings (`e_hist PROBE --name <n>`). Not a check.
use crate::hist::{Hist, HistCfg, OpKind};
use futures::TryStreamExt;
use vmon::prng::Rng;
use vmon::report::Args;

pub fn run(args: &Args) -> i32 {
    let rt = tokio::runtime::Builder::new_current_thread().enable_all().build().unwrap();
    let name = args.extra.get("name").cloned().unwrap_or_default();
    rt.block_on(async {
        match name.as_str() {
            "rowid_scan" => rowid_scan(args).await,
            _ => println!("unknown probe"),
        }
    });
    0
}

async fn rowid_scan(args: &Args) {
    let case: u64 = args.extra.get("case").and_then(|c| c.parse().ok()).unwrap_or(18);
    let mut rng = Rng::for_case(args.seed, case);
    let cfg = HistCfg::random(&mut rng);
    let n_ops = rng.urange(4, 12);
    let weights = crate::hist::base_weights();
    let mut h = Hist::mem(rng.clone(), cfg);
    h.create_table("memory://t0").await;
    for _ in 0..n_ops {
        let kind: OpKind = *rng.pick_weighted(&weights);
        let r = h.step(kind).await;
        println!("{}", r.brief());
        if !r.unreadable.is_empty() {
            println!("UNREADABLE {:?}", r.unreadable);
            break;
        }
    }
    let loc = h.live_locs()[0].clone();
    let ds = h.lin[&loc].head.clone();
    println!("version {} next_row_id {}", ds.manifest().version, ds.manifest().next_row_id);
    for f in ds.get_fragments() {
        let md = f.metadata().clone();
        let seq = match &md.row_id_meta {
            Some(lance_table::format::RowIdMeta::Inline(b)) => lance_table::rowids::read_row_ids(b).ok(),
            _ => None,
        };
        let ids: Option<Vec<u64>> = seq.as_ref().map(|s| s.iter().collect());
        let mut sc = f.scan();
        sc.with_row_id();
        let r: Result<Vec<arrow_array::RecordBatch>, _> = match sc.try_into_stream().await {
            Ok(s) => s.try_collect().await,
            Err(e) => Err(e),
        };
        println!(
            "frag {} phys {:?} del {:?} files {} rowids {:?} seq {:?} -> scan {:?}",
            md.id,
            md.physical_rows,
            md.deletion_file.as_ref().map(|d| d.num_deleted_rows),
            md.files.len(),
            ids.as_ref().map(|v| (v.len(), v.first().copied(), v.last().copied())),
            seq,
            r.map(|b| b.iter().map(|x| x.num_rows()).sum::<usize>()).map_err(|e| e.to_string().chars().take(100).collect::<String>())
        );
    }
}
