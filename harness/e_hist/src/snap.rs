//! Snapshotter (C06 monitor and the base of C07/C08/C09/C38/C42): canonical digest + retained copy
//! of everything a checkout of one version shows.

use crate::walker::{walk, FragInfo, RawStore, RefSet};
use chrono::{DateTime, Utc};
use lance::Dataset;
use lance_core::datatypes::Field;
use lance_index::DatasetIndexExt;
use serde_json::{json, Value};
use std::collections::BTreeMap;
use vmon::prng::fnv;
use vmon::table::{render_row, scan_rows, Row, ScanOpts};

#[derive(Clone, Debug)]
pub struct Snapshot {
    pub version: u64,
    pub schema: String,
    /// column names of `rows` (data columns, then `_rowid`)
    pub names: Vec<String>,
    /// ordered scan, `_rowid` last
    pub rows: Vec<Row>,
    pub frags: Vec<FragInfo>,
    pub n_deleted: usize,
    pub config: BTreeMap<String, String>,
    pub table_metadata: BTreeMap<String, String>,
    pub indices: Vec<String>,
    pub index_names: Vec<String>,
    pub stable_row_ids: bool,
    pub next_row_id: u64,
    pub max_fragment_id: Option<u32>,
    pub timestamp: DateTime<Utc>,
    pub refs: RefSet,
    pub digest: u64,
    /// problems the (shallow) walker saw while snapshotting
    pub walk_problems: Vec<(String, String)>,
}

fn schema_string(ds: &Dataset) -> String {
    fn rec(f: &Field, depth: usize, out: &mut String) {
        out.push_str(&format!(
            "{}{}#{}:{:?}{};",
            "  ".repeat(depth),
            f.name,
            f.id,
            f.data_type(),
            if f.nullable { "?" } else { "" }
        ));
        for c in &f.children {
            rec(c, depth + 1, out);
        }
    }
    let mut s = String::new();
    for f in &ds.schema().fields {
        rec(f, 0, &mut s);
    }
    let mut md: Vec<_> = ds.schema().metadata.iter().collect();
    md.sort();
    for (k, v) in md {
        s.push_str(&format!("@{k}={v};"));
    }
    s
}

pub async fn index_list(ds: &Dataset) -> Result<(Vec<String>, Vec<String>), String> {
    let idx = crate::walker::guard(async { ds.load_indices().await.map_err(|e| e.to_string()) }).await?;
    let mut v: Vec<String> = idx
        .iter()
        .map(|i| {
            format!(
                "{}|{}|{:?}|dv{}|{:?}|iv{}|base{:?}",
                i.name,
                i.uuid,
                i.fields,
                i.dataset_version,
                i.fragment_bitmap.as_ref().map(|b| b.iter().collect::<Vec<_>>()),
                i.index_version,
                i.base_id
            )
        })
        .collect();
    v.sort();
    let mut names: Vec<String> = idx.iter().map(|i| i.name.clone()).collect();
    names.sort();
    names.dedup();
    Ok((v, names))
}

/// What a checkout shows, without the storage-level bookkeeping (used to compare a restored
/// version with its source: versions differ, so uuids of manifests do too, but contents must not).
impl Snapshot {
    pub fn content_digest(&self) -> u64 {
        let mut s = String::new();
        s.push_str(&self.schema);
        s.push('\n');
        for r in &self.rows {
            s.push_str(&render_row(r));
            s.push('\n');
        }
        for f in &self.frags {
            s.push_str(&format!("f{}:{:?}:{:?};", f.id, f.physical_rows, f.deleted));
        }
        s.push_str(&format!("{:?}", self.indices));
        fnv(s.as_bytes())
    }
    pub fn brief(&self) -> Value {
        json!({"version": self.version, "rows": self.rows.len(), "deleted": self.n_deleted,
               "fragments": self.frags.len(), "indices": self.index_names, "digest": format!("{:016x}", self.digest)})
    }
}

fn full_digest(s: &Snapshot) -> u64 {
    let mut t = String::new();
    t.push_str(&format!("{:016x}", s.content_digest()));
    t.push_str(&format!("{:?}{:?}", s.config, s.table_metadata));
    t.push_str(&format!("{}|{}|{:?}", s.stable_row_ids, s.next_row_id, s.max_fragment_id));
    t.push_str(&s.names.join(","));
    fnv(t.as_bytes())
}

pub async fn take_snapshot(ds: &Dataset, raw: &RawStore) -> Result<Snapshot, String> {
    let trace = std::env::var("E_HIST_TRACE").is_ok();
    if trace {
        eprintln!("TRACE     snapshot v{} of {}: walk", ds.manifest().version, ds.uri());
    }
    let w = walk(ds, raw, false).await;
    if trace {
        eprintln!("TRACE     snapshot: scan");
    }
    let (names, rows) = scan_rows(
        ds,
        &ScanOpts {
            with_row_id: true,
            ordered: true,
            ..Default::default()
        },
    )
    .await
    .map_err(|e| format!("scan: {e}"))?;
    let names = if names.is_empty() {
        let mut n: Vec<String> = ds.schema().fields.iter().map(|f| f.name.clone()).collect();
        n.push("_rowid".into());
        n
    } else {
        names
    };
    if trace {
        eprintln!("TRACE     snapshot: count_deleted_rows");
    }
    let n_deleted = ds.count_deleted_rows().await.map_err(|e| format!("count_deleted_rows: {e}"))?;
    if trace {
        eprintln!("TRACE     snapshot: index_list");
    }
    let (indices, index_names) = index_list(ds).await?;
    if trace {
        eprintln!("TRACE     snapshot: done");
    }
    let m = ds.manifest();
    let mut s = Snapshot {
        version: m.version,
        schema: schema_string(ds),
        names,
        rows,
        frags: w.frags,
        n_deleted,
        config: m.config.iter().map(|(k, v)| (k.clone(), v.clone())).collect(),
        table_metadata: m.table_metadata.iter().map(|(k, v)| (k.clone(), v.clone())).collect(),
        indices,
        index_names,
        stable_row_ids: m.uses_stable_row_ids(),
        next_row_id: m.next_row_id,
        max_fragment_id: m.max_fragment_id,
        timestamp: m.timestamp(),
        refs: w.refs,
        digest: 0,
        walk_problems: w.problems,
    };
    s.digest = full_digest(&s);
    Ok(s)
}

/// First difference between two snapshots of (supposedly) the same version: (narrow class, detail).
pub fn diff(old: &Snapshot, new: &Snapshot) -> Option<(String, Value)> {
    if old.digest == new.digest {
        return None;
    }
    if old.schema != new.schema {
        return Some(("schema-changed".into(), json!({"was": old.schema, "now": new.schema})));
    }
    if old.rows != new.rows {
        return Some(diff_rows(old, new));
    }
    if old.frags != new.frags || old.n_deleted != new.n_deleted {
        let was: Vec<_> = old.frags.iter().map(|f| (f.id, f.physical_rows, f.deleted.len())).collect();
        let now: Vec<_> = new.frags.iter().map(|f| (f.id, f.physical_rows, f.deleted.len())).collect();
        return Some((
            "deletions-or-fragments-changed".into(),
            json!({"was": format!("{was:?}"), "now": format!("{now:?}"), "n_deleted_was": old.n_deleted, "n_deleted_now": new.n_deleted}),
        ));
    }
    if old.indices != new.indices {
        return Some(("index-list-changed".into(), json!({"was": old.indices, "now": new.indices})));
    }
    if old.config != new.config || old.table_metadata != new.table_metadata {
        return Some(("config-changed".into(), json!({"was": old.config, "now": new.config})));
    }
    Some((
        "manifest-bookkeeping-changed".into(),
        json!({"was": [old.next_row_id, old.max_fragment_id.unwrap_or(0) as u64], "now": [new.next_row_id, new.max_fragment_id.unwrap_or(0) as u64]}),
    ))
}

pub fn diff_rows(old: &Snapshot, new: &Snapshot) -> (String, Value) {
    // classify: same multiset different order / rows lost / rows added / values changed
    let key = |s: &Snapshot| -> Option<usize> { s.names.iter().position(|n| n == "id") };
    let (ko, kn) = (key(old), key(new));
    if let (Some(ko), Some(kn)) = (ko, kn) {
        let mo: BTreeMap<i64, &Row> = old.rows.iter().filter_map(|r| r[ko].as_i64().map(|i| (i, r))).collect();
        let mn: BTreeMap<i64, &Row> = new.rows.iter().filter_map(|r| r[kn].as_i64().map(|i| (i, r))).collect();
        let lost: Vec<i64> = mo.keys().filter(|k| !mn.contains_key(k)).copied().collect();
        let added: Vec<i64> = mn.keys().filter(|k| !mo.contains_key(k)).copied().collect();
        let changed: Vec<i64> = mo
            .iter()
            .filter(|(k, r)| mn.get(k).map(|x| x != *r).unwrap_or(false))
            .map(|(k, _)| *k)
            .collect();
        let class = if !lost.is_empty() && added.is_empty() {
            "rows-lost"
        } else if lost.is_empty() && !added.is_empty() {
            "rows-added"
        } else if !lost.is_empty() {
            "rows-lost-and-added"
        } else if !changed.is_empty() {
            "row-values-changed"
        } else if old.rows.len() != new.rows.len() {
            "row-multiplicity-changed"
        } else {
            "row-order-changed"
        };
        let sample = |ids: &[i64], m: &BTreeMap<i64, &Row>| -> Vec<String> {
            ids.iter().take(4).filter_map(|i| m.get(i).map(|r| render_row(r))).collect()
        };
        return (
            class.into(),
            json!({"rows_was": old.rows.len(), "rows_now": new.rows.len(),
                   "lost_ids": lost.iter().take(10).collect::<Vec<_>>(), "added_ids": added.iter().take(10).collect::<Vec<_>>(),
                   "changed_ids": changed.iter().take(10).collect::<Vec<_>>(),
                   "was": sample(if !changed.is_empty() { &changed } else { &lost }, &mo),
                   "now": sample(if !changed.is_empty() { &changed } else { &added }, &mn)}),
        );
    }
    ("rows-changed".into(), json!({"rows_was": old.rows.len(), "rows_now": new.rows.len()}))
}
