//! C06 — not implemented yet.
use vmon::report::Args;

pub fn run(_args: &Args) -> i32 {
    eprintln!("HARNESS-ERROR C06 not implemented");
    2
}
