//! C06 — time travel is immutable.
//!
//! Snapshot of every version right after its commit; after every later step every retained
//! version is checked out again (fresh Session / the history's long-lived Session, alternating;
//! both at the end) and compared with its snapshot.
use crate::hist::{Hist, HistCfg, OpKind, Weights};
use serde_json::json;
use vmon::prng::Rng;
use vmon::report::{Args, Report};

fn weights() -> Weights {
    use OpKind::*;
    vec![
        (8, Append),
        (7, Overwrite),
        (6, DeleteIds),
        (2, DeleteVal),
        (5, Update),
        (4, Upsert),
        (3, PartialUpsert),
        (10, Compact),
        (4, CreateIndex),
        (2, OptimizeIndices),
        (2, AddColumn),
        (2, DropColumn),
        (2, AlterColumn),
        (2, UpdateConfig),
        (10, Restore),
        (3, TagCreate),
        (2, TagUpdate),
        (2, TagDelete),
        (3, BranchCreate),
        (2, BranchDelete),
        (1, ShallowClone),
        (3, StaleWrite),
        (8, ConcurrentDeletes),
        (5, Cleanup),
    ]
}

pub fn run(args: &Args) -> i32 {
    if args.extra.contains_key("selftest") {
        return selftest(args);
    }
    let report = Report::new(
        args,
        "exploration",
        "case = one seeded history (<=12 quick / <=40 thorough ops) weighted towards restore, overwrite, compaction, rebased concurrent deletes, tag/branch changes and cleanup of other versions; every version is snapshotted (schema, ordered rows incl. _rowid, deletion vectors, config, index list) when committed and re-read after every later step. Non-trivial = >=3 versions re-compared after a later restore/overwrite/compaction/rebase/cleanup/ref change; distinct by (config, op kinds, outcomes).",
        (70, 900),
    )
    .with_min_nontrivial(10);
    let max_ops = args.tier.pick(12usize, 40);
    let max_cases = args.tier.pick(4000u64, 200_000);
    if let Some(c) = args.extra.get("case").and_then(|c| c.parse::<u64>().ok()) {
        std::env::set_var("E_HIST_VERBOSE", "1");
        let rt = tokio::runtime::Builder::new_current_thread().enable_all().build().unwrap();
        rt.block_on(one_case(args.seed, c, max_ops, &report));
        return report.finish();
    }
    crate::hist::run_parallel(&report, args, 16, max_cases, 180, |i, report| {
        Box::pin(one_case(args.seed, i, max_ops, report))
    });
    report.finish()
}

fn disturbing(k: OpKind) -> bool {
    use OpKind::*;
    matches!(
        k,
        Restore | Overwrite | Compact | ConcurrentDeletes | Cleanup | TagCreate | TagUpdate | TagDelete | BranchCreate | BranchDelete | StaleWrite
    )
}

async fn one_case(seed: u64, case: u64, max_ops: usize, report: &Report) {
    let mut rng = Rng::for_case(seed, case);
    let cfg = HistCfg::random(&mut rng);
    let n_ops = rng.urange(5, max_ops);
    let w = weights();
    let mut h = Hist::mem(rng.clone(), cfg);
    h.case = case;
    let rec = h.create_table("memory://t0").await;
    if !rec.outcome.is_ok() {
        report.harness_error(&format!("case {case}: create failed: {}", rec.outcome.text()));
        return;
    }
    let mut recompared_after_disturbance = 0u64;
    let mut disturbed = false;
    for step in 0..n_ops {
        if !report.time_left() {
            break;
        }
        let kind: OpKind = *rng.pick_weighted(&w);
        let rec = h.step(kind).await;
        if rec.outcome.is_ok() && disturbing(kind) {
            disturbed = true;
        }
        // a version may only vanish through cleanup
        if !rec.removed_versions.is_empty() && kind != OpKind::Cleanup {
            let auto = h.cfg.auto_cleanup_default;
            report.violation(
                "version-vanished-without-cleanup",
                &format!("{:?} vanished after {}", rec.removed_versions, kind.name()),
                json!({"seed": seed, "case": case, "config": h.cfg.describe(), "auto_cleanup_default": auto, "ops": h.ops_json(48)}),
            );
        }
        for (loc, v, e) in &rec.unreadable {
            report.count("new_versions_unreadable_when_committed", 1);
            let _ = (loc, v, e); // C05's subject; not an immutability question
        }
        let last = step + 1 == n_ops;
        let new: std::collections::BTreeSet<(crate::hist::Loc, u64)> = rec.new_versions.iter().cloned().collect();
        for loc in h.live_locs() {
            let vs: Vec<u64> = h.lin[&loc].snaps.keys().copied().collect();
            // bound the quadratic cost: all versions while there are few, else a sample + the oldest
            let chosen: Vec<u64> = if vs.len() <= 14 || last {
                vs.clone()
            } else {
                let mut c: Vec<u64> = rng.sample_indices(vs.len(), 12).into_iter().map(|i| vs[i]).collect();
                c.push(vs[0]);
                c.sort();
                c.dedup();
                c
            };
            for v in chosen {
                if new.contains(&(loc.clone(), v)) {
                    continue; // snapshot just taken
                }
                let modes: Vec<bool> = if last { vec![true, false] } else { vec![(step as u64 + v) % 2 == 0] };
                for fresh in modes {
                    let r = h.recheck_version(&loc, v, fresh).await;
                    report.count("snapshots_recompared", 1);
                    report.count(if fresh { "recompared_fresh_session" } else { "recompared_shared_session" }, 1);
                    report.count("rows_recompared", h.lin[&loc].snaps[&v].rows.len() as u64);
                    if disturbed {
                        recompared_after_disturbance += 1;
                    }
                    let session = if fresh { "fresh-session" } else { "shared-session" };
                    match r {
                        Ok(None) => {}
                        Ok(Some((class, detail))) => {
                            report.violation(
                                &format!("old-version-{class}"),
                                &format!("{}:v{} read through a {} differs from its snapshot after step {} ({})", loc.label(), v, session, rec.idx, kind.name()),
                                json!({"seed": seed, "case": case, "config": h.cfg.describe(), "lineage": loc.label(), "version": v,
                                       "session": session, "after_step": rec.brief(), "diff": detail, "ops": h.ops_json(48)}),
                            );
                        }
                        Err(e) => {
                            let class = if e.starts_with("panic") { "panics" } else { "unreadable" };
                            report.violation(
                                &format!("old-version-{class}-after-{}", kind.name()),
                                &format!("{}:v{} ({}) is still listed but cannot be read after step {} ({}): {}", loc.label(), v, session, rec.idx, kind.name(), e),
                                json!({"seed": seed, "case": case, "config": h.cfg.describe(), "lineage": loc.label(), "version": v,
                                       "session": session, "after_step": rec.brief(), "error": e, "ops": h.ops_json(48)}),
                            );
                        }
                    }
                }
            }
        }
    }
    if std::env::var("E_HIST_VERBOSE").is_ok() {
        println!("config: {}", h.cfg.describe());
        for s in &h.steps {
            println!("{}", s.brief());
        }
        for p in &h.problems {
            println!("PROBLEM {p}");
        }
        for p in &h.model_disagreements {
            println!("MODEL {p}");
        }
    }
    h.count_ops(report);
    report.count("snapshots_taken", h.snapshots_taken);
    let nontrivial = recompared_after_disturbance >= 3;
    report.case(if nontrivial { Some(h.shape_sig()) } else { None });
    if report.want_sample() && nontrivial {
        report.sample(json!({"case": case, "config": h.cfg.describe(),
                             "versions": h.live_locs().iter().map(|l| format!("{}: {:?}", l.label(), h.lin[l].snaps.keys().collect::<Vec<_>>())).collect::<Vec<_>>(),
                             "recompared_after_disturbance": recompared_after_disturbance, "ops": h.ops_json(14)}));
    }
}

fn selftest(args: &Args) -> i32 {
    use crate::snap::diff;
    let rt = tokio::runtime::Builder::new_current_thread().enable_all().build().unwrap();
    let snap = rt.block_on(async {
        let mut rng = Rng::for_case(args.seed, 0);
        let mut cfg = HistCfg::random(&mut rng);
        cfg.storage = lance_encoding::version::LanceFileVersion::V2_0;
        let mut h = Hist::mem(rng, cfg);
        h.create_table("memory://t0").await;
        for k in [OpKind::Append, OpKind::DeleteIds, OpKind::CreateIndex, OpKind::UpdateConfig] {
            h.step(k).await;
        }
        let loc = h.live_locs()[0].clone();
        let latest = h.lin[&loc].latest();
        assert!(h.recheck_version(&loc, latest, true).await.unwrap().is_none());
        h.lin[&loc].snaps[&latest].clone()
    });
    let mut fails = vec![];
    let mut expect = |name: &str, mutated: crate::snap::Snapshot, class: &str| {
        let mut m = mutated;
        m.digest ^= 1; // the digest is recomputed by a real re-read; here force the slow path
        match diff(&snap, &m) {
            Some((c, _)) if c == class => {}
            other => fails.push(format!("{name}: expected {class}, got {:?}", other.map(|x| x.0))),
        }
    };
    let mut m = snap.clone();
    m.rows.pop();
    expect("drop row", m, "rows-lost");
    let mut m = snap.clone();
    m.rows.swap(0, 1);
    expect("reorder", m, "row-order-changed");
    let mut m = snap.clone();
    m.rows[0][1] = vmon::table::Cell::Int(123456);
    expect("value", m, "row-values-changed");
    let mut m = snap.clone();
    let f = m.frags.iter_mut().find(|f| !f.deleted.is_empty()).expect("deleted rows");
    f.deleted.pop();
    expect("deletion vector", m, "deletions-or-fragments-changed");
    let mut m = snap.clone();
    m.indices.clear();
    expect("index list", m, "index-list-changed");
    let mut m = snap.clone();
    m.config.insert("vk.zz".into(), "1".into());
    expect("config", m, "config-changed");
    let mut m = snap.clone();
    m.schema.push_str("x#99:Int32;");
    expect("schema", m, "schema-changed");
    if fails.is_empty() {
        println!("SELFTEST C06 ok: 7 corruptions of the re-read observation all flagged");
        0
    } else {
        for f in fails {
            println!("SELFTEST C06 FAILED: {f}");
        }
        2
    }
}
