//! C38 — caching is transparent.
//!
//! One history per case on 1-3 tables sharing ONE long-lived Session whose cache capacities are
//! {0, tiny (forces eviction), default-large}; every write goes through that Session. After every
//! step every kind of read is done twice on the same store state — through the shared Session
//! (long-lived handle and a newly opened one) and through a brand-new Session (reference) — and the
//! results must be identical: full snapshot (schema, ordered rows with _rowid, deletion vectors,
//! config, index list), take(), indexed queries, checkouts of old versions. Includes
//! delete-all-objects-and-recreate at the same URI inside the Session.
use crate::hist::{Env, Hist, HistCfg, Loc, OpKind, Weights};
use crate::snap::{diff, take_snapshot, Snapshot};
use futures::TryStreamExt;
use lance::session::Session;
use lance::Dataset;
use serde_json::json;
use std::collections::BTreeSet;
use std::sync::Arc;
use vmon::prng::Rng;
use vmon::report::{Args, Report};
use vmon::store::World;
use vmon::table::{batch_to_rows, batches_to_rows, Actor, Row};

fn weights() -> Weights {
    use OpKind::*;
    vec![
        (10, Append),
        (8, Overwrite),
        (6, DeleteIds),
        (2, DeleteVal),
        (5, Update),
        (4, Upsert),
        (3, PartialUpsert),
        (6, Compact),
        (5, CreateIndex),
        (2, OptimizeIndices),
        (2, AddColumn),
        (2, DropColumn),
        (2, AlterColumn),
        (2, UpdateConfig),
        (8, Restore),
        (5, DropRecreate),
        (2, TagCreate),
        (2, BranchCreate),
        (2, StaleWrite),
        (3, ConcurrentDeletes),
    ]
}

const CACHES: &[(&str, usize, usize)] = &[
    ("none", 0, 0),
    ("tiny", 2 * 1024, 2 * 1024),
    ("large", 256 * 1024 * 1024, 256 * 1024 * 1024),
];

pub fn run(args: &Args) -> i32 {
    if args.extra.contains_key("selftest") {
        return selftest(args);
    }
    let report = Report::new(
        args,
        "exploration",
        "case = seeded history (<=12 quick / <=40 thorough ops, weighted towards overwrite, restore+append, delete/update/compaction with stable row ids, index builds, drop-and-recreate at the same URI) on 1-3 tables written through one shared Session with cache capacity none / tiny / large; after every step all reads (snapshot scan with _rowid, take, indexed queries, old-version checkouts) through the shared Session are compared with the same reads through a fresh Session. Non-trivial = >=6 differential reads and, unless capacity is none, >=1 cache hit recorded by the Session's CacheStats; distinct by (cache config, tables, op kinds, outcomes).",
        (70, 900),
    )
    .with_min_nontrivial(10);
    let max_ops = args.tier.pick(12usize, 40);
    let max_cases = args.tier.pick(4000u64, 200_000);
    if let Some(c) = args.extra.get("case").and_then(|c| c.parse::<u64>().ok()) {
        std::env::set_var("E_HIST_VERBOSE", "1");
        let rt = tokio::runtime::Builder::new_current_thread().enable_all().build().unwrap();
        rt.block_on(one_case(args.seed, c, max_ops, &report));
        return report.finish();
    }
    crate::hist::run_parallel(&report, args, 16, max_cases, 240, |i, report| {
        Box::pin(one_case(args.seed, i, max_ops, report))
    });
    report.finish()
}

#[derive(Debug, Clone, PartialEq)]
struct Reads {
    take: Option<Vec<Row>>,
    /// take_rows by _rowid (goes through the row-id index when stable row ids are on)
    take_rows: Option<Vec<Row>>,
    queries: Vec<(String, BTreeSet<i64>)>,
}

async fn other_reads(ds: &Dataset, offsets: &[u64], preds: &[String], row_ids: &[u64]) -> Result<Reads, String> {
    let trace = std::env::var("E_HIST_TRACE").is_ok();
    if trace {
        eprintln!("TRACE     reads: take_rows {:?} take {:?} preds {:?}", row_ids, offsets, preds);
    }
    let take_rows = if row_ids.is_empty() {
        None
    } else {
        let b = ds.take_rows(row_ids, ds.schema().clone()).await.map_err(|e| format!("take_rows: {e}"))?;
        Some(batch_to_rows(&b))
    };
    let take = if offsets.is_empty() {
        None
    } else {
        let b = ds.take(offsets, ds.schema().clone()).await.map_err(|e| format!("take: {e}"))?;
        Some(batch_to_rows(&b))
    };
    let mut queries = vec![];
    for p in preds {
        if trace {
            eprintln!("TRACE     reads: query {p}");
        }
        let mut sc = ds.scan();
        sc.filter(p).map_err(|e| format!("filter {p}: {e}"))?;
        sc.project(&["id"]).map_err(|e| e.to_string())?;
        let st = sc.try_into_stream().await.map_err(|e| format!("query {p}: {e}"))?;
        let bs: Vec<arrow_array::RecordBatch> = st.try_collect().await.map_err(|e| format!("query {p}: {e}"))?;
        queries.push((p.clone(), batches_to_rows(&bs).iter().filter_map(|r| r[0].as_i64()).collect()));
    }
    Ok(Reads { take, take_rows, queries })
}

async fn full_read(ds: &Dataset, h: &Hist, offsets: &[u64], preds: &[String]) -> Result<(Snapshot, Reads), String> {
    // generous watchdog: a read that does not complete is reported as inconclusive by the caller
    let fut = crate::walker::guard(async {
        let s = take_snapshot(ds, &h.env.raw()).await?;
        // row ids of the first / middle / last row this very read returned
        let k = s.names.iter().position(|n| n == "_rowid");
        let mut row_ids: Vec<u64> = vec![];
        if let (Some(k), false) = (k, s.rows.is_empty()) {
            for i in [0, s.rows.len() / 2, s.rows.len() - 1] {
                if let Some(x) = s.rows[i][k].as_i64() {
                    row_ids.push(x as u64);
                }
            }
            row_ids.dedup();
        }
        let r = other_reads(ds, offsets, preds, &row_ids).await?;
        Ok((s, r))
    });
    match tokio::time::timeout(std::time::Duration::from_secs(60), fut).await {
        Ok(r) => r,
        Err(_) => Err("WATCHDOG: read did not complete within 60 s".into()),
    }
}

async fn one_case(seed: u64, case: u64, max_ops: usize, report: &Report) {
    let mut rng = Rng::for_case(seed, case);
    let mut cfg = HistCfg::random(&mut rng);
    if rng.chance(2, 3) && cfg.storage != lance_encoding::version::LanceFileVersion::Legacy {
        cfg.stable_row_ids = true;
    }
    cfg.no_deferred_remap = std::env::var("E_HIST_C38_NO_DEFER").is_ok();
    let (cache_name, idx_bytes, meta_bytes) = CACHES[(case % 3) as usize];
    // An indexed query through a zero-capacity Session never completes after a deferred-remap
    // compaction (liveness; work/findings/C38-indexed-query-never-completes-…md). The watchdog makes
    // that inconclusive but costs 60 s per hit, so the quick tier does not combine the two.
    if cache_name == "none" && max_ops <= 12 {
        cfg.no_deferred_remap = true;
    }
    let n_tables = rng.urange(1, 3);
    let n_ops = rng.urange(6, max_ops);
    let w = weights();
    let world = World::memory();
    let session = Arc::new(Session::new(idx_bytes, meta_bytes, Default::default()));
    let actor = Actor { store: world.new_actor(0), session: session.clone(), commit_handler: None };
    let mut h = Hist::new(Env::Mem { world, actor }, rng.clone(), cfg);
    h.case = case;
    for t in 0..n_tables {
        let rec = h.create_table(&format!("memory://t{t}")).await;
        if !rec.outcome.is_ok() {
            report.harness_error(&format!("case {case}: create failed: {}", rec.outcome.text()));
            return;
        }
    }
    let mut reads = 0u64;
    for _ in 0..n_ops {
        if !report.time_left() {
            break;
        }
        let kind: OpKind = *rng.pick_weighted(&w);
        let rec = h.step(kind).await;
        // narrow class suffix: was this table dropped and re-created at the same URI earlier in this Session?
        let recreated: BTreeSet<String> = h
            .steps
            .iter()
            .filter(|s| s.kind == OpKind::DropRecreate && s.outcome.is_ok())
            .filter_map(|s| s.loc.as_ref().map(|l| l.table.clone()))
            .collect();
        let suffix = |loc: &Loc| if recreated.contains(&loc.table) { "-after-drop-and-recreate-at-same-uri" } else { "" };
        let ctx = |h: &Hist| json!({"seed": seed, "case": case, "config": h.cfg.describe(), "cache": cache_name, "tables": n_tables, "after_step": rec.brief(), "ops": h.ops_json(48)});
        for loc in h.live_locs() {
            let lin = &h.lin[&loc];
            let latest = lin.latest();
            let mut versions = vec![latest];
            let olds: Vec<u64> = lin.snaps.keys().copied().filter(|v| *v != latest).collect();
            for i in rng.sample_indices(olds.len(), 2.min(olds.len())) {
                versions.push(olds[i]);
            }
            // read parameters from the model of the latest version (only used on the latest)
            let n_rows = lin.model.rows.len() as u64;
            let offsets: Vec<u64> = if n_rows > 0 { (0..4).map(|_| rng.below(n_rows)).collect() } else { vec![] };
            let mut preds = vec![];
            for name in lin.model.index_names.iter() {
                if let Some(c) = name.strip_suffix("_idx") {
                    if let Some(pos) = lin.model.col(c) {
                        preds.push(format!("{c} IS NOT NULL"));
                        if let Some(vmon::table::Cell::Int(i)) = lin.model.rows.values().next().map(|r| r[pos].clone()) {
                            preds.push(format!("{c} = {i}"));
                        }
                    }
                }
            }
            for v in versions {
                let on_latest = v == latest;
                let (offs, prs): (&[u64], &[String]) = if on_latest { (&offsets, &preds) } else { (&[], &[]) };
                // reference: brand-new Session
                let reference = match h.open_at(&loc, Some(v), true).await {
                    Ok(ds) => full_read(&ds, &h, offs, prs).await,
                    Err(e) => Err(format!("open: {e}")),
                };
                // shared Session, two ways
                let mut shared: Vec<(&str, Result<(Snapshot, crate::c38::Reads), String>)> = vec![];
                let via_handle = match lin.head.checkout_version((loc.branch.clone(), Some(v))).await {
                    Ok(ds) => full_read(&ds, &h, offs, prs).await,
                    Err(e) => Err(format!("checkout: {e}")),
                };
                shared.push(("long-lived handle", via_handle));
                let via_open = match h.open_at(&loc, Some(v), false).await {
                    Ok(ds) => full_read(&ds, &h, offs, prs).await,
                    Err(e) => Err(format!("open: {e}")),
                };
                shared.push(("new open with the shared Session", via_open));
                for (how, got) in shared {
                    reads += 1;
                    report.count("differential_reads", 1);
                    if !prs.is_empty() {
                        report.count("indexed_queries_compared", prs.len() as u64);
                    }
                    if let Some(e) = [&reference, &got].iter().filter_map(|r| r.as_ref().err()).find(|e| e.starts_with("WATCHDOG")) {
                        report.inconclusive(&format!("case {case}: {}:v{} ({how}, cache {cache_name}): {e}", loc.label(), v));
                        // one firing per case is enough: give the rest of the budget to other cases
                        h.count_ops(report);
                        report.case(None);
                        return;
                    }
                    match (&reference, &got) {
                        (Ok((rs, rr)), Ok((gs, gr))) => {
                            report.count("rows_compared", rs.rows.len() as u64);
                            if let Some((class, detail)) = diff(rs, gs) {
                                report.violation(
                                    &if suffix(&loc).is_empty() { format!("shared-session-read-{class}") } else { "shared-session-reads-differ-from-fresh-session-after-drop-and-recreate-at-same-uri".to_string() },
                                    &format!("{}:v{} through the shared Session ({how}, cache {cache_name}) differs from a fresh Session", loc.label(), v),
                                    json!({"ctx": ctx(&h), "how": how, "diff": detail}),
                                );
                            } else if rr != gr {
                                let class = if rr.take != gr.take {
                                    "take"
                                } else if rr.take_rows != gr.take_rows {
                                    "take_rows"
                                } else {
                                    "indexed-query"
                                };
                                report.violation(
                                    &if suffix(&loc).is_empty() { format!("shared-session-{class}-differs") } else { "shared-session-reads-differ-from-fresh-session-after-drop-and-recreate-at-same-uri".to_string() },
                                    &format!("{}:v{} {class} through the shared Session ({how}, cache {cache_name}) differs from a fresh Session", loc.label(), v),
                                    json!({"ctx": ctx(&h), "how": how, "fresh": format!("{rr:?}").chars().take(600).collect::<String>(), "shared": format!("{gr:?}").chars().take(600).collect::<String>()}),
                                );
                            }
                        }
                        (Ok(_), Err(e)) => {
                            report.violation(
                                &if suffix(&loc).is_empty() { "shared-session-read-fails-where-fresh-session-succeeds".to_string() } else { "read-fails-in-only-one-of-shared-and-fresh-session-after-drop-and-recreate-at-same-uri".to_string() },
                                &format!("{}:v{} ({how}, cache {cache_name}): {}", loc.label(), v, e.chars().take(300).collect::<String>()),
                                json!({"ctx": ctx(&h), "how": how, "error": e}),
                            );
                        }
                        (Err(e), Ok(_)) => {
                            report.violation(
                                &if suffix(&loc).is_empty() { "fresh-session-read-fails-where-shared-session-succeeds".to_string() } else { "read-fails-in-only-one-of-shared-and-fresh-session-after-drop-and-recreate-at-same-uri".to_string() },
                                &format!("{}:v{} ({how}, cache {cache_name}): {}", loc.label(), v, e.chars().take(300).collect::<String>()),
                                json!({"ctx": ctx(&h), "how": how, "error": e}),
                            );
                        }
                        (Err(_), Err(_)) => {
                            report.count("reads_failing_with_and_without_cache", 1);
                        }
                    }
                }
            }
        }
    }
    let ms = session.metadata_cache_stats().await;
    let is = session.index_cache_stats().await;
    report.count(&format!("cache_{cache_name}_metadata_hits"), ms.hits);
    report.count(&format!("cache_{cache_name}_metadata_misses"), ms.misses);
    report.count(&format!("cache_{cache_name}_index_hits"), is.hits);
    report.count(&format!("cache_{cache_name}_index_misses"), is.misses);
    report.count(&format!("cache_{cache_name}_entries_at_end"), (ms.num_entries + is.num_entries) as u64);
    report.count(&format!("histories_cache_{cache_name}"), 1);
    if std::env::var("E_HIST_VERBOSE").is_ok() {
        println!("config: {} cache {cache_name}", h.cfg.describe());
        for s in &h.steps {
            println!("{}", s.brief());
        }
        for p in &h.problems {
            println!("PROBLEM {p}");
        }
        println!("metadata cache {:?} index cache {:?}", ms, is);
    }
    h.count_ops(report);
    let nontrivial = reads >= 6 && (cache_name == "none" || ms.hits + is.hits > 0);
    let sig = vmon::prng::fnv_str(&format!("{cache_name}:{n_tables}:{:x}", h.shape_sig()));
    report.case(if nontrivial { Some(sig) } else { None });
    if report.want_sample() && nontrivial {
        report.sample(json!({"case": case, "config": h.cfg.describe(), "cache": cache_name, "tables": n_tables, "differential_reads": reads,
                             "metadata_cache": {"hits": ms.hits, "misses": ms.misses, "entries": ms.num_entries},
                             "index_cache": {"hits": is.hits, "misses": is.misses, "entries": is.num_entries}, "ops": h.ops_json(12)}));
    }
}

fn selftest(args: &Args) -> i32 {
    // corrupt the shared-session observation and check the differential oracle fires
    let rt = tokio::runtime::Builder::new_current_thread().enable_all().build().unwrap();
    let ok = rt.block_on(async {
        let mut rng = Rng::for_case(args.seed, 0);
        let mut cfg = HistCfg::random(&mut rng);
        cfg.storage = lance_encoding::version::LanceFileVersion::V2_0;
        let mut h = Hist::mem(rng, cfg);
        h.create_table("memory://t0").await;
        h.step(OpKind::Append).await;
        let loc = Loc::main("memory://t0");
        let ds = h.open_at(&loc, None, true).await.unwrap();
        let (s, r) = full_read(&ds, &h, &[0, 1], &[]).await.unwrap();
        let mut s2 = s.clone();
        s2.rows[0][1] = vmon::table::Cell::Int(987654);
        s2.digest ^= 1;
        let mut r2 = r.clone();
        r2.take.as_mut().unwrap().swap(0, 1);
        diff(&s, &s2).is_some() && r != r2 && diff(&s, &s).is_none()
    });
    println!("SELFTEST C38 {}", if ok { "ok" } else { "FAILED" });
    if ok {
        0
    } else {
        2
    }
}
