//! C42 — a copied table root is a complete, identical table.
//!
//! Histories on a local temp directory (plain `Dataset::write` on a file path, no store wrapper,
//! no branches / shallow clones); then every file under the root is copied byte-for-byte with
//! std::fs to another directory, the original is deleted, the copy is opened with a fresh Session
//! and every version, index query and tag is compared with what the original showed.
use crate::hist::{Env, Hist, HistCfg, Loc, OpKind, Weights};
use crate::snap::{diff, take_snapshot};
use crate::walker::{walk, RawStore};
use futures::TryStreamExt;
use lance::dataset::ReadParams;
use lance::session::Session;
use lance::Dataset;
use serde_json::json;
use std::collections::{BTreeMap, BTreeSet};
use std::sync::Arc;
use vmon::prng::Rng;
use vmon::report::{Args, Report};
use vmon::table::{batches_to_rows, Cell};

fn weights() -> Weights {
    use OpKind::*;
    vec![
        (12, Append),
        (2, Overwrite),
        (7, DeleteIds),
        (3, DeleteVal),
        (5, Update),
        (4, Upsert),
        (3, PartialUpsert),
        (6, Compact),
        (7, CreateIndex),
        (3, OptimizeIndices),
        (3, AddColumn),
        (2, DropColumn),
        (3, AlterColumn),
        (2, UpdateConfig),
        (4, Restore),
        (5, TagCreate),
        (2, TagUpdate),
        (1, TagDelete),
        (3, ConcurrentDeletes),
        (2, StaleWrite),
        (2, Cleanup),
    ]
}

pub fn run(args: &Args) -> i32 {
    let report = Report::new(
        args,
        "exploration",
        "case = seeded history (<=12 quick / <=40 thorough ops: appends, deletes, updates, merge_insert, compaction, scalar indices, schema changes, restore, tags, cleanup; no branches/clones) on a local directory; the root is copied file by file to a new directory, the original removed, the copy opened with a fresh Session. Compared: snapshot of every version (schema, ordered rows incl. _rowid, deletion vectors, config, index list), answers of indexed queries, tags, deep structural walk of the copied latest. Non-trivial = >=3 versions compared and the table has a deletion file, an index or a tag; distinct by (config, op kinds, outcomes).",
        (70, 900),
    )
    .with_min_nontrivial(10);
    let max_ops = args.tier.pick(12usize, 40);
    let max_cases = args.tier.pick(3000u64, 100_000);
    if let Some(c) = args.extra.get("case").and_then(|c| c.parse::<u64>().ok()) {
        std::env::set_var("E_HIST_VERBOSE", "1");
        let rt = tokio::runtime::Builder::new_current_thread().enable_all().build().unwrap();
        rt.block_on(one_case(args.seed, c, max_ops, &report, args.extra.contains_key("selftest")));
        return report.finish();
    }
    let selftest = args.extra.contains_key("selftest");
    crate::hist::run_parallel(&report, args, 16, if selftest { 16 } else { max_cases }, 240, |i, report| {
        Box::pin(one_case(args.seed, i, max_ops, report, selftest))
    });
    if selftest {
        // in selftest mode the copy is corrupted on purpose: the oracle must have fired
        let fired = report.n_violations() > 0;
        println!("SELFTEST C42 {}", if fired { "ok: corrupted copies were flagged" } else { "FAILED: corrupted copies not flagged" });
        return if fired { 0 } else { 2 };
    }
    report.finish()
}

fn copy_dir(from: &std::path::Path, to: &std::path::Path, files: &mut u64, bytes: &mut u64) -> std::io::Result<()> {
    std::fs::create_dir_all(to)?;
    for e in std::fs::read_dir(from)? {
        let e = e?;
        let ft = e.file_type()?;
        let dst = to.join(e.file_name());
        if ft.is_dir() {
            copy_dir(&e.path(), &dst, files, bytes)?;
        } else if ft.is_file() {
            let data = std::fs::read(e.path())?;
            *bytes += data.len() as u64;
            *files += 1;
            std::fs::write(&dst, data)?;
        }
    }
    Ok(())
}

/// id sets answered by a battery of queries on indexed columns (plan must mention the index to count)
async fn index_battery(ds: &Dataset, model: &crate::hist::Model) -> Vec<(String, bool, Result<BTreeSet<i64>, String>)> {
    let mut out = vec![];
    let cols: Vec<String> = model
        .index_names
        .iter()
        .filter_map(|n| n.strip_suffix("_idx").map(|s| s.to_string()))
        .filter(|c| model.cols.contains(c))
        .collect();
    for c in cols {
        let pos = model.col(&c).unwrap();
        let mut preds = vec![format!("{c} IS NULL"), format!("{c} IS NOT NULL")];
        let mut seen = 0;
        for r in model.rows.values() {
            match &r[pos] {
                Cell::Int(i) if seen < 2 => {
                    preds.push(format!("{c} = {i}"));
                    preds.push(format!("{c} >= {i}"));
                    seen += 1;
                }
                Cell::Str(s) if seen < 2 && !s.contains('\'') => {
                    preds.push(format!("{c} = '{s}'"));
                    seen += 1;
                }
                _ => {}
            }
        }
        for p in preds {
            let mut sc = ds.scan();
            let r = async {
                sc.filter(&p).map_err(|e| e.to_string())?;
                sc.project(&["id"]).map_err(|e| e.to_string())?;
                let plan = sc.explain_plan(false).await.map_err(|e| e.to_string())?;
                let st = sc.try_into_stream().await.map_err(|e| e.to_string())?;
                let bs: Vec<arrow_array::RecordBatch> = st.try_collect().await.map_err(|e| e.to_string())?;
                let ids: BTreeSet<i64> = batches_to_rows(&bs).iter().filter_map(|r| r[0].as_i64()).collect();
                Ok::<_, String>((plan.contains("ScalarIndexQuery"), ids))
            };
            match crate::walker::guard(r).await {
                Ok((used, ids)) => out.push((p, used, Ok(ids))),
                Err(e) => out.push((p, false, Err(e))),
            }
        }
    }
    out
}

async fn one_case(seed: u64, case: u64, max_ops: usize, report: &Report, selftest: bool) {
    let mut rng = Rng::for_case(seed, case);
    let mut cfg = HistCfg::random(&mut rng);
    cfg.allow_refs = false;
    let n_ops = rng.urange(5, max_ops);
    let w = weights();
    let dir = match tempfile::Builder::new().prefix("e_hist-c42-").tempdir_in("/tmp") {
        Ok(d) => d,
        Err(e) => {
            report.harness_error(&format!("tempdir: {e}"));
            return;
        }
    };
    let root = dir.path().join("orig").join("tbl");
    std::fs::create_dir_all(root.parent().unwrap()).ok();
    let uri = root.to_string_lossy().to_string();
    let env = Env::Fs { session: Arc::new(Session::default()) };
    let mut h = Hist::new(env, rng.clone(), cfg);
    h.case = case;
    let rec = h.create_table(&uri).await;
    if !rec.outcome.is_ok() {
        report.harness_error(&format!("case {case}: create failed: {}", rec.outcome.text()));
        return;
    }
    for _ in 0..n_ops {
        if !report.time_left() {
            break;
        }
        let kind: OpKind = *rng.pick_weighted(&w);
        h.step(kind).await;
    }
    let loc = Loc::main(&uri);
    let Some(lin) = h.lin.get(&loc) else { return };
    let snaps = lin.snaps.clone();
    let model = lin.model.clone();
    let tags: BTreeMap<String, u64> = h.tags.iter().map(|((_, n), (_, v))| (n.clone(), *v)).collect();
    let battery_before = index_battery(&lin.head, &model).await;
    let has_structure = snaps.values().any(|s| s.n_deleted > 0 || !s.indices.is_empty()) || !tags.is_empty();
    // ---- copy, delete the original, open the copy
    let copy_root = dir.path().join("copy").join("moved-tbl");
    let (mut files, mut bytes) = (0u64, 0u64);
    if let Err(e) = copy_dir(&root, &copy_root, &mut files, &mut bytes) {
        report.harness_error(&format!("copy failed: {e}"));
        return;
    }
    report.count("files_copied", files);
    report.count("bytes_copied", bytes);
    drop(h.lin.remove(&loc));
    if let Err(e) = std::fs::remove_dir_all(&root) {
        report.harness_error(&format!("remove original: {e}"));
        return;
    }
    if selftest {
        // corrupt the *copy*: drop one data or deletion file (an incomplete copy must be noticed)
        let mut victims = vec![];
        for sub in ["_deletions", "data"] {
            if let Ok(rd) = std::fs::read_dir(copy_root.join(sub)) {
                for e in rd.flatten() {
                    victims.push(e.path());
                }
            }
            if !victims.is_empty() {
                break;
            }
        }
        if let Some(v) = victims.first() {
            let _ = std::fs::remove_file(v);
        }
    }
    let copy_uri = copy_root.to_string_lossy().to_string();
    let ctx = |extra: serde_json::Value| json!({"seed": seed, "case": case, "config": h.cfg.describe(), "detail": extra, "ops": h.ops_json(48)});
    let fresh = || ReadParams { session: Some(Arc::new(Session::default())), ..Default::default() };
    let mut compared = 0u64;
    for (v, old) in &snaps {
        let r = crate::walker::guard(async {
            let ds = lance::dataset::builder::DatasetBuilder::from_uri(&copy_uri)
                .with_read_params(fresh())
                .with_version(*v)
                .load()
                .await
                .map_err(|e| format!("open: {e}"))?;
            take_snapshot(&ds, &RawStore::Fs).await
        })
        .await;
        report.count("versions_compared_at_copy", 1);
        report.count("rows_compared", old.rows.len() as u64);
        compared += 1;
        match r {
            Ok(new) => {
                if let Some((class, detail)) = diff(old, &new) {
                    report.violation(
                        &format!("copied-table-version-{class}"),
                        &format!("v{v} read at the copy differs from the original"),
                        ctx(json!({"version": v, "diff": detail})),
                    );
                }
            }
            Err(e) => {
                report.violation(
                    "copied-table-version-unreadable",
                    &format!("v{v} cannot be read at the copy: {}", e.chars().take(300).collect::<String>()),
                    ctx(json!({"version": v, "error": e})),
                );
            }
        }
    }
    // latest: structure, indices, tags
    match lance::dataset::builder::DatasetBuilder::from_uri(&copy_uri).with_read_params(fresh()).load().await {
        Err(e) => {
            report.violation("copied-table-cannot-be-opened", &e.to_string(), ctx(json!({})));
        }
        Ok(ds) => {
            let wk = walk(&ds, &RawStore::Fs, true).await;
            report.count("copied_latest_walked", 1);
            if let Some((sig, d)) = wk.problems.first() {
                // structural defects that exist at the original too are C05's subject; at the copy
                // only what the move could cause is judged: missing / unreadable objects
                if sig.contains("missing") || sig.contains("unreadable") || d.contains("ot found") {
                    report.violation(&format!("copied-latest-{sig}"), d, ctx(json!({"problems": wk.problems})));
                }
            }
            let battery_after = index_battery(&ds, &model).await;
            for ((p, used_b, rb), (_, used_a, ra)) in battery_before.iter().zip(battery_after.iter()) {
                report.count("index_queries_compared", 1);
                if *used_b || *used_a {
                    report.count("index_queries_using_scalar_index", 1);
                }
                match (rb, ra) {
                    (Ok(b), Ok(a)) if a != b => {
                        report.violation(
                            "copied-table-index-query-differs",
                            &format!("{p}: {} ids at the original, {} at the copy", b.len(), a.len()),
                            ctx(json!({"query": p})),
                        );
                    }
                    (Ok(_), Err(e)) => {
                        report.violation(
                            "copied-table-index-query-fails",
                            &format!("{p}: {}", e.chars().take(200).collect::<String>()),
                            ctx(json!({"query": p})),
                        );
                    }
                    _ => {}
                }
            }
            match ds.tags().list().await {
                Ok(m) => {
                    let got: BTreeMap<String, u64> = m.iter().map(|(k, v)| (k.clone(), v.version)).collect();
                    report.count("tags_compared", tags.len() as u64);
                    if got != tags {
                        report.violation(
                            "copied-table-tags-differ",
                            &format!("tags at the copy {:?}, at the original {:?}", got, tags),
                            ctx(json!({})),
                        );
                    }
                    for (name, v) in &tags {
                        if !snaps.contains_key(v) {
                            continue;
                        }
                        match ds.checkout_version(name.as_str()).await {
                            Ok(t) if t.manifest().version == *v => {}
                            Ok(t) => {
                                report.violation(
                                    "copied-table-tag-resolves-elsewhere",
                                    &format!("tag {name} -> v{} at the copy, v{v} at the original", t.manifest().version),
                                    ctx(json!({})),
                                );
                            }
                            Err(e) => {
                                report.violation("copied-table-tag-checkout-fails", &format!("tag {name}: {e}"), ctx(json!({})));
                            }
                        }
                    }
                }
                Err(e) => {
                    report.violation("copied-table-tags-unlistable", &e.to_string(), ctx(json!({})));
                }
            }
        }
    }
    if std::env::var("E_HIST_VERBOSE").is_ok() {
        println!("config: {}", h.cfg.describe());
        for s in &h.steps {
            println!("{}", s.brief());
        }
        for p in &h.problems {
            println!("PROBLEM {p}");
        }
    }
    h.count_ops(report);
    let nontrivial = compared >= 3 && has_structure;
    report.case(if nontrivial { Some(h.shape_sig()) } else { None });
    if report.want_sample() && nontrivial {
        report.sample(json!({"case": case, "config": h.cfg.describe(), "versions_compared": compared, "files_copied": files,
                             "tags": tags, "indices": model.index_names, "ops": h.ops_json(12)}));
    }
}
