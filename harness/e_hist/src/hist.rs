//! Seeded history engine shared by all E-HIST checks: operation kinds, generator + executor over
//! the public Dataset API, executable model per lineage, per-version snapshots, step records.

use arrow_array::{RecordBatch, RecordBatchIterator};
use arrow_schema::{DataType, Field as ArrowField, Schema as ArrowSchema};
use chrono::{DateTime, Utc};
use futures::FutureExt;
use lance::dataset::cleanup::{CleanupPolicy, CleanupPolicyBuilder};
use lance::dataset::optimize::{compact_files, CompactionOptions};
use lance::dataset::{
    ColumnAlteration, MergeInsertBuilder, NewColumnTransform, ReadParams, UpdateBuilder,
    WhenMatched, WhenNotMatched, WriteMode, WriteParams,
};
use lance::session::Session;
use lance::Dataset;
use lance_encoding::version::LanceFileVersion;
use lance_index::optimize::OptimizeOptions;
use lance_index::scalar::{BuiltinIndexType, ScalarIndexParams};
use lance_index::{DatasetIndexExt, IndexType};
use lance_io::object_store::ObjectStoreParams;
use serde_json::{json, Value};
use std::collections::{BTreeMap, BTreeSet};
use std::panic::AssertUnwindSafe;
use std::sync::Arc;
use vmon::prng::Rng;
use vmon::report::{Args, Report};
use vmon::store::{Fault, FaultPlan, World};
use vmon::table::{batch_to_rows, Actor, Cell, ColSpec, ColTy, IdAlloc, Row, TableSpec};

use crate::snap::{take_snapshot, Snapshot};
use crate::walker::RawStore;

// -------------------------------------------------------------------------------------------
// environment
// -------------------------------------------------------------------------------------------

#[derive(Clone)]
pub enum Env {
    Mem { world: Arc<World>, actor: Actor },
    Fs { session: Arc<Session> },
}

impl Env {
    pub fn raw(&self) -> RawStore {
        match self {
            Env::Mem { world, .. } => RawStore::World(world.clone()),
            Env::Fs { .. } => RawStore::Fs,
        }
    }
    pub fn world(&self) -> Option<&Arc<World>> {
        match self {
            Env::Mem { world, .. } => Some(world),
            Env::Fs { .. } => None,
        }
    }
    pub fn store_params(&self) -> Option<ObjectStoreParams> {
        match self {
            Env::Mem { actor, .. } => Some(actor.store_params()),
            Env::Fs { .. } => None,
        }
    }
    pub fn session(&self) -> Arc<Session> {
        match self {
            Env::Mem { actor, .. } => actor.session.clone(),
            Env::Fs { session } => session.clone(),
        }
    }
    pub fn write_params(&self, mode: WriteMode) -> WriteParams {
        match self {
            Env::Mem { actor, .. } => actor.write_params(mode),
            Env::Fs { session } => WriteParams {
                mode,
                session: Some(session.clone()),
                ..Default::default()
            },
        }
    }
    /// `fresh`: a brand-new Session (nothing cached), else the history's long-lived one.
    pub fn read_params(&self, fresh: bool) -> ReadParams {
        match self {
            Env::Mem { actor, .. } => {
                if fresh {
                    actor.fresh_session().read_params()
                } else {
                    actor.read_params()
                }
            }
            Env::Fs { session } => ReadParams {
                session: Some(if fresh {
                    Arc::new(Session::default())
                } else {
                    session.clone()
                }),
                ..Default::default()
            },
        }
    }
}

#[derive(Clone, Debug, PartialEq, Eq, Hash, PartialOrd, Ord)]
pub struct Loc {
    /// root uri of the table
    pub table: String,
    pub branch: Option<String>,
}

impl Loc {
    pub fn main(table: &str) -> Self {
        Self {
            table: table.to_string(),
            branch: None,
        }
    }
    pub fn label(&self) -> String {
        match &self.branch {
            Some(b) => format!("{}@{}", self.table, b),
            None => self.table.clone(),
        }
    }
}

// -------------------------------------------------------------------------------------------
// model
// -------------------------------------------------------------------------------------------

#[derive(Clone, Debug, Default)]
pub struct Model {
    /// top-level column names in schema order
    pub cols: Vec<String>,
    pub rows: BTreeMap<i64, Row>,
    /// only keys we set ourselves ("vk.*" and "lance.auto_cleanup.*")
    pub config: BTreeMap<String, String>,
    pub index_names: BTreeSet<String>,
    /// set when the model had to be re-derived from an observation instead of from the op
    pub derived: bool,
    /// the op's effect on the index list is not modelled (drop/cast of an indexed column):
    /// take the next observation
    pub indices_unknown: bool,
    /// legacy storage cannot tell "" from NULL in nullable string columns
    pub legacy: bool,
    /// the op's row-level effect is not modelled (e.g. stale append with another schema):
    /// adopt the next observation without counting a disagreement
    pub resync: bool,
}

impl Model {
    pub fn from_snapshot(s: &Snapshot) -> Self {
        let k = s.names.iter().position(|n| n == "_rowid");
        let cols: Vec<String> = s.names.iter().filter(|n| *n != "_rowid").cloned().collect();
        let idp = cols.iter().position(|n| n == "id");
        let mut rows = BTreeMap::new();
        for r in &s.rows {
            let mut r2 = r.clone();
            if let Some(k) = k {
                r2.remove(k);
            }
            if let Some(id) = idp.and_then(|p| r2[p].as_i64()) {
                rows.insert(id, r2);
            }
        }
        Self {
            cols,
            rows,
            config: s
                .config
                .iter()
                .filter(|(k, _)| is_our_config(k))
                .map(|(k, v)| (k.clone(), v.clone()))
                .collect(),
            index_names: s.index_names.iter().filter(|n| !n.starts_with("__")).cloned().collect(),
            derived: true,
            indices_unknown: false,
            legacy: false,
            resync: false,
        }
    }
    pub fn col(&self, name: &str) -> Option<usize> {
        self.cols.iter().position(|c| c == name)
    }
    /// None if equal, else a description of the first disagreement with an observed snapshot
    pub fn disagreement(&self, s: &Snapshot) -> Option<String> {
        let obs = Model::from_snapshot(s);
        if obs.cols != self.cols {
            return Some(format!("columns: model {:?} observed {:?}", self.cols, obs.cols));
        }
        if obs.rows.len() != s.rows.len() {
            return Some(format!(
                "duplicate primary keys in scan: {} rows, {} distinct ids",
                s.rows.len(),
                obs.rows.len()
            ));
        }
        let norm = |m: &BTreeMap<i64, Row>| -> BTreeMap<i64, Row> {
            m.iter()
                .map(|(k, r)| {
                    (
                        *k,
                        r.iter()
                            .map(|c| match c {
                                Cell::Str(s) if s.is_empty() => Cell::Null,
                                c => c.clone(),
                            })
                            .collect(),
                    )
                })
                .collect()
        };
        let rows_equal = if self.legacy { norm(&obs.rows) == norm(&self.rows) } else { obs.rows == self.rows };
        if !rows_equal {
            let lost: Vec<_> = self.rows.keys().filter(|k| !obs.rows.contains_key(k)).take(5).collect();
            let extra: Vec<_> = obs.rows.keys().filter(|k| !self.rows.contains_key(k)).take(5).collect();
            let changed: Vec<_> = self
                .rows
                .iter()
                .filter(|(k, r)| obs.rows.get(k).map(|o| o != *r).unwrap_or(false))
                .map(|(k, r)| {
                    format!(
                        "{}: model {} observed {}",
                        k,
                        vmon::table::render_row(r),
                        vmon::table::render_row(&obs.rows[k])
                    )
                })
                .take(3)
                .collect();
            return Some(format!(
                "rows: model {} observed {}; missing {:?} unexpected {:?} changed {:?}",
                self.rows.len(),
                obs.rows.len(),
                lost,
                extra,
                changed
            ));
        }
        if obs.config != self.config {
            return Some(format!("config: model {:?} observed {:?}", self.config, obs.config));
        }
        if !self.indices_unknown && obs.index_names != self.index_names {
            return Some(format!(
                "indices: model {:?} observed {:?}",
                self.index_names, obs.index_names
            ));
        }
        None
    }
}

pub fn is_our_config(k: &str) -> bool {
    k.starts_with("vk.")
}

/// Generation spec derived from the actual schema (so appended batches always fit it).
pub fn spec_from_schema(schema: &ArrowSchema) -> Option<TableSpec> {
    let mut cols = vec![];
    for f in schema.fields().iter().skip(1) {
        let ty = match f.data_type() {
            DataType::Int8 => ColTy::I8,
            DataType::Int16 => ColTy::I16,
            DataType::Int32 => ColTy::I32,
            DataType::Int64 => ColTy::I64,
            DataType::UInt8 => ColTy::U8,
            DataType::UInt16 => ColTy::U16,
            DataType::UInt32 => ColTy::U32,
            DataType::UInt64 => ColTy::U64,
            DataType::Float32 => ColTy::F32,
            DataType::Float64 => ColTy::F64,
            DataType::Boolean => ColTy::Bool,
            DataType::Utf8 => ColTy::Utf8,
            DataType::LargeUtf8 => ColTy::LargeUtf8,
            DataType::Binary => ColTy::Binary,
            DataType::Date32 => ColTy::Date32,
            DataType::Timestamp(arrow_schema::TimeUnit::Microsecond, None) => ColTy::TsMicro,
            _ => return None,
        };
        let h = vmon::prng::fnv_str(f.name());
        cols.push(ColSpec {
            name: f.name().clone(),
            ty,
            nullable: f.is_nullable(),
            null_eighths: [0u8, 1, 2, 4][(h % 4) as usize],
            small_domain: f.name() == "v" || f.name() == "s" || h % 3 != 0,
        });
    }
    if schema.fields().is_empty() || schema.field(0).name() != "id" {
        return None;
    }
    Some(TableSpec { cols })
}

fn is_int_ty(t: &ColTy) -> bool {
    matches!(
        t,
        ColTy::I8 | ColTy::I16 | ColTy::I32 | ColTy::I64 | ColTy::U8 | ColTy::U16 | ColTy::U32 | ColTy::U64
    )
}
fn is_str_ty(t: &ColTy) -> bool {
    matches!(t, ColTy::Utf8 | ColTy::LargeUtf8)
}

// -------------------------------------------------------------------------------------------
// ops
// -------------------------------------------------------------------------------------------

#[derive(Clone, Copy, Debug, PartialEq, Eq, Hash, PartialOrd, Ord)]
pub enum OpKind {
    Append,
    Overwrite,
    DeleteIds,
    DeleteVal,
    Update,
    Upsert,
    Compact,
    CreateIndex,
    OptimizeIndices,
    AddColumn,
    DropColumn,
    AlterColumn,
    UpdateConfig,
    Restore,
    TagCreate,
    TagUpdate,
    TagDelete,
    BranchCreate,
    BranchDelete,
    ShallowClone,
    Cleanup,
    StaleWrite,
    ConcurrentDeletes,
    CrashedAppend,
    Age,
    AutoCleanupConfig,
    DropRecreate,
    PartialUpsert,
}

impl OpKind {
    pub fn name(&self) -> &'static str {
        match self {
            OpKind::Append => "append",
            OpKind::Overwrite => "overwrite",
            OpKind::DeleteIds => "delete_ids",
            OpKind::DeleteVal => "delete_val",
            OpKind::Update => "update",
            OpKind::Upsert => "merge_insert",
            OpKind::Compact => "compact",
            OpKind::CreateIndex => "create_index",
            OpKind::OptimizeIndices => "optimize_indices",
            OpKind::AddColumn => "add_column",
            OpKind::DropColumn => "drop_column",
            OpKind::AlterColumn => "alter_column",
            OpKind::UpdateConfig => "update_config",
            OpKind::Restore => "restore",
            OpKind::TagCreate => "tag_create",
            OpKind::TagUpdate => "tag_update",
            OpKind::TagDelete => "tag_delete",
            OpKind::BranchCreate => "branch_create",
            OpKind::BranchDelete => "branch_delete",
            OpKind::ShallowClone => "shallow_clone",
            OpKind::Cleanup => "cleanup",
            OpKind::StaleWrite => "stale_write",
            OpKind::ConcurrentDeletes => "concurrent_deletes",
            OpKind::CrashedAppend => "crashed_append",
            OpKind::Age => "age",
            OpKind::AutoCleanupConfig => "auto_cleanup_config",
            OpKind::DropRecreate => "drop_and_recreate",
            OpKind::PartialUpsert => "merge_insert_partial_schema",
        }
    }
}

pub type Weights = Vec<(u32, OpKind)>;

/// Weights of the general-purpose history (C05).
pub fn base_weights() -> Weights {
    use OpKind::*;
    vec![
        (14, Append),
        (4, Overwrite),
        (8, DeleteIds),
        (4, DeleteVal),
        (7, Update),
        (7, Upsert),
        (5, PartialUpsert),
        (8, Compact),
        (6, CreateIndex),
        (4, OptimizeIndices),
        (4, AddColumn),
        (3, DropColumn),
        (4, AlterColumn),
        (3, UpdateConfig),
        (5, Restore),
        (2, TagCreate),
        (1, TagUpdate),
        (1, TagDelete),
        (3, BranchCreate),
        (1, BranchDelete),
        (2, ShallowClone),
        (3, StaleWrite),
        (4, ConcurrentDeletes),
    ]
}

#[derive(Clone, Debug)]
pub enum Outcome {
    Ok,
    /// clean refusal of a documented kind
    Rejected(String),
    /// any other error
    Failed(String),
    Panicked(String),
    /// nothing to do in this state (e.g. restore with a single version)
    Skipped,
}

impl Outcome {
    pub fn is_ok(&self) -> bool {
        matches!(self, Outcome::Ok)
    }
    pub fn label(&self) -> &'static str {
        match self {
            Outcome::Ok => "ok",
            Outcome::Rejected(_) => "rejected",
            Outcome::Failed(_) => "failed",
            Outcome::Panicked(_) => "panicked",
            Outcome::Skipped => "skipped",
        }
    }
    pub fn text(&self) -> String {
        match self {
            Outcome::Ok => "ok".into(),
            Outcome::Skipped => "skipped".into(),
            Outcome::Rejected(s) => format!("rejected: {s}"),
            Outcome::Failed(s) => format!("failed: {s}"),
            Outcome::Panicked(s) => format!("panicked: {s}"),
        }
    }
}

pub fn classify_err(e: &lance::Error) -> Outcome {
    use lance::Error as E;
    let s = {
        let mut t = e.to_string();
        if t.len() > 300 {
            t.truncate(300);
        }
        t
    };
    match e {
        E::InvalidInput { .. }
        | E::NotSupported { .. }
        | E::InvalidRef { .. }
        | E::RefConflict { .. }
        | E::RefNotFound { .. }
        | E::VersionNotFound { .. }
        | E::SchemaMismatch { .. }
        | E::Schema { .. }
        | E::CommitConflict { .. }
        | E::RetryableCommitConflict { .. }
        | E::TooMuchWriteContention { .. }
        | E::Cleanup { .. }
        | E::DatasetAlreadyExists { .. }
        | E::IndexNotFound { .. } => Outcome::Rejected(s),
        _ => Outcome::Failed(s),
    }
}

#[derive(Clone, Debug)]
pub struct PolicyDesc {
    pub before_version: Option<u64>,
    pub before_timestamp: Option<DateTime<Utc>>,
    pub retain_n: Option<usize>,
    pub delete_unverified: bool,
    pub error_if_tagged: bool,
    /// api used: "policy" | "older_than"
    pub api: &'static str,
}

#[derive(Clone, Debug)]
pub enum Extra {
    None,
    Restore {
        loc: Loc,
        from: u64,
    },
    Cleanup {
        loc: Loc,
        policy: PolicyDesc,
        /// versions (with manifest timestamps) listed right before the call
        before: Vec<(u64, DateTime<Utc>)>,
        /// tagged versions of the table (any branch) right before the call
        tagged: BTreeSet<u64>,
        latest: u64,
        all_paths_before: Vec<String>,
        removed_stats: Option<(u64, u64)>,
    },
    BranchCreate {
        new: Loc,
        parent: Loc,
        version: u64,
        cross_handle: bool,
    },
    BranchDelete {
        loc: Loc,
        live_after: Vec<String>,
    },
    Clone {
        new: Loc,
        parent: Loc,
        version: u64,
    },
    Tag {
        table: String,
        tag: String,
    },
    Crash {
        loc: Loc,
        orphans: Vec<String>,
        committed: bool,
    },
    Stale {
        loc: Loc,
        from: u64,
        what: &'static str,
    },
    /// a legacy-format table now carries a tombstoned (-2) field id: it must not be scanned
    /// in-process any more (the legacy reader decodes garbage lengths and can abort the process)
    LegacyTombstones {
        loc: Loc,
    },
}

#[derive(Clone, Debug)]
pub struct StepRec {
    pub idx: usize,
    pub kind: OpKind,
    pub loc: Option<Loc>,
    pub desc: Value,
    pub outcome: Outcome,
    pub new_versions: Vec<(Loc, u64)>,
    pub removed_versions: Vec<(Loc, u64)>,
    /// new versions whose first read failed: (lineage, version, error)
    pub unreadable: Vec<(Loc, u64, String)>,
    pub log_from: usize,
    pub log_to: usize,
    pub extra: Extra,
}

impl StepRec {
    pub fn brief(&self) -> Value {
        json!({"i": self.idx, "op": self.kind.name(), "on": self.loc.as_ref().map(|l| l.label()),
               "args": self.desc, "outcome": self.outcome.text(),
               "new_versions": self.new_versions.iter().map(|(l, v)| format!("{}:{}", l.label(), v)).collect::<Vec<_>>()})
    }
}

pub struct Lineage {
    pub head: Dataset,
    pub model: Model,
    pub models: BTreeMap<u64, Model>,
    pub snaps: BTreeMap<u64, Snapshot>,
    pub removed: BTreeMap<u64, Snapshot>,
    /// versions that are listed but could not be read when first seen (version -> error)
    pub unreadable: BTreeMap<u64, String>,
    /// fragment id -> distinct physical fragments (joined data file paths) that carried this id
    /// in some version of this lineage
    pub frag_files: BTreeMap<u64, BTreeSet<String>>,
    /// where this lineage was cut from (branch / clone)
    pub parent: Option<(Loc, u64)>,
}

impl Lineage {
    pub fn latest(&self) -> u64 {
        self.head.manifest().version
    }
    /// fragment ids that named two different physical fragments in this lineage's history
    /// (Overwrite restarts fragment ids at 0; Restore republishes the old max_fragment_id)
    pub fn reused_fragment_ids(&self) -> Vec<u64> {
        self.frag_files.iter().filter(|(_, s)| s.len() > 1).map(|(k, _)| *k).collect()
    }
    pub fn note_fragments(&mut self, ds: &Dataset) {
        for f in ds.manifest().fragments.iter() {
            let sig = f.files.iter().map(|d| d.path.as_str()).collect::<Vec<_>>().join("+");
            self.frag_files.entry(f.id).or_default().insert(sig);
        }
    }
}

#[derive(Clone, Debug)]
pub struct HistCfg {
    pub stable_row_ids: bool,
    pub storage: LanceFileVersion,
    pub v2_paths: bool,
    pub auto_cleanup_default: bool,
    pub n_tables: usize,
    pub allow_refs: bool,
    /// run cleanup only on tables that have no branches / clones (cross-reference effects of
    /// cleanup are C09's subject)
    pub cleanup_isolated_only: bool,
    /// `restore()` through a handle on a branch commits through `checkout_version(read_version)`,
    /// which resolves against main: it is only exercised where that is the subject (C09)
    pub restore_on_branches: bool,
    /// never ask compaction to defer the index remap (C38: an indexed query through the Session that
    /// cached the index before such a compaction never completes — liveness, reported separately)
    pub no_deferred_remap: bool,
    /// partial-schema merge_insert on LEGACY tables leaves versions that fresh Sessions cannot read
    /// (known C05 finding); only C05 exercises it
    pub partial_upsert_on_legacy: bool,
}

impl HistCfg {
    pub fn random(rng: &mut Rng) -> Self {
        let storage = *rng.pick_weighted(&[
            (5, LanceFileVersion::V2_0),
            (5, LanceFileVersion::V2_1),
            (1, LanceFileVersion::Legacy),
        ]);
        Self {
            stable_row_ids: storage != LanceFileVersion::Legacy && rng.bool(),
            storage,
            v2_paths: rng.chance(1, 3),
            auto_cleanup_default: rng.bool(),
            n_tables: 1,
            allow_refs: true,
            cleanup_isolated_only: true,
            restore_on_branches: false,
            no_deferred_remap: false,
            partial_upsert_on_legacy: false,
        }
    }
    pub fn describe(&self) -> String {
        format!(
            "rowids={} storage={:?} v2paths={} autoclean={}",
            self.stable_row_ids, self.storage, self.v2_paths, self.auto_cleanup_default
        )
    }
}

pub const BRANCH_NAMES: &[&str] = &["a", "a/b", "ab", "a/b/c", "feat", "feat/ure", "feature"];
pub const TAG_NAMES: &[&str] = &["t1", "t2", "rel-1.0", "a_b", "feat"];

pub struct Hist {
    pub env: Env,
    pub rng: Rng,
    pub cfg: HistCfg,
    pub ids: IdAlloc,
    pub tables: Vec<String>,
    pub lin: BTreeMap<Loc, Lineage>,
    pub dead: Vec<Loc>,
    /// (table, tag) -> (branch, version)
    pub tags: BTreeMap<(String, String), (Option<String>, u64)>,
    pub steps: Vec<StepRec>,
    pub model_disagreements: Vec<String>,
    pub problems: Vec<String>,
    pub aged_paths: BTreeSet<String>,
    pub counter: u64,
    pub next_actor: usize,
    pub snapshots_taken: u64,
    /// case index (for evidence only)
    pub case: u64,
    /// pick the lineage an op works on uniformly (default: main three times as likely)
    pub uniform_locs: bool,
}

pub fn panic_msg(p: &Box<dyn std::any::Any + Send>) -> String {
    p.downcast_ref::<String>()
        .cloned()
        .or_else(|| p.downcast_ref::<&str>().map(|s| s.to_string()))
        .unwrap_or_else(|| "panic".into())
}

macro_rules! lance_try {
    ($e:expr) => {
        match $e {
            Ok(v) => v,
            Err(e) => return (classify_err(&e), Extra::None),
        }
    };
}

fn ids_sql(ids: &[i64]) -> String {
    format!(
        "id IN ({})",
        ids.iter().map(|i| i.to_string()).collect::<Vec<_>>().join(",")
    )
}

impl Hist {
    pub fn new(env: Env, rng: Rng, cfg: HistCfg) -> Self {
        Self {
            env,
            rng,
            cfg,
            ids: IdAlloc::new(0),
            tables: vec![],
            lin: BTreeMap::new(),
            dead: vec![],
            tags: BTreeMap::new(),
            steps: vec![],
            model_disagreements: vec![],
            problems: vec![],
            aged_paths: BTreeSet::new(),
            counter: 0,
            next_actor: 10,
            snapshots_taken: 0,
            case: 0,
            uniform_locs: false,
        }
    }

    pub fn mem(seed_rng: Rng, cfg: HistCfg) -> Self {
        let world = World::memory();
        let actor = Actor::new(world.new_actor(0));
        Self::new(Env::Mem { world, actor }, seed_rng, cfg)
    }

    fn log_len(&self) -> usize {
        self.env.world().map(|w| w.log_len()).unwrap_or(0)
    }

    fn fresh_name(&mut self, p: &str) -> String {
        self.counter += 1;
        format!("{p}{}", self.counter)
    }

    pub fn initial_spec(&mut self) -> TableSpec {
        let legacy = self.cfg.storage == LanceFileVersion::Legacy;
        let mut cols = vec![
            ColSpec {
                name: "v".into(),
                ty: ColTy::I32,
                nullable: !legacy,
                null_eighths: if legacy { 0 } else { 2 },
                small_domain: true,
            },
            ColSpec {
                name: "s".into(),
                ty: ColTy::Utf8,
                nullable: true,
                null_eighths: 2,
                small_domain: true,
            },
        ];
        let pool = if legacy {
            vec![ColTy::I64, ColTy::F32, ColTy::Utf8]
        } else {
            ColTy::scalar_pool()
        };
        let extra = self.rng.urange(0, 2);
        for i in 0..extra {
            let ty = self.rng.pick(&pool).clone();
            let nullable = if legacy { is_str_ty(&ty) } else { self.rng.bool() };
            cols.push(ColSpec {
                name: format!("c{i}"),
                ty,
                nullable,
                null_eighths: *self.rng.pick(&[0u8, 1, 4]),
                small_domain: self.rng.chance(2, 3),
            });
        }
        TableSpec { cols }
    }

    fn create_params(&self) -> WriteParams {
        let mut p = self.env.write_params(WriteMode::Create);
        p.enable_stable_row_ids = self.cfg.stable_row_ids;
        p.data_storage_version = Some(self.cfg.storage);
        p.enable_v2_manifest_paths = self.cfg.v2_paths;
        if !self.cfg.auto_cleanup_default {
            p.auto_cleanup = None;
        }
        p
    }

    /// Create table `uri` with an initial batch. Returns the step record.
    pub async fn create_table(&mut self, uri: &str) -> StepRec {
        let log_from = self.log_len();
        let spec = self.initial_spec();
        let n = self.rng.urange(4, 40);
        let ids = self.ids.take(n);
        let batch = spec.batch(&mut self.rng, &ids);
        let mut params = self.create_params();
        params.max_rows_per_file = *self.rng.pick(&[7usize, 25, 1 << 20]);
        let desc = json!({"uri": uri, "rows": n, "spec": spec.describe(), "max_rows_per_file": params.max_rows_per_file});
        let reader = RecordBatchIterator::new(vec![Ok(batch.clone())], batch.schema());
        let res = AssertUnwindSafe(Dataset::write(reader, uri, Some(params)))
            .catch_unwind()
            .await;
        let outcome = match res {
            Err(_) => Outcome::Panicked("create".into()),
            Ok(Err(e)) => classify_err(&e),
            Ok(Ok(ds)) => {
                let mut model = Model {
                    cols: batch.schema().fields().iter().map(|f| f.name().clone()).collect(),
                    legacy: self.cfg.storage == LanceFileVersion::Legacy,
                    ..Default::default()
                };
                for (id, r) in ids.iter().zip(batch_to_rows(&batch)) {
                    model.rows.insert(*id, r);
                }
                let loc = Loc::main(uri);
                if !self.tables.iter().any(|t| t == uri) {
                    self.tables.push(uri.to_string());
                }
                self.lin.insert(
                    loc,
                    Lineage {
                        head: ds,
                        model,
                        models: BTreeMap::new(),
                        snaps: BTreeMap::new(),
                        removed: BTreeMap::new(),
                        unreadable: BTreeMap::new(),
                        frag_files: BTreeMap::new(),
                        parent: None,
                    },
                );
                Outcome::Ok
            }
        };
        let mut rec = StepRec {
            idx: self.steps.len(),
            kind: OpKind::Append,
            loc: Some(Loc::main(uri)),
            desc: json!({"create": desc}),
            outcome,
            new_versions: vec![],
            removed_versions: vec![],
            unreadable: vec![],
            log_from,
            log_to: 0,
            extra: Extra::None,
        };
        self.refresh(&mut rec).await;
        rec.log_to = self.log_len();
        self.steps.push(rec.clone());
        rec
    }

    /// Open (loc, version) through a new handle: fresh Session or the history's shared one.
    pub async fn open_at(&self, loc: &Loc, version: Option<u64>, fresh: bool) -> lance::Result<Dataset> {
        let b = lance::dataset::builder::DatasetBuilder::from_uri(&loc.table)
            .with_read_params(self.env.read_params(fresh));
        match (&loc.branch, version) {
            (Some(br), v) => {
                // (DatasetBuilder::with_branch(b, Some(v)) first loads version v of the *root*,
                // which need not exist; open the root and check out the branch instead.)
                let root = b.load().await?;
                root.checkout_version((Some(br.clone()), v)).await
            }
            (None, Some(v)) => b.with_version(v).load().await,
            (None, None) => b.load().await,
        }
    }

    pub fn live_locs(&self) -> Vec<Loc> {
        self.lin.keys().cloned().collect()
    }
    pub fn locs_of_table(&self, table: &str) -> Vec<Loc> {
        self.lin.keys().filter(|l| l.table == table).cloned().collect()
    }
    fn pick_loc(&mut self) -> Option<Loc> {
        let locs = self.live_locs();
        if locs.is_empty() {
            return None;
        }
        // main lineages twice as likely
        let mut w: Vec<(u32, Loc)> = locs
            .into_iter()
            .map(|l| (if l.branch.is_none() && !self.uniform_locs { 3 } else { 2 }, l))
            .collect();
        w.sort_by(|a, b| a.1.cmp(&b.1));
        Some(self.rng.pick_weighted(&w).clone())
    }

    fn spec_of(&self, loc: &Loc) -> Option<TableSpec> {
        let l = self.lin.get(loc)?;
        let s: ArrowSchema = l.head.schema().into();
        spec_from_schema(&s)
    }

    fn arrow_schema_of(&self, loc: &Loc) -> Arc<ArrowSchema> {
        let s: ArrowSchema = self.lin[loc].head.schema().into();
        // strip field metadata lance adds so generated batches compare equal on schema
        Arc::new(ArrowSchema::new(
            s.fields()
                .iter()
                .map(|f| ArrowField::new(f.name(), f.data_type().clone(), f.is_nullable()))
                .collect::<Vec<_>>(),
        ))
    }

    fn gen_batch(&mut self, loc: &Loc, ids: &[i64]) -> Option<RecordBatch> {
        let spec = self.spec_of(loc)?;
        let b = spec.batch(&mut self.rng, ids);
        RecordBatch::try_new(self.arrow_schema_of(loc), b.columns().to_vec()).ok()
    }

    fn model_ids(&self, loc: &Loc) -> Vec<i64> {
        self.lin[loc].model.rows.keys().copied().collect()
    }

    fn pick_ids(&mut self, loc: &Loc, max_frac_num: usize, max_frac_den: usize) -> Vec<i64> {
        let all = self.model_ids(loc);
        if all.is_empty() {
            return vec![];
        }
        let maxk = (all.len() * max_frac_num / max_frac_den).max(1);
        let k = self.rng.urange(1, maxk);
        let idx = self.rng.sample_indices(all.len(), k);
        let mut v: Vec<i64> = idx.into_iter().map(|i| all[i]).collect();
        v.sort();
        v
    }

    /// One generated + executed step of kind `kind`; monitors run by the caller afterwards.
    pub async fn step(&mut self, kind: OpKind) -> StepRec {
        let log_from = self.log_len();
        let loc = match kind {
            OpKind::Age => None,
            _ => self.pick_loc(),
        };
        let mut desc = json!({});
        let before: BTreeMap<Loc, u64> = self.lin.iter().map(|(l, x)| (l.clone(), x.latest())).collect();
        let models_before: BTreeMap<Loc, Model> =
            self.lin.iter().map(|(l, x)| (l.clone(), x.model.clone())).collect();
        if std::env::var("E_HIST_TRACE").is_ok() {
            eprintln!("TRACE case {} step {} {} on {:?}", self.case, self.steps.len(), kind.name(), loc.as_ref().map(|l| l.label()));
        }
        let fut = self.exec(kind, loc.clone(), &mut desc);
        let res = AssertUnwindSafe(fut).catch_unwind().await;
        let (outcome, extra) = match res {
            Ok(x) => x,
            Err(p) => {
                (Outcome::Panicked(panic_msg(&p)), Extra::None)
            }
        };
        if std::env::var("E_HIST_TRACE").is_ok() {
            eprintln!("TRACE   -> {} {}", outcome.label(), desc);
        }
        let mut rec = StepRec {
            idx: self.steps.len(),
            kind,
            loc,
            desc,
            outcome,
            new_versions: vec![],
            removed_versions: vec![],
            unreadable: vec![],
            log_from,
            log_to: 0,
            extra,
        };
        if kind == OpKind::PartialUpsert && rec.outcome.is_ok() && self.cfg.storage == LanceFileVersion::Legacy {
            // do NOT refresh (= scan) this table again; the caller judges it from the manifest and ends the case
            if let Some(l) = rec.loc.clone() {
                rec.extra = Extra::LegacyTombstones { loc: l };
            }
            rec.log_to = self.log_len();
            self.steps.push(rec.clone());
            return rec;
        }
        if !rec.outcome.is_ok() {
            // an op that did not succeed must not change the expectation
            let crash_committed = matches!(rec.extra, Extra::Crash { .. });
            if !crash_committed {
                for (l, m) in models_before {
                    if let Some(x) = self.lin.get_mut(&l) {
                        x.model = m;
                    }
                }
            }
        }
        self.refresh(&mut rec).await;
        if !rec.outcome.is_ok() && !matches!(rec.extra, Extra::Crash { .. }) {
            for (l, v) in &before {
                if let Some(x) = self.lin.get(l) {
                    if x.latest() != *v && !matches!(rec.outcome, Outcome::Skipped) {
                        self.problems.push(format!(
                            "step {} {} returned '{}' but {} moved from v{} to v{}",
                            rec.idx,
                            kind.name(),
                            rec.outcome.text(),
                            l.label(),
                            v,
                            x.latest()
                        ));
                    }
                }
            }
        }
        rec.log_to = self.log_len();
        self.steps.push(rec.clone());
        rec
    }

    /// Reload every live head, snapshot versions not seen before, retire versions that vanished,
    /// compare the model with the latest version.
    pub async fn refresh(&mut self, rec: &mut StepRec) {
        let raw = self.env.raw();
        let locs = self.live_locs();
        for loc in locs {
            let lin = self.lin.get_mut(&loc).unwrap();
            if let Err(e) = lin.head.checkout_latest().await {
                self.problems.push(format!(
                    "step {}: head of {} cannot reload latest: {}",
                    rec.idx,
                    loc.label(),
                    e
                ));
                continue;
            }
            let versions = match lin.head.versions().await {
                Ok(v) => v,
                Err(e) => {
                    self.problems.push(format!(
                        "step {}: versions() of {} failed: {}",
                        rec.idx,
                        loc.label(),
                        e
                    ));
                    continue;
                }
            };
            let listed: BTreeSet<u64> = versions.iter().map(|v| v.version).collect();
            let gone: Vec<u64> = lin.snaps.keys().filter(|v| !listed.contains(v)).copied().collect();
            for v in gone {
                if let Some(s) = lin.snaps.remove(&v) {
                    lin.removed.insert(v, s);
                    rec.removed_versions.push((loc.clone(), v));
                }
            }
            let gone_unreadable: Vec<u64> = lin.unreadable.keys().filter(|v| !listed.contains(v)).copied().collect();
            for v in gone_unreadable {
                lin.unreadable.remove(&v);
                rec.removed_versions.push((loc.clone(), v));
            }
            let latest = lin.head.manifest().version;
            for v in listed {
                if lin.snaps.contains_key(&v) || lin.removed.contains_key(&v) || lin.unreadable.contains_key(&v) {
                    continue;
                }
                let ds = if v == latest {
                    Ok(lin.head.clone())
                } else {
                    lin.head.checkout_version((loc.branch.clone(), Some(v))).await
                };
                let ds = match ds {
                    Ok(d) => d,
                    Err(e) => {
                        self.problems.push(format!(
                            "step {}: new version {} of {} cannot be checked out: {}",
                            rec.idx,
                            v,
                            loc.label(),
                            e
                        ));
                        continue;
                    }
                };
                lin.note_fragments(&ds);
                let snap = match AssertUnwindSafe(take_snapshot(&ds, &raw)).catch_unwind().await {
                    Ok(r) => r,
                    Err(p) => Err(format!("panic: {}", panic_msg(&p))),
                };
                match snap {
                    Ok(s) => {
                        self.snapshots_taken += 1;
                        lin.snaps.insert(v, s);
                        rec.new_versions.push((loc.clone(), v));
                    }
                    Err(e) => {
                        if !lin.unreadable.contains_key(&v) {
                            lin.unreadable.insert(v, e.clone());
                            rec.new_versions.push((loc.clone(), v));
                            rec.unreadable.push((loc.clone(), v, e));
                        }
                    }
                }
            }
            // model vs latest
            if let Some(s) = lin.snaps.get(&latest) {
                if let Some(d) = lin.model.disagreement(s) {
                    if !lin.model.resync {
                        self.model_disagreements.push(format!(
                            "step {} ({} on {:?}, {}): {} latest v{}: {}",
                            rec.idx,
                            rec.kind.name(),
                            rec.loc.as_ref().map(|l| l.label()),
                            rec.outcome.label(),
                            loc.label(),
                            latest,
                            d
                        ));
                    }
                    let legacy = lin.model.legacy;
                    lin.model = Model::from_snapshot(s);
                    lin.model.legacy = legacy;
                }
                if lin.model.indices_unknown {
                    lin.model.index_names = s.index_names.iter().filter(|n| !n.starts_with("__")).cloned().collect();
                    lin.model.indices_unknown = false;
                }
                lin.models.entry(latest).or_insert_with(|| lin.model.clone());
            }
            // intermediate versions without a model of their own: derive from the observation
            let missing: Vec<u64> = lin.snaps.keys().filter(|v| !lin.models.contains_key(v)).copied().collect();
            for v in missing {
                let m = Model::from_snapshot(&lin.snaps[&v]);
                lin.models.insert(v, m);
            }
        }
    }

    async fn exec(&mut self, kind: OpKind, loc: Option<Loc>, desc: &mut Value) -> (Outcome, Extra) {
        if kind == OpKind::Age {
            let Some(w) = self.env.world().cloned() else {
                return (Outcome::Skipped, Extra::None);
            };
            for p in w.list_paths().await {
                self.aged_paths.insert(p);
            }
            w.age_all(chrono::Duration::days(8)).await;
            *desc = json!({"days": 8, "objects": self.aged_paths.len()});
            return (Outcome::Ok, Extra::None);
        }
        let Some(loc) = loc else {
            return (Outcome::Skipped, Extra::None);
        };
        match kind {
            OpKind::Append => self.op_append(&loc, desc).await,
            OpKind::Overwrite => self.op_overwrite(&loc, desc).await,
            OpKind::DeleteIds => self.op_delete_ids(&loc, desc).await,
            OpKind::DeleteVal => self.op_delete_val(&loc, desc).await,
            OpKind::Update => self.op_update(&loc, desc).await,
            OpKind::Upsert => self.op_upsert(&loc, desc).await,
            OpKind::Compact => self.op_compact(&loc, desc).await,
            OpKind::CreateIndex => self.op_create_index(&loc, desc).await,
            OpKind::OptimizeIndices => self.op_optimize(&loc, desc).await,
            OpKind::AddColumn => self.op_add_column(&loc, desc).await,
            OpKind::DropColumn => self.op_drop_column(&loc, desc).await,
            OpKind::AlterColumn => self.op_alter_column(&loc, desc).await,
            OpKind::UpdateConfig => self.op_update_config(&loc, desc).await,
            OpKind::AutoCleanupConfig => self.op_auto_cleanup_config(&loc, desc).await,
            OpKind::Restore => self.op_restore(&loc, desc).await,
            OpKind::TagCreate | OpKind::TagUpdate | OpKind::TagDelete => self.op_tag(kind, &loc, desc).await,
            OpKind::BranchCreate => self.op_branch_create(&loc, desc).await,
            OpKind::BranchDelete => self.op_branch_delete(&loc, desc).await,
            OpKind::ShallowClone => self.op_clone(&loc, desc).await,
            OpKind::Cleanup => {
                if self.cfg.cleanup_isolated_only && !self.is_isolated(&loc) {
                    return (Outcome::Skipped, Extra::None);
                }
                self.op_cleanup(&loc, desc, None).await
            }
            OpKind::StaleWrite => self.op_stale_write(&loc, desc).await,
            OpKind::ConcurrentDeletes => self.op_concurrent_deletes(&loc, desc).await,
            OpKind::CrashedAppend => self.op_crashed_append(&loc, desc).await,
            OpKind::DropRecreate => self.op_drop_recreate(&loc, desc).await,
            OpKind::PartialUpsert => self.op_partial_upsert(&loc, desc).await,
            OpKind::Age => unreachable!(),
        }
    }

    fn append_params(&mut self) -> WriteParams {
        let mut p = self.env.write_params(WriteMode::Append);
        p.max_rows_per_file = *self.rng.pick(&[5usize, 20, 1 << 20]);
        p.enable_stable_row_ids = self.cfg.stable_row_ids;
        p
    }

    async fn op_append(&mut self, loc: &Loc, desc: &mut Value) -> (Outcome, Extra) {
        let n = self.rng.urange(1, 30);
        let ids = self.ids.take(n);
        let Some(batch) = self.gen_batch(loc, &ids) else {
            return (Outcome::Skipped, Extra::None);
        };
        let params = self.append_params();
        *desc = json!({"rows": n, "first_id": ids[0], "max_rows_per_file": params.max_rows_per_file});
        let lin = self.lin.get_mut(loc).unwrap();
        let reader = RecordBatchIterator::new(vec![Ok(batch.clone())], batch.schema());
        lance_try!(lin.head.append(reader, Some(params)).await);
        for (id, r) in ids.iter().zip(batch_to_rows(&batch)) {
            lin.model.rows.insert(*id, r);
        }
        (Outcome::Ok, Extra::None)
    }

    async fn op_overwrite(&mut self, loc: &Loc, desc: &mut Value) -> (Outcome, Extra) {
        let n = self.rng.urange(1, 30);
        let ids = self.ids.take(n);
        let new_schema = self.rng.chance(1, 3);
        let batch = if new_schema {
            let spec = self.initial_spec();
            spec.batch(&mut self.rng, &ids)
        } else {
            match self.gen_batch(loc, &ids) {
                Some(b) => b,
                None => return (Outcome::Skipped, Extra::None),
            }
        };
        let mut params = self.env.write_params(WriteMode::Overwrite);
        params.enable_stable_row_ids = self.cfg.stable_row_ids;
        params.max_rows_per_file = *self.rng.pick(&[7usize, 1 << 20]);
        *desc = json!({"rows": n, "new_schema": new_schema});
        let lin = self.lin.get_mut(loc).unwrap();
        let reader = RecordBatchIterator::new(vec![Ok(batch.clone())], batch.schema());
        let ds = lance_try!(Dataset::write(reader, Arc::new(lin.head.clone()), Some(params)).await);
        lin.head = ds;
        lin.model.cols = batch.schema().fields().iter().map(|f| f.name().clone()).collect();
        lin.model.rows.clear();
        for (id, r) in ids.iter().zip(batch_to_rows(&batch)) {
            lin.model.rows.insert(*id, r);
        }
        lin.model.index_names.clear();
        (Outcome::Ok, Extra::None)
    }

    async fn op_delete_ids(&mut self, loc: &Loc, desc: &mut Value) -> (Outcome, Extra) {
        let all = self.model_ids(loc);
        if all.is_empty() {
            return (Outcome::Skipped, Extra::None);
        }
        let (pred, victims): (String, Vec<i64>) = match self.rng.below(4) {
            0 => {
                let pivot = *self.rng.pick(&all);
                (format!("id >= {pivot}"), all.iter().copied().filter(|i| *i >= pivot).collect())
            }
            1 => {
                let m = self.rng.range(2, 4);
                let r = self.rng.range(0, m - 1);
                (
                    format!("id % {m} = {r}"),
                    all.iter().copied().filter(|i| i % m == r).collect(),
                )
            }
            _ => {
                let ids = self.pick_ids(loc, 1, 2);
                (ids_sql(&ids), ids)
            }
        };
        *desc = json!({"pred": pred, "matches": victims.len(), "of": all.len()});
        let lin = self.lin.get_mut(loc).unwrap();
        lance_try!(lin.head.delete(&pred).await);
        for i in victims {
            lin.model.rows.remove(&i);
        }
        (Outcome::Ok, Extra::None)
    }

    /// (column, sql predicate, evaluator over the model cell)
    fn value_pred(&mut self, loc: &Loc) -> Option<(usize, String, Box<dyn Fn(&Cell) -> bool + Send>)> {
        let spec = self.spec_of(loc)?;
        let cands: Vec<&ColSpec> = spec.cols.iter().filter(|c| is_int_ty(&c.ty)).collect();
        if cands.is_empty() {
            return None;
        }
        let c = (*self.rng.pick(&cands)).clone();
        let pos = self.lin[loc].model.col(&c.name)?;
        let k = self.rng.range(-2, 10) as i128;
        let unsigned = matches!(c.ty, ColTy::U8 | ColTy::U16 | ColTy::U32 | ColTy::U64);
        let k = if unsigned { k.max(0) } else { k };
        let name = &c.name;
        Some(match self.rng.below(5) {
            0 => (pos, format!("{name} IS NULL"), Box::new(|c: &Cell| c.is_null())),
            1 => (pos, format!("{name} IS NOT NULL"), Box::new(|c: &Cell| !c.is_null())),
            2 => (
                pos,
                format!("{name} = {k}"),
                Box::new(move |c: &Cell| matches!(c, Cell::Int(x) if *x == k)),
            ),
            3 => (
                pos,
                format!("{name} < {k}"),
                Box::new(move |c: &Cell| matches!(c, Cell::Int(x) if *x < k)),
            ),
            _ => (
                pos,
                format!("{name} >= {k}"),
                Box::new(move |c: &Cell| matches!(c, Cell::Int(x) if *x >= k)),
            ),
        })
    }

    async fn op_delete_val(&mut self, loc: &Loc, desc: &mut Value) -> (Outcome, Extra) {
        let Some((pos, pred, f)) = self.value_pred(loc) else {
            return (Outcome::Skipped, Extra::None);
        };
        let lin = self.lin.get_mut(loc).unwrap();
        let victims: Vec<i64> = lin.model.rows.iter().filter(|(_, r)| f(&r[pos])).map(|(k, _)| *k).collect();
        *desc = json!({"pred": pred, "matches": victims.len(), "of": lin.model.rows.len()});
        lance_try!(lin.head.delete(&pred).await);
        for i in victims {
            lin.model.rows.remove(&i);
        }
        (Outcome::Ok, Extra::None)
    }

    async fn op_update(&mut self, loc: &Loc, desc: &mut Value) -> (Outcome, Extra) {
        let Some(spec) = self.spec_of(loc) else {
            return (Outcome::Skipped, Extra::None);
        };
        let cands: Vec<ColSpec> = spec
            .cols
            .iter()
            .filter(|c| is_int_ty(&c.ty) || is_str_ty(&c.ty))
            .cloned()
            .collect();
        if cands.is_empty() || self.lin[loc].model.rows.is_empty() {
            return (Outcome::Skipped, Extra::None);
        }
        let c = self.rng.pick(&cands).clone();
        let Some(pos) = self.lin[loc].model.col(&c.name) else {
            return (Outcome::Skipped, Extra::None);
        };
        let (lit, cell) = if c.nullable && self.rng.chance(1, 5) {
            ("NULL".to_string(), Cell::Null)
        } else if is_int_ty(&c.ty) {
            let k = self.rng.range(0, 100);
            (k.to_string(), Cell::Int(k as i128))
        } else {
            let w = *self.rng.pick(&["zz", "", "upd", "é"]);
            (format!("'{w}'"), Cell::Str(w.to_string()))
        };
        let ids = self.pick_ids(loc, 1, 2);
        let pred = ids_sql(&ids);
        *desc = json!({"set": format!("{} = {}", c.name, lit), "where": pred});
        let lin = self.lin.get_mut(loc).unwrap();
        let b = lance_try!(UpdateBuilder::new(Arc::new(lin.head.clone())).update_where(&pred));
        let b = lance_try!(b.set(&c.name, &lit));
        let job = lance_try!(b.build());
        let res = lance_try!(job.execute().await);
        lin.head = (*res.new_dataset).clone();
        desc["rows_updated"] = json!(res.rows_updated);
        for i in ids {
            if let Some(r) = lin.model.rows.get_mut(&i) {
                r[pos] = cell.clone();
            }
        }
        (Outcome::Ok, Extra::None)
    }

    async fn op_upsert(&mut self, loc: &Loc, desc: &mut Value) -> (Outcome, Extra) {
        let existing = if self.lin[loc].model.rows.is_empty() {
            vec![]
        } else {
            self.pick_ids(loc, 1, 3)
        };
        let n_new = self.rng.urange(0, 10);
        let mut ids = existing.clone();
        ids.extend(self.ids.take(n_new));
        if ids.is_empty() {
            return (Outcome::Skipped, Extra::None);
        }
        self.rng.shuffle(&mut ids);
        let Some(batch) = self.gen_batch(loc, &ids) else {
            return (Outcome::Skipped, Extra::None);
        };
        *desc = json!({"existing": existing.len(), "new": n_new});
        let lin = self.lin.get_mut(loc).unwrap();
        let mut b = lance_try!(MergeInsertBuilder::try_new(Arc::new(lin.head.clone()), vec!["id".to_string()]));
        b.when_matched(WhenMatched::UpdateAll).when_not_matched(WhenNotMatched::InsertAll);
        let job = lance_try!(b.try_build());
        let reader = RecordBatchIterator::new(vec![Ok(batch.clone())], batch.schema());
        let (ds, stats) = lance_try!(job.execute_reader(Box::new(reader) as Box<dyn arrow_array::RecordBatchReader + Send>).await);
        lin.head = (*ds).clone();
        desc["stats"] = json!([stats.num_inserted_rows, stats.num_updated_rows, stats.num_deleted_rows]);
        for (id, r) in ids.iter().zip(batch_to_rows(&batch)) {
            lin.model.rows.insert(*id, r);
        }
        (Outcome::Ok, Extra::None)
    }

    /// merge_insert whose source has only `id` + one column (matched rows only): the in-place
    /// column rewrite path (new data file per fragment, old field ids tombstoned with -2)
    async fn op_partial_upsert(&mut self, loc: &Loc, desc: &mut Value) -> (Outcome, Extra) {
        if self.cfg.storage == LanceFileVersion::Legacy && !self.cfg.partial_upsert_on_legacy {
            return (Outcome::Skipped, Extra::None);
        }
        let Some(spec) = self.spec_of(loc) else {
            return (Outcome::Skipped, Extra::None);
        };
        let cands: Vec<ColSpec> = spec.cols.iter().filter(|c| is_int_ty(&c.ty) || is_str_ty(&c.ty)).cloned().collect();
        if cands.is_empty() || self.lin[loc].model.rows.is_empty() {
            return (Outcome::Skipped, Extra::None);
        }
        let c = self.rng.pick(&cands).clone();
        let Some(pos) = self.lin[loc].model.col(&c.name) else {
            return (Outcome::Skipped, Extra::None);
        };
        let ids = self.pick_ids(loc, 1, 2);
        let sub = TableSpec { cols: vec![c.clone()] };
        let b = sub.batch(&mut self.rng, &ids);
        let full = self.arrow_schema_of(loc);
        let fields: Vec<ArrowField> = vec![full.field(0).clone(), full.field_with_name(&c.name).map(|f| f.clone()).unwrap_or_else(|_| b.schema().field(1).clone())];
        let Ok(batch) = RecordBatch::try_new(Arc::new(ArrowSchema::new(fields)), b.columns().to_vec()) else {
            return (Outcome::Skipped, Extra::None);
        };
        *desc = json!({"col": c.name, "rows": ids.len()});
        let lin = self.lin.get_mut(loc).unwrap();
        let mut mb = lance_try!(MergeInsertBuilder::try_new(Arc::new(lin.head.clone()), vec!["id".to_string()]));
        mb.when_matched(WhenMatched::UpdateAll).when_not_matched(WhenNotMatched::DoNothing);
        let job = lance_try!(mb.try_build());
        let reader = RecordBatchIterator::new(vec![Ok(batch.clone())], batch.schema());
        let (ds, stats) = lance_try!(job.execute_reader(Box::new(reader) as Box<dyn arrow_array::RecordBatchReader + Send>).await);
        lin.head = (*ds).clone();
        desc["stats"] = json!([stats.num_inserted_rows, stats.num_updated_rows, stats.num_deleted_rows]);
        for (id, r) in ids.iter().zip(batch_to_rows(&batch)) {
            if let Some(row) = lin.model.rows.get_mut(id) {
                row[pos] = r[1].clone();
            }
        }
        // an index on the rewritten column may lose coverage of the rewritten fragments
        lin.model.indices_unknown = true;
        (Outcome::Ok, Extra::None)
    }

    pub fn random_compaction(&mut self) -> CompactionOptions {
        CompactionOptions {
            target_rows_per_fragment: *self.rng.pick(&[8usize, 40, 1000, 1 << 20]),
            max_rows_per_group: *self.rng.pick(&[4usize, 1024]),
            materialize_deletions: self.rng.chance(3, 4),
            materialize_deletions_threshold: *self.rng.pick(&[0.0f32, 0.1, 0.5]),
            defer_index_remap: self.rng.chance(1, 5) && !self.cfg.no_deferred_remap,
            batch_size: *self.rng.pick(&[None, Some(7usize)]),
            ..Default::default()
        }
    }

    async fn op_compact(&mut self, loc: &Loc, desc: &mut Value) -> (Outcome, Extra) {
        let opts = self.random_compaction();
        *desc = json!({"target": opts.target_rows_per_fragment, "materialize": opts.materialize_deletions,
                       "thr": opts.materialize_deletions_threshold, "defer_remap": opts.defer_index_remap, "batch": opts.batch_size});
        let lin = self.lin.get_mut(loc).unwrap();
        let m = lance_try!(compact_files(&mut lin.head, opts, None).await);
        desc["metrics"] = json!([m.fragments_removed, m.fragments_added, m.files_removed, m.files_added]);
        (Outcome::Ok, Extra::None)
    }

    async fn op_create_index(&mut self, loc: &Loc, desc: &mut Value) -> (Outcome, Extra) {
        let Some(spec) = self.spec_of(loc) else {
            return (Outcome::Skipped, Extra::None);
        };
        let mut cands: Vec<String> = spec
            .cols
            .iter()
            .filter(|c| is_int_ty(&c.ty) || is_str_ty(&c.ty))
            .map(|c| c.name.clone())
            .collect();
        cands.push("id".into());
        let col = self.rng.pick(&cands).clone();
        let bitmap = self.rng.chance(2, 5);
        let (ity, params) = if bitmap {
            (IndexType::Bitmap, ScalarIndexParams::for_builtin(BuiltinIndexType::Bitmap))
        } else {
            (IndexType::BTree, ScalarIndexParams::for_builtin(BuiltinIndexType::BTree))
        };
        let name = format!("{col}_idx");
        *desc = json!({"col": col, "type": if bitmap { "bitmap" } else { "btree" }});
        let lin = self.lin.get_mut(loc).unwrap();
        lance_try!(lin.head.create_index(&[col.as_str()], ity, Some(name.clone()), &params, true).await);
        lin.model.index_names.insert(name);
        (Outcome::Ok, Extra::None)
    }

    async fn op_optimize(&mut self, loc: &Loc, desc: &mut Value) -> (Outcome, Extra) {
        let (o, d) = match self.rng.below(3) {
            0 => (OptimizeOptions::append(), "append"),
            1 => (OptimizeOptions::merge(self.rng.urange(1, 3)), "merge"),
            _ => (OptimizeOptions::default(), "default"),
        };
        *desc = json!({"mode": d});
        let lin = self.lin.get_mut(loc).unwrap();
        lance_try!(lin.head.optimize_indices(&o).await);
        (Outcome::Ok, Extra::None)
    }

    async fn op_add_column(&mut self, loc: &Loc, desc: &mut Value) -> (Outcome, Extra) {
        let name = self.fresh_name("n");
        let all_null = self.rng.bool();
        let lin = self.lin.get_mut(loc).unwrap();
        if all_null {
            *desc = json!({"name": name, "how": "all_nulls:int32"});
            let sch = Arc::new(ArrowSchema::new(vec![ArrowField::new(&name, DataType::Int32, true)]));
            lance_try!(lin.head.add_columns(NewColumnTransform::AllNulls(sch), None, None).await);
            for r in lin.model.rows.values_mut() {
                r.push(Cell::Null);
            }
        } else {
            let k = self.rng.range(1, 9);
            *desc = json!({"name": name, "how": format!("sql: id + {k}")});
            lance_try!(
                lin.head
                    .add_columns(
                        NewColumnTransform::SqlExpressions(vec![(name.clone(), format!("id + {k}"))]),
                        None,
                        None
                    )
                    .await
            );
            let idp = lin.model.col("id").unwrap_or(0);
            for r in lin.model.rows.values_mut() {
                let v = r[idp].as_i64().unwrap_or(0) as i128 + k as i128;
                r.push(Cell::Int(v));
            }
        }
        lin.model.cols.push(name);
        (Outcome::Ok, Extra::None)
    }

    async fn op_drop_column(&mut self, loc: &Loc, desc: &mut Value) -> (Outcome, Extra) {
        let cols: Vec<String> = self.lin[loc].model.cols.iter().filter(|c| *c != "id").cloned().collect();
        if cols.is_empty() {
            return (Outcome::Skipped, Extra::None);
        }
        let c = self.rng.pick(&cols).clone();
        *desc = json!({"col": c});
        let lin = self.lin.get_mut(loc).unwrap();
        lance_try!(lin.head.drop_columns(&[c.as_str()]).await);
        let pos = lin.model.col(&c).unwrap();
        lin.model.cols.remove(pos);
        for r in lin.model.rows.values_mut() {
            r.remove(pos);
        }
        // indices on the dropped column go away; names are "<col-at-creation>_idx", so resync from
        // the observation instead of guessing
        lin.model.indices_unknown = true;
        (Outcome::Ok, Extra::None)
    }

    async fn op_alter_column(&mut self, loc: &Loc, desc: &mut Value) -> (Outcome, Extra) {
        let Some(spec) = self.spec_of(loc) else {
            return (Outcome::Skipped, Extra::None);
        };
        if spec.cols.is_empty() {
            return (Outcome::Skipped, Extra::None);
        }
        let c = self.rng.pick(&spec.cols).clone();
        let mut alt = ColumnAlteration::new(c.name.clone());
        let what;
        let mut rename_to = None;
        match self.rng.below(3) {
            0 => {
                let n = self.fresh_name("r");
                what = format!("rename {} -> {}", c.name, n);
                alt = alt.rename(n.clone());
                rename_to = Some(n);
            }
            1 => {
                what = format!("{} set nullable", c.name);
                alt = alt.set_nullable(true);
            }
            _ => {
                let to = match c.ty {
                    ColTy::I8 | ColTy::I16 => DataType::Int32,
                    ColTy::I32 => DataType::Int64,
                    ColTy::U8 | ColTy::U16 => DataType::UInt32,
                    ColTy::U32 => DataType::UInt64,
                    ColTy::F32 => DataType::Float64,
                    ColTy::Utf8 => DataType::LargeUtf8,
                    ColTy::LargeUtf8 => DataType::Utf8,
                    _ => return (Outcome::Skipped, Extra::None),
                };
                what = format!("cast {} -> {:?}", c.name, to);
                alt = alt.cast_to(to);
            }
        }
        *desc = json!({"alter": what});
        let lin = self.lin.get_mut(loc).unwrap();
        lance_try!(lin.head.alter_columns(&[alt]).await);
        if let Some(n) = rename_to {
            if let Some(p) = lin.model.col(&c.name) {
                lin.model.cols[p] = n;
            }
        } else {
            // a cast drops indices on the column
            lin.model.indices_unknown = true;
        }
        (Outcome::Ok, Extra::None)
    }

    async fn op_update_config(&mut self, loc: &Loc, desc: &mut Value) -> (Outcome, Extra) {
        let key = format!("vk.{}", self.rng.pick(&["a", "b", "c"]));
        let del = self.rng.chance(1, 4);
        let val = format!("{}", self.rng.below(100));
        *desc = json!({"key": key, "value": if del { Value::Null } else { json!(val) }});
        let lin = self.lin.get_mut(loc).unwrap();
        if del {
            lance_try!(lin.head.update_config([(key.as_str(), None::<&str>)]).await);
            lin.model.config.remove(&key);
        } else {
            lance_try!(lin.head.update_config([(key.as_str(), Some(val.as_str()))]).await);
            lin.model.config.insert(key, val);
        }
        (Outcome::Ok, Extra::None)
    }

    async fn op_auto_cleanup_config(&mut self, loc: &Loc, desc: &mut Value) -> (Outcome, Extra) {
        let interval = self.rng.urange(1, 3).to_string();
        let older = *self.rng.pick(&["0s", "1000days"]);
        let retain = self.rng.urange(1, 4).to_string();
        let use_retain = self.rng.bool();
        let use_older = !use_retain || self.rng.bool();
        *desc = json!({"interval": interval, "older_than": if use_older { Some(older) } else { None }, "retain_versions": if use_retain { Some(&retain) } else { None }});
        let lin = self.lin.get_mut(loc).unwrap();
        let mut kv: Vec<(&str, Option<&str>)> = vec![("lance.auto_cleanup.interval", Some(interval.as_str()))];
        kv.push(("lance.auto_cleanup.older_than", if use_older { Some(older) } else { None }));
        kv.push((
            "lance.auto_cleanup.retain_versions",
            if use_retain { Some(retain.as_str()) } else { None },
        ));
        lance_try!(lin.head.update_config(kv).await);
        (Outcome::Ok, Extra::None)
    }

    async fn op_restore(&mut self, loc: &Loc, desc: &mut Value) -> (Outcome, Extra) {
        if loc.branch.is_some() && !self.cfg.restore_on_branches {
            return (Outcome::Skipped, Extra::None);
        }
        let lin = self.lin.get(loc).unwrap();
        let latest = lin.latest();
        let cands: Vec<u64> = lin.snaps.keys().copied().filter(|v| *v != latest).collect();
        if cands.is_empty() {
            return (Outcome::Skipped, Extra::None);
        }
        let v = *self.rng.pick(&cands);
        *desc = json!({"to": v, "latest": latest});
        let lin = self.lin.get_mut(loc).unwrap();
        let mut old = lance_try!(lin.head.checkout_version((loc.branch.clone(), Some(v))).await);
        lance_try!(old.restore().await);
        lin.head = old;
        if let Some(m) = lin.models.get(&v) {
            lin.model = m.clone();
        }
        (
            Outcome::Ok,
            Extra::Restore {
                loc: loc.clone(),
                from: v,
            },
        )
    }

    async fn op_tag(&mut self, kind: OpKind, loc: &Loc, desc: &mut Value) -> (Outcome, Extra) {
        let table = loc.table.clone();
        let existing: Vec<String> = self.tags.keys().filter(|(t, _)| *t == table).map(|(_, n)| n.clone()).collect();
        let tag = match kind {
            OpKind::TagCreate => {
                let free: Vec<&&str> = TAG_NAMES.iter().filter(|n| !existing.iter().any(|e| e == **n)).collect();
                if free.is_empty() {
                    return (Outcome::Skipped, Extra::None);
                }
                (**self.rng.pick(&free)).to_string()
            }
            _ => {
                if existing.is_empty() {
                    return (Outcome::Skipped, Extra::None);
                }
                self.rng.pick(&existing).clone()
            }
        };
        let vers: Vec<u64> = self.lin[loc].snaps.keys().copied().collect();
        if vers.is_empty() {
            return (Outcome::Skipped, Extra::None);
        }
        let v = *self.rng.pick(&vers);
        // call through a random live handle of the table (tags live at the root)
        let handles = self.locs_of_table(&table);
        let via = self.rng.pick(&handles).clone();
        *desc = json!({"tag": tag, "target": format!("{}:{}", loc.label(), v), "via": via.label()});
        let h = &self.lin[&via].head;
        match kind {
            OpKind::TagCreate => {
                lance_try!(h.tags().create_on_branch(&tag, v, loc.branch.as_deref()).await);
                self.tags.insert((table.clone(), tag.clone()), (loc.branch.clone(), v));
            }
            OpKind::TagUpdate => {
                lance_try!(h.tags().update_on_branch(&tag, v, loc.branch.as_deref()).await);
                self.tags.insert((table.clone(), tag.clone()), (loc.branch.clone(), v));
            }
            _ => {
                lance_try!(h.tags().delete(&tag).await);
                self.tags.remove(&(table.clone(), tag.clone()));
            }
        }
        (Outcome::Ok, Extra::Tag { table, tag })
    }

    async fn op_branch_create(&mut self, loc: &Loc, desc: &mut Value) -> (Outcome, Extra) {
        let table = loc.table.clone();
        let live: Vec<String> = self
            .lin
            .keys()
            .filter(|l| l.table == table)
            .filter_map(|l| l.branch.clone())
            .collect();
        let free: Vec<&&str> = BRANCH_NAMES.iter().filter(|n| !live.iter().any(|e| e == **n)).collect();
        if free.is_empty() || live.len() >= 4 {
            return (Outcome::Skipped, Extra::None);
        }
        let name = (**self.rng.pick(&free)).to_string();
        let vers: Vec<u64> = self.lin[loc].snaps.keys().copied().collect();
        if vers.is_empty() {
            return (Outcome::Skipped, Extra::None);
        }
        let v = *self.rng.pick(&vers);
        // the parent is named by the (branch, version) reference; the call may go through a handle of
        // the parent lineage or (1 in 3, when the parent is a branch) through the main handle
        let cross = loc.branch.is_some() && self.cfg.restore_on_branches && self.rng.chance(1, 3);
        *desc = json!({"name": name, "from": format!("{}:{}", loc.label(), v), "through_main_handle": cross});
        let sp = self.env.store_params();
        let via = if cross { Loc::main(&table) } else { loc.clone() };
        let ds = {
            let lin = self.lin.get_mut(&via).unwrap();
            lance_try!(lin.head.create_branch(&name, (loc.branch.clone(), Some(v)), sp).await)
        };
        let lin = self.lin.get_mut(loc).unwrap();
        let model = lin.models.get(&v).cloned().unwrap_or_default();
        let new = Loc {
            table,
            branch: Some(name),
        };
        self.lin.insert(
            new.clone(),
            Lineage {
                head: ds,
                model,
                models: BTreeMap::new(),
                snaps: BTreeMap::new(),
                removed: BTreeMap::new(),
                unreadable: BTreeMap::new(),
                frag_files: BTreeMap::new(),
                parent: Some((loc.clone(), v)),
            },
        );
        (
            Outcome::Ok,
            Extra::BranchCreate {
                new,
                parent: loc.clone(),
                version: v,
                cross_handle: cross,
            },
        )
    }

    /// lineages whose manifests may reference files stored under `loc`'s directory
    pub fn dependents(&self, loc: &Loc) -> Vec<Loc> {
        let mut out = vec![];
        let mut frontier = vec![loc.clone()];
        while let Some(x) = frontier.pop() {
            for (l, lin) in &self.lin {
                if let Some((p, _)) = &lin.parent {
                    if *p == x && !out.contains(l) {
                        out.push(l.clone());
                        frontier.push(l.clone());
                    }
                }
            }
        }
        out
    }

    async fn op_branch_delete(&mut self, loc: &Loc, desc: &mut Value) -> (Outcome, Extra) {
        let table = loc.table.clone();
        let cands: Vec<Loc> = self
            .lin
            .keys()
            .filter(|l| l.table == table && l.branch.is_some())
            .filter(|l| self.dependents(l).is_empty())
            .cloned()
            .collect();
        if cands.is_empty() {
            return (Outcome::Skipped, Extra::None);
        }
        let victim = self.rng.pick(&cands).clone();
        let name = victim.branch.clone().unwrap();
        *desc = json!({"name": name});
        let main = Loc::main(&table);
        let lin = self.lin.get_mut(&main).unwrap();
        lance_try!(lin.head.delete_branch(&name).await);
        self.lin.remove(&victim);
        self.dead.push(victim.clone());
        let live_after = self
            .lin
            .keys()
            .filter(|l| l.table == table)
            .filter_map(|l| l.branch.clone())
            .collect();
        (
            Outcome::Ok,
            Extra::BranchDelete {
                loc: victim,
                live_after,
            },
        )
    }

    async fn op_clone(&mut self, loc: &Loc, desc: &mut Value) -> (Outcome, Extra) {
        if self.tables.len() >= 4 || self.env.world().is_none() {
            return (Outcome::Skipped, Extra::None);
        }
        let vers: Vec<u64> = self.lin[loc].snaps.keys().copied().collect();
        if vers.is_empty() {
            return (Outcome::Skipped, Extra::None);
        }
        let v = *self.rng.pick(&vers);
        let target = format!("{}_c{}", loc.table.trim_end_matches('/'), self.fresh_name(""));
        *desc = json!({"target": target, "from": format!("{}:{}", loc.label(), v)});
        let sp = self.env.store_params();
        let lin = self.lin.get_mut(loc).unwrap();
        let ds = lance_try!(lin.head.shallow_clone(&target, (loc.branch.clone(), Some(v)), sp).await);
        let model = lin.models.get(&v).cloned().unwrap_or_default();
        let new = Loc::main(&target);
        self.tables.push(target);
        self.lin.insert(
            new.clone(),
            Lineage {
                head: ds,
                model,
                models: BTreeMap::new(),
                snaps: BTreeMap::new(),
                removed: BTreeMap::new(),
                unreadable: BTreeMap::new(),
                frag_files: BTreeMap::new(),
                parent: Some((loc.clone(), v)),
            },
        );
        (
            Outcome::Ok,
            Extra::Clone {
                new,
                parent: loc.clone(),
                version: v,
            },
        )
    }

    pub async fn listed_versions(&self, loc: &Loc) -> Vec<(u64, DateTime<Utc>)> {
        match self.lin.get(loc) {
            Some(lin) => match lin.head.versions().await {
                Ok(vs) => vs.iter().map(|v| (v.version, v.timestamp)).collect(),
                Err(_) => lin.snaps.iter().map(|(v, s)| (*v, s.timestamp)).collect(),
            },
            None => vec![],
        }
    }

    /// no other lineage shares files with this one (no branches of its table, not a clone, not cloned)
    pub fn is_isolated(&self, loc: &Loc) -> bool {
        self.locs_of_table(&loc.table).len() == 1
            && self.lin[loc].parent.is_none()
            && !self.lin.values().any(|l| l.parent.as_ref().map(|(p, _)| p.table == loc.table).unwrap_or(false))
    }

    /// Re-open (loc, v) and compare with the retained snapshot.
    /// Ok(None) = identical; Ok(Some((class, detail))) = differs; Err = cannot be opened / read.
    pub async fn recheck_version(&self, loc: &Loc, v: u64, fresh: bool) -> Result<Option<(String, Value)>, String> {
        let lin = self.lin.get(loc).ok_or("lineage gone")?;
        let old = lin.snaps.get(&v).ok_or("no snapshot")?;
        let raw = self.env.raw();
        let fut = async {
            let ds = if fresh {
                self.open_at(loc, Some(v), true).await.map_err(|e| format!("open: {e}"))?
            } else {
                lin.head
                    .checkout_version((loc.branch.clone(), Some(v)))
                    .await
                    .map_err(|e| format!("checkout: {e}"))?
            };
            if ds.manifest().version != v {
                return Err(format!("asked for version {v}, got {}", ds.manifest().version));
            }
            take_snapshot(&ds, &raw).await
        };
        let new = crate::walker::guard(fut).await?;
        // an object the manifest names is gone: that is "unreadable", not "different"
        for (sig, detail) in &new.walk_problems {
            if sig == "deletion-file-missing" {
                let p = detail.rsplit("file ").next().unwrap_or("");
                return Err(format!("deletion vector unreadable: Object at location {p} not found"));
            }
        }
        Ok(crate::snap::diff(old, &new))
    }

    pub fn tagged_versions(&self, table: &str) -> BTreeSet<u64> {
        self.tags.iter().filter(|((t, _), _)| t == table).map(|(_, (_, v))| *v).collect()
    }

    pub fn random_policy(&mut self, loc: &Loc) -> PolicyDesc {
        let lin = &self.lin[loc];
        let vers: Vec<(u64, DateTime<Utc>)> = lin.snaps.iter().map(|(v, s)| (*v, s.timestamp)).collect();
        let mut p = PolicyDesc {
            before_version: None,
            before_timestamp: None,
            retain_n: None,
            delete_unverified: self.rng.chance(1, 3),
            error_if_tagged: self.rng.chance(1, 3),
            api: "policy",
        };
        match self.rng.below(5) {
            0 => {
                let (v, _) = *self.rng.pick(&vers);
                p.before_version = Some(v + self.rng.below(2));
            }
            1 => {
                let (_, t) = *self.rng.pick(&vers);
                p.before_timestamp = Some(t);
            }
            2 => p.retain_n = Some(self.rng.urange(1, 4)),
            3 => {
                let (v, _) = *self.rng.pick(&vers);
                let (_, t) = *self.rng.pick(&vers);
                p.before_version = Some(v);
                p.before_timestamp = Some(t);
            }
            _ => {
                p.api = "older_than";
                // 0 => everything older than now; 1000 days => nothing
                p.before_timestamp = if self.rng.bool() { Some(DateTime::<Utc>::MAX_UTC) } else { Some(DateTime::<Utc>::MIN_UTC) };
            }
        }
        p
    }

    pub async fn op_cleanup(&mut self, loc: &Loc, desc: &mut Value, policy: Option<PolicyDesc>) -> (Outcome, Extra) {
        let p = match policy {
            Some(p) => p,
            None => self.random_policy(loc),
        };
        *desc = json!({"before_version": p.before_version, "before_timestamp": p.before_timestamp.map(|t| t.to_rfc3339()),
                       "retain_n": p.retain_n, "delete_unverified": p.delete_unverified, "error_if_tagged": p.error_if_tagged, "api": p.api});
        let all_paths_before = match self.env.world() {
            Some(w) => w.list_paths().await,
            None => vec![],
        };
        let tagged = self.tagged_versions(&loc.table);
        let lin = self.lin.get_mut(loc).unwrap();
        // everything that is listed, whether or not we could snapshot it
        let before: Vec<(u64, DateTime<Utc>)> = match lin.head.versions().await {
            Ok(vs) => vs.iter().map(|v| (v.version, v.timestamp)).collect(),
            Err(_) => lin.snaps.iter().map(|(v, s)| (*v, s.timestamp)).collect(),
        };
        let latest = lin.latest();
        let mut extra = Extra::Cleanup {
            loc: loc.clone(),
            policy: p.clone(),
            before,
            tagged,
            latest,
            all_paths_before,
            removed_stats: None,
        };
        let res = if p.api == "older_than" {
            let older = if p.before_timestamp == Some(DateTime::<Utc>::MAX_UTC) {
                chrono::Duration::zero()
            } else {
                chrono::Duration::days(1000)
            };
            lin.head
                .cleanup_old_versions(older, Some(p.delete_unverified), Some(p.error_if_tagged))
                .await
        } else {
            let mut b = CleanupPolicyBuilder::default();
            if let Some(t) = p.before_timestamp {
                b = b.before_timestamp(t);
            }
            if let Some(n) = p.retain_n {
                b = match b.retain_n_versions(&lin.head, n).await {
                    Ok(b) => b,
                    Err(e) => return (classify_err(&e), extra),
                };
            }
            b = b.delete_unverified(p.delete_unverified).error_if_tagged_old_versions(p.error_if_tagged);
            let mut pol: CleanupPolicy = b.build();
            if let Some(v) = p.before_version {
                // the builder has no method for a bare version bound; the field is public
                pol.before_version = Some(v);
            }
            lin.head.cleanup_with_policy(pol).await
        };
        if let (Ok(st), Extra::Cleanup { removed_stats, .. }) = (&res, &mut extra) {
            *removed_stats = Some((st.old_versions, st.bytes_removed));
        }
        self.finish_cleanup(res, extra)
    }

    fn finish_cleanup(
        &mut self,
        res: lance::Result<lance::dataset::cleanup::RemovalStats>,
        mut extra: Extra,
    ) -> (Outcome, Extra) {
        match res {
            Ok(st) => {
                if let Extra::Cleanup { removed_stats, .. } = &mut extra {
                    *removed_stats = Some((st.old_versions, st.bytes_removed));
                }
                (Outcome::Ok, extra)
            }
            Err(e) => (classify_err(&e), extra),
        }
    }

    async fn op_stale_write(&mut self, loc: &Loc, desc: &mut Value) -> (Outcome, Extra) {
        let lin = self.lin.get(loc).unwrap();
        let latest = lin.latest();
        let cands: Vec<u64> = lin.snaps.keys().copied().filter(|v| *v < latest).collect();
        if cands.is_empty() {
            return (Outcome::Skipped, Extra::None);
        }
        let v = *self.rng.pick(&cands);
        let do_append = self.rng.bool();
        let old = lance_try!(self.lin[loc].head.checkout_version((loc.branch.clone(), Some(v))).await);
        let extra = Extra::Stale {
            loc: loc.clone(),
            from: v,
            what: if do_append { "append" } else { "delete" },
        };
        if do_append {
            let n = self.rng.urange(1, 8);
            let ids = self.ids.take(n);
            let s: ArrowSchema = old.schema().into();
            let Some(spec) = spec_from_schema(&s) else {
                return (Outcome::Skipped, Extra::None);
            };
            let b = spec.batch(&mut self.rng, &ids);
            let sch = Arc::new(ArrowSchema::new(
                s.fields()
                    .iter()
                    .map(|f| ArrowField::new(f.name(), f.data_type().clone(), f.is_nullable()))
                    .collect::<Vec<_>>(),
            ));
            let Ok(batch) = RecordBatch::try_new(sch, b.columns().to_vec()) else {
                return (Outcome::Skipped, Extra::None);
            };
            *desc = json!({"from_version": v, "latest": latest, "what": "append", "rows": n});
            let params = self.append_params();
            let mut old = old;
            let reader = RecordBatchIterator::new(vec![Ok(batch.clone())], batch.schema());
            match old.append(reader, Some(params)).await {
                Ok(()) => {}
                Err(e) => return (classify_err(&e), extra),
            }
            let lin = self.lin.get_mut(loc).unwrap();
            // expectation: the append is rebased on top of the latest version
            let same_cols = lin.model.cols == batch.schema().fields().iter().map(|f| f.name().clone()).collect::<Vec<_>>();
            if same_cols {
                for (id, r) in ids.iter().zip(batch_to_rows(&batch)) {
                    lin.model.rows.insert(*id, r);
                }
            } else {
                lin.model.resync = true;
            }
            lin.head = old;
        } else {
            let old_ids: Vec<i64> = self.lin[loc]
                .models
                .get(&v)
                .map(|m| m.rows.keys().copied().collect())
                .unwrap_or_default();
            if old_ids.is_empty() {
                return (Outcome::Skipped, Extra::None);
            }
            let k = self.rng.urange(1, old_ids.len().min(6));
            let idx = self.rng.sample_indices(old_ids.len(), k);
            let ids: Vec<i64> = idx.into_iter().map(|i| old_ids[i]).collect();
            let pred = ids_sql(&ids);
            *desc = json!({"from_version": v, "latest": latest, "what": "delete", "pred": pred});
            let mut old = old;
            match old.delete(&pred).await {
                Ok(()) => {}
                Err(e) => return (classify_err(&e), extra),
            }
            let lin = self.lin.get_mut(loc).unwrap();
            for i in ids {
                lin.model.rows.remove(&i);
            }
            lin.head = old;
        }
        (Outcome::Ok, extra)
    }

    async fn op_concurrent_deletes(&mut self, loc: &Loc, desc: &mut Value) -> (Outcome, Extra) {
        let all = self.model_ids(loc);
        if all.len() < 4 {
            return (Outcome::Skipped, Extra::None);
        }
        // two disjoint sets, interleaved so that they usually hit the same fragments
        let k = self.rng.urange(1, (all.len() / 3).max(1));
        let idx = self.rng.sample_indices(all.len(), 2 * k);
        let a: Vec<i64> = idx[..k].iter().map(|i| all[*i]).collect();
        let b: Vec<i64> = idx[k..].iter().map(|i| all[*i]).collect();
        *desc = json!({"a": a.len(), "b": b.len()});
        let lin = self.lin.get_mut(loc).unwrap();
        let mut h1 = lin.head.clone();
        let mut h2 = lin.head.clone();
        lance_try!(h1.delete(&ids_sql(&a)).await);
        for i in &a {
            lin.model.rows.remove(i);
        }
        // expectation after the first commit is final even if the second is refused
        let r2 = h2.delete(&ids_sql(&b)).await;
        match r2 {
            Ok(()) => {
                for i in &b {
                    lin.model.rows.remove(i);
                }
                lin.head = h2;
                (Outcome::Ok, Extra::None)
            }
            Err(e) => {
                lin.head = h1;
                desc["second"] = json!(e.to_string().chars().take(200).collect::<String>());
                // the first delete committed: this step is Ok for bookkeeping purposes
                match classify_err(&e) {
                    Outcome::Rejected(_) => (Outcome::Ok, Extra::None),
                    o => {
                        self.problems.push(format!("second concurrent delete failed: {}", o.text()));
                        (Outcome::Ok, Extra::None)
                    }
                }
            }
        }
    }

    /// Delete every object of an isolated table and create a new table at the same URI through the
    /// same Session.
    async fn op_drop_recreate(&mut self, loc: &Loc, desc: &mut Value) -> (Outcome, Extra) {
        let Some(world) = self.env.world().cloned() else {
            return (Outcome::Skipped, Extra::None);
        };
        if loc.branch.is_some() || !self.is_isolated(loc) {
            return (Outcome::Skipped, Extra::None);
        }
        let root = format!("{}/", crate::walker::uri_to_path(&loc.table));
        let mut n = 0;
        for p in world.list_paths().await {
            if p.starts_with(&root) {
                let _ = world.backing.delete(&object_store::path::Path::from(p.as_str())).await;
                n += 1;
            }
        }
        self.lin.remove(loc);
        let table = loc.table.clone();
        self.tags.retain(|(t, _), _| *t != table);
        let rec = Box::pin(self.create_table(&table)).await;
        // create_table pushed its own step record; fold it into this one
        self.steps.pop();
        *desc = json!({"objects_deleted": n, "recreate": rec.desc});
        (rec.outcome, Extra::None)
    }

    async fn op_crashed_append(&mut self, loc: &Loc, desc: &mut Value) -> (Outcome, Extra) {
        let Some(world) = self.env.world().cloned() else {
            return (Outcome::Skipped, Extra::None);
        };
        let n = self.rng.urange(1, 12);
        let ids = self.ids.take(n);
        let Some(batch) = self.gen_batch(loc, &ids) else {
            return (Outcome::Skipped, Extra::None);
        };
        let k = self.rng.urange(1, 4) as u64;
        let fault = if self.rng.chance(1, 4) { Fault::LostReply } else { Fault::FailBefore };
        *desc = json!({"rows": n, "crash_at": k, "fault": format!("{fault:?}")});
        self.next_actor += 1;
        let crasher = Actor::new(world.new_actor(self.next_actor));
        let before: BTreeSet<String> = world.list_paths().await.into_iter().collect();
        let mut b = lance::dataset::builder::DatasetBuilder::from_uri(&loc.table).with_read_params(crasher.read_params());
        if let Some(br) = &loc.branch {
            b = b.with_branch(br, None);
        }
        let mut ds = lance_try!(b.load().await);
        crasher.store.reset_counters();
        crasher.store.set_plan(FaultPlan {
            crash_at: Some((k, fault)),
            ..Default::default()
        });
        let mut params = crasher.write_params(WriteMode::Append);
        params.enable_stable_row_ids = self.cfg.stable_row_ids;
        let reader = RecordBatchIterator::new(vec![Ok(batch.clone())], batch.schema());
        let latest_before = self.lin[loc].latest();
        let res = ds.append(reader, Some(params)).await;
        let after: BTreeSet<String> = world.list_paths().await.into_iter().collect();
        let new_paths: Vec<String> = after.difference(&before).cloned().collect();
        // did it commit (Ok, or lost reply on the manifest put)?
        let lin = self.lin.get_mut(loc).unwrap();
        let _ = lin.head.checkout_latest().await;
        let committed = lin.head.manifest().version != latest_before;
        if committed {
            for (id, r) in ids.iter().zip(batch_to_rows(&batch)) {
                lin.model.rows.insert(*id, r);
            }
        }
        let extra = Extra::Crash {
            loc: loc.clone(),
            orphans: if committed { vec![] } else { new_paths },
            committed,
        };
        match res {
            Ok(()) => (Outcome::Ok, extra),
            Err(e) => (Outcome::Rejected(format!("injected crash: {}", e.to_string().chars().take(120).collect::<String>())), extra),
        }
    }

    pub fn ops_json(&self, max: usize) -> Vec<Value> {
        let n = self.steps.len();
        self.steps.iter().skip(n.saturating_sub(max)).map(|s| s.brief()).collect()
    }

    /// signature of the history's shape: op kinds + outcomes (used for distinct_nontrivial)
    pub fn shape_sig(&self) -> u64 {
        let mut s = self.cfg.describe();
        for st in &self.steps {
            s.push_str(st.kind.name());
            s.push(':');
            s.push_str(st.outcome.label());
            s.push(';');
        }
        vmon::prng::fnv_str(&s)
    }

    pub fn count_ops(&self, report: &Report) {
        for st in &self.steps {
            report.count(&format!("op_{}_{}", st.kind.name(), st.outcome.label()), 1);
            if matches!(st.outcome, Outcome::Rejected(_)) {
                report.rejected();
            }
        }
        for st in &self.steps {
            if let Outcome::Failed(m) | Outcome::Panicked(m) = &st.outcome {
                let key: String = m.chars().filter(|c| c.is_ascii_alphabetic() || *c == ' ').take(70).collect();
                let k = format!("op_failure[{}:{}]", st.kind.name(), key.trim());
                report.count(&k, 1);
                if report.counter(&k) == 1 {
                    report.set(
                        &format!("{k}.first"),
                        json!({"seed": report.seed, "case": self.case, "step": st.idx, "config": self.cfg.describe(), "msg": m.chars().take(240).collect::<String>()}),
                    );
                }
            }
        }
        report.count("ops_executed", self.steps.len() as u64);
        report.count("model_disagreements", self.model_disagreements.len() as u64);
        report.count("engine_problems", self.problems.len() as u64);
    }
}

// -------------------------------------------------------------------------------------------
// parallel driver
// -------------------------------------------------------------------------------------------

pub type CaseFut<'a> = std::pin::Pin<Box<dyn std::future::Future<Output = ()> + 'a>>;

/// Run cases `0..max_cases` on `threads` OS threads (each with its own current-thread runtime)
/// until the budget is used up. `f(case_index)` must build everything it needs itself.
pub fn run_parallel<F>(report: &Report, _args: &Args, threads: usize, max_cases: u64, case_timeout_s: u64, f: F)
where
    F: for<'a> Fn(u64, &'a Report) -> CaseFut<'a> + Sync,
{
    let next = std::sync::atomic::AtomicU64::new(0);
    // the lead caps worker threads on the shared machine through VERIF_THREADS
    let threads = std::env::var("VERIF_THREADS")
        .ok()
        .and_then(|v| v.parse::<usize>().ok())
        .filter(|n| *n >= 1)
        .unwrap_or(threads);
    report.set("worker_threads", json!(threads));
    std::thread::scope(|s| {
        for _ in 0..threads {
            s.spawn(|| {
                let rt = tokio::runtime::Builder::new_current_thread().enable_all().build().unwrap();
                loop {
                    if !report.time_left() {
                        break;
                    }
                    let i = next.fetch_add(1, std::sync::atomic::Ordering::SeqCst);
                    if i >= max_cases {
                        break;
                    }
                    let fut = f(i, report);
                    let r = rt.block_on(async {
                        tokio::time::timeout(std::time::Duration::from_secs(case_timeout_s), AssertUnwindSafe(fut).catch_unwind()).await
                    });
                    match r {
                        Err(_) => report.inconclusive(&format!("case {i} exceeded {case_timeout_s}s")),
                        Ok(Err(p)) => {
                            let msg = p
                                .downcast_ref::<String>()
                                .cloned()
                                .or_else(|| p.downcast_ref::<&str>().map(|s| s.to_string()))
                                .unwrap_or_else(|| "panic".into());
                            report.harness_error(&format!("case {i} panicked in the harness: {msg}"));
                        }
                        Ok(Ok(())) => {}
                    }
                }
            });
        }
    });
}
