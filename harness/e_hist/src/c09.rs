//! C09 — branches, tags and shallow clones are isolated references.
//!
//! (i) tag model, (ii) every other ref re-read after every step, (iii) storage footprint of every
//! step incl. delete_branch, (iv) name grammar (exhaustive over a small alphabet), (v) a new branch /
//! clone starts with exactly the contents of (parent, version), (vi) tags open through the builder.
use crate::hist::{Extra, Hist, HistCfg, Loc, OpKind, StepRec, Weights};
use crate::walker::uri_to_path;
use lance::dataset::refs::{check_valid_branch, check_valid_tag};
use serde_json::json;
use std::collections::BTreeSet;
use vmon::prng::Rng;
use vmon::report::{Args, Report};
use vmon::store::{Kind, World};

fn weights() -> Weights {
    use OpKind::*;
    vec![
        (12, BranchCreate),
        (6, BranchDelete),
        (8, TagCreate),
        (5, TagUpdate),
        (3, TagDelete),
        (5, ShallowClone),
        (10, Append),
        (5, DeleteIds),
        (3, Update),
        (3, Upsert),
        (5, Compact),
        (2, CreateIndex),
        (4, Overwrite),
        (3, Restore),
        (6, Cleanup),
        (1, AddColumn),
        (1, DropColumn),
    ]
}

// ---------------------------------------------------------------------------------------------
// (iv) grammar: independent implementation of the *documented* rules
// (docs/src/format/table/branch_tag.md and the error messages / doc of check_valid_branch/tag)
// ---------------------------------------------------------------------------------------------

fn doc_char_ok(c: char) -> bool {
    // "alphanumeric characters, `.`, `-`, `_`" — the docs do not restrict to ASCII
    c.is_alphanumeric() || c == '.' || c == '-' || c == '_'
}

pub fn doc_valid_branch(s: &str) -> bool {
    if s.is_empty() {
        return false; // 1
    }
    if s.starts_with('/') || s.ends_with('/') {
        return false; // 2
    }
    if s.contains("//") {
        return false; // 3
    }
    if s.contains("..") || s.contains('\\') {
        return false; // 4
    }
    for seg in s.split('/') {
        if seg.is_empty() || !seg.chars().all(doc_char_ok) {
            return false; // 5
        }
    }
    if s.ends_with(".lock") {
        return false; // 6
    }
    s != "main" // 7
}

pub fn doc_valid_tag(s: &str) -> bool {
    if s.is_empty() {
        return false; // 1
    }
    if !s.chars().all(doc_char_ok) {
        return false; // 2 (no '/')
    }
    if s.starts_with('.') || s.ends_with('.') {
        return false; // 3
    }
    if s.ends_with(".lock") {
        return false; // 4
    }
    !s.contains("..") // 5
}

const TOKENS: &[&str] = &["a", "1", ".", "-", "_", "/", "\\", " ", "é", "main", ".lock"];

fn grammar_exhaustive(report: &Report) -> (Vec<String>, Vec<String>) {
    let mut n = 0u64;
    let mut valid_b = vec![];
    let mut invalid_b = vec![];
    let mut accepted = (0u64, 0u64);
    let mut nonascii_accepted = 0u64;
    let mut stack: Vec<Vec<usize>> = vec![vec![]];
    while let Some(cur) = stack.pop() {
        let s: String = cur.iter().map(|i| TOKENS[*i]).collect();
        n += 1;
        let (mb, rb) = (doc_valid_branch(&s), check_valid_branch(&s).is_ok());
        let (mt, rt) = (doc_valid_tag(&s), check_valid_tag(&s).is_ok());
        if rb {
            accepted.0 += 1;
            if !s.is_ascii() {
                nonascii_accepted += 1;
            }
        }
        if rt {
            accepted.1 += 1;
        }
        if mb != rb {
            report.violation(
                if rb { "branch-name-accepted-against-documented-grammar" } else { "branch-name-rejected-against-documented-grammar" },
                &format!("check_valid_branch({s:?}) = {rb}, documented rules say {mb}"),
                json!({"name": s, "lance_accepts": rb, "documented": mb}),
            );
        }
        if mt != rt {
            report.violation(
                if rt { "tag-name-accepted-against-documented-grammar" } else { "tag-name-rejected-against-documented-grammar" },
                &format!("check_valid_tag({s:?}) = {rt}, documented rules say {mt}"),
                json!({"name": s, "lance_accepts": rt, "documented": mt}),
            );
        }
        if n % 97 == 0 {
            if rb && valid_b.len() < 400 {
                valid_b.push(s.clone());
            } else if !rb && invalid_b.len() < 400 {
                invalid_b.push(s.clone());
            }
        }
        if cur.len() < 5 {
            for t in 0..TOKENS.len() {
                let mut nx = cur.clone();
                nx.push(t);
                stack.push(nx);
            }
        }
    }
    report.count("grammar_strings_checked", n);
    report.count("grammar_branch_names_accepted", accepted.0);
    report.count("grammar_tag_names_accepted", accepted.1);
    report.count("grammar_non_ascii_branch_names_accepted", nonascii_accepted);
    report.set("grammar_exhaustive_over", json!({"tokens": TOKENS, "max_tokens": 5}));
    (valid_b, invalid_b)
}

/// Drive sampled names through the real API on a tiny table: acceptance must agree with the
/// grammar functions, accepted names must round trip through list/get exactly.
async fn grammar_through_api(seed: u64, valid: &[String], invalid: &[String], report: &Report) {
    let mut rng = Rng::for_case(seed, 0xABCD);
    let mut h = Hist::mem(rng.clone(), {
        let mut c = HistCfg::random(&mut rng);
        c.storage = lance_encoding::version::LanceFileVersion::V2_0;
        c
    });
    h.create_table("memory://g0").await;
    let loc = Loc::main("memory://g0");
    let sp = h.env.store_params();
    let mut names: Vec<(String, bool)> = vec![];
    for i in rng.sample_indices(valid.len(), 25.min(valid.len())) {
        names.push((valid[i].clone(), true));
    }
    for i in rng.sample_indices(invalid.len(), 25.min(invalid.len())) {
        names.push((invalid[i].clone(), false));
    }
    for extra in ["feat", "feat/ure", "feature", "a/b/c", "x.lock", "main", "main/x", "x/main", "a..b", "-", "_", "é/é"] {
        names.push((extra.to_string(), check_valid_branch(extra).is_ok()));
    }
    let mut created = BTreeSet::new();
    for (name, expect_ok) in names {
        if created.contains(&name) {
            continue;
        }
        let lin = h.lin.get_mut(&loc).unwrap();
        let r = lin.head.create_branch(&name, (None, Some(1)), sp.clone()).await;
        report.count("grammar_names_driven_through_create_branch", 1);
        match (r.is_ok(), expect_ok) {
            (true, true) => {
                created.insert(name.clone());
            }
            (false, false) => {
                report.rejected();
            }
            (true, false) => {
                report.violation(
                    "create_branch-accepts-name-check_valid_branch-rejects",
                    &format!("create_branch({name:?}) succeeded"),
                    json!({"name": name}),
                );
            }
            (false, true) => {
                let e = r.err().map(|e| e.to_string()).unwrap_or_default();
                // a valid name may still collide with the directory of an existing branch; only
                // InvalidRef-style refusals of a grammatical name are a grammar disagreement
                if e.contains("InvalidRef") || e.contains("invalid characters") {
                    report.violation(
                        "create_branch-rejects-grammatical-name",
                        &format!("create_branch({name:?}) failed: {e}"),
                        json!({"name": name, "error": e}),
                    );
                } else {
                    report.count("grammar_valid_names_refused_for_other_reasons", 1);
                    if report.counter("grammar_valid_names_refused_for_other_reasons") <= 3 {
                        report.set(
                            &format!("grammar_refusal_{}", report.counter("grammar_valid_names_refused_for_other_reasons")),
                            json!({"name": name, "error": e.chars().take(200).collect::<String>()}),
                        );
                    }
                }
            }
        }
    }
    let listed: BTreeSet<String> = match h.lin[&loc].head.list_branches().await {
        Ok(m) => m.keys().cloned().collect(),
        Err(e) => {
            report.violation("list_branches-fails-after-creating-valid-names", &e.to_string(), json!({"created": created}));
            return;
        }
    };
    if listed != created {
        report.violation(
            "branch-names-do-not-round-trip-through-list_branches",
            &format!("created {:?} listed {:?}", created.difference(&listed).collect::<Vec<_>>(), listed.difference(&created).collect::<Vec<_>>()),
            json!({"created": created, "listed": listed}),
        );
    }
    report.count("grammar_branch_names_round_tripped", created.len() as u64);
    // tags
    let mut tags = BTreeSet::new();
    for (i, name) in valid.iter().chain(invalid.iter()).enumerate() {
        if i % 9 != 0 {
            continue;
        }
        let ok = check_valid_tag(name).is_ok();
        let r = h.lin[&loc].head.tags().create(name, 1).await;
        report.count("grammar_names_driven_through_tag_create", 1);
        if r.is_ok() != ok {
            report.violation(
                "tag-create-disagrees-with-check_valid_tag",
                &format!("tags().create({name:?}) ok={} check_valid_tag ok={}", r.is_ok(), ok),
                json!({"name": name}),
            );
        }
        if r.is_ok() {
            tags.insert(name.clone());
        }
    }
    match h.lin[&loc].head.tags().list().await {
        Ok(m) => {
            let listed: BTreeSet<String> = m.keys().cloned().collect();
            if listed != tags {
                report.violation(
                    "tag-names-do-not-round-trip-through-list",
                    &format!("created {:?} listed {:?}", tags, listed),
                    json!({"created": tags, "listed": listed}),
                );
            }
        }
        Err(e) => {
            let non_ascii: Vec<&String> = tags.iter().filter(|t| !t.is_ascii()).collect();
            let class = if !non_ascii.is_empty() && e.to_string().contains("%25") {
                // narrow class: a tag whose (accepted) name has a non-ASCII letter is stored
                // percent-encoded, listed by its encoded name and looked up double-encoded
                "tags-list-fails-after-creating-tag-with-non-ascii-name"
            } else {
                "tags-list-fails"
            };
            report.violation(class, &e.to_string(), json!({"created": tags, "non_ascii": non_ascii}));
        }
    }
}

pub fn run(args: &Args) -> i32 {
    if args.extra.contains_key("selftest") {
        return selftest();
    }
    let report = Report::new(
        args,
        "exploration",
        "case = one seeded history (<=12 quick / <=40 thorough ops) mixing branch creation from arbitrary (branch, version) parents with colliding hierarchical names (a, a/b, ab, a/b/c, feat, feat/ure, feature), writes/maintenance/cleanup on every lineage, tag create/update/delete, branch deletion, shallow clones. After every step: tags().get/list == model; every other lineage re-read against its snapshots; store-log mutations of the step confined to the directory of the lineage operated on (delete_branch: only tree/<b>/ not under another live branch). Plus exhaustive comparison of check_valid_branch/tag with the documented grammar over all strings of <=5 tokens. Non-trivial = >=2 lineages alive while >=2 later ops committed and >=3 cross-lineage re-reads; distinct by (config, op kinds, outcomes).",
        (75, 900),
    )
    .with_min_nontrivial(10);
    let max_ops = args.tier.pick(12usize, 40);
    let max_cases = args.tier.pick(4000u64, 200_000);
    if let Some(c) = args.extra.get("case").and_then(|c| c.parse::<u64>().ok()) {
        std::env::set_var("E_HIST_VERBOSE", "1");
        let rt = tokio::runtime::Builder::new_current_thread().enable_all().build().unwrap();
        rt.block_on(one_case(args.seed, c, max_ops, &report));
        return report.finish();
    }
    let (valid, invalid) = grammar_exhaustive(&report);
    {
        let rt = tokio::runtime::Builder::new_current_thread().enable_all().build().unwrap();
        rt.block_on(grammar_through_api(args.seed, &valid, &invalid, &report));
    }
    crate::hist::run_parallel(&report, args, 16, max_cases, 180, |i, report| {
        Box::pin(one_case(args.seed, i, max_ops, report))
    });
    report.finish()
}

fn lineage_dir(loc: &Loc) -> String {
    let root = uri_to_path(&loc.table);
    match &loc.branch {
        Some(b) => format!("{root}/tree/{b}"),
        None => root,
    }
}

fn branch_file(table: &str, name: &str) -> String {
    format!("{}/_refs/branches/{}.json", uri_to_path(table), name.replace('/', "%2F"))
}

/// Is a mutation of `path` inside the storage that belongs to `owner` alone, given the other live
/// lineages? (main owns everything under the root except tree/ and _refs/; a branch owns its
/// directory except nested directories of other live branches)
fn owned_by(path: &str, owner: &Loc, others: &[Loc]) -> bool {
    let dir = lineage_dir(owner);
    let Some(rest) = path.strip_prefix(&format!("{dir}/")) else {
        return false;
    };
    if owner.branch.is_none() && (rest.starts_with("tree/") || rest.starts_with("_refs/")) {
        return false;
    }
    for o in others {
        if o == owner {
            continue;
        }
        let od = lineage_dir(o);
        if od.len() > dir.len() && od.starts_with(&format!("{dir}/")) && path.starts_with(&format!("{od}/")) {
            return false;
        }
    }
    true
}

/// footprint oracle for one step; returns (violating path, why).
/// A mutation violates isolation iff it touches storage owned by a *live* lineage other than the
/// one the step operates on (or the ref files, for steps that are not ref operations). Garbage
/// of branches that were deleted earlier belongs to nobody and may be removed by anyone.
pub fn footprint_violations(rec: &StepRec, events: &[vmon::store::Event], live_before: &[Loc], live_after: &[Loc]) -> Vec<(String, String)> {
    let mut out = vec![];
    let Some(loc) = &rec.loc else { return out };
    let root = uri_to_path(&loc.table);
    // the lineage this step is entitled to mutate
    let own: Loc = match &rec.extra {
        Extra::BranchCreate { new, .. } | Extra::Clone { new, .. } => new.clone(),
        Extra::BranchDelete { loc: victim, .. } => victim.clone(),
        _ => loc.clone(),
    };
    let mut live: Vec<Loc> = live_before.to_vec();
    for l in live_after {
        if !live.contains(l) {
            live.push(l.clone());
        }
    }
    let is_ref_op = matches!(
        rec.kind,
        OpKind::TagCreate | OpKind::TagUpdate | OpKind::TagDelete | OpKind::BranchCreate | OpKind::BranchDelete
    );
    for e in events {
        if !e.kind.is_mutating() || !e.applied {
            continue;
        }
        let p = e.dest().to_string();
        let verb = if e.kind == Kind::Delete { "deleted" } else { "wrote" };
        if p.starts_with(&format!("{root}/_refs/")) {
            let ok = match rec.kind {
                OpKind::TagCreate | OpKind::TagUpdate | OpKind::TagDelete => p.starts_with(&format!("{root}/_refs/tags/")),
                OpKind::BranchCreate | OpKind::BranchDelete => {
                    own.branch.as_deref().map(|b| p == branch_file(&own.table, b)).unwrap_or(true)
                }
                _ => false,
            };
            if !ok {
                out.push((p, format!("{} {verb} a ref file", e.kind.name())));
            }
            continue;
        }
        if is_ref_op && matches!(rec.kind, OpKind::TagCreate | OpKind::TagUpdate | OpKind::TagDelete) {
            out.push((p, format!("{} {verb} (tag operation outside _refs/tags)", e.kind.name())));
            continue;
        }
        for other in &live {
            if *other == own {
                continue;
            }
            // for delete_branch the victim is no longer in live_after but still "own"
            if owned_by(&p, other, &live) {
                // What readers of `other` can observe: objects disappearing, and new manifests.
                // A stray new object nobody references (e.g. the transaction file of a refused
                // commit) does not change what `other` reads: not judged.
                if e.kind == Kind::Delete || p.contains("/_versions/") {
                    out.push((p.clone(), format!("{} {verb} storage of live lineage {}", e.kind.name(), other.label())));
                }
                break;
            }
        }
    }
    out
}

async fn one_case(seed: u64, case: u64, max_ops: usize, report: &Report) {
    let mut rng = Rng::for_case(seed, case);
    let mut cfg = HistCfg::random(&mut rng);
    cfg.cleanup_isolated_only = false;
    cfg.restore_on_branches = true;
    let n_ops = rng.urange(6, max_ops);
    let w = weights();
    let mut h = Hist::mem(rng.clone(), cfg);
    h.case = case;
    h.uniform_locs = true;
    let rec = h.create_table("memory://t0").await;
    if !rec.outcome.is_ok() {
        report.harness_error(&format!("case {case}: create failed: {}", rec.outcome.text()));
        return;
    }
    // two more versions so that branches / tags have something to point at
    h.step(OpKind::Append).await;
    h.step(OpKind::DeleteIds).await;
    let world = h.env.world().unwrap().clone();
    // (lineage, version) already reported as damaged: report each damage once
    let mut broken: BTreeSet<(Loc, u64)> = BTreeSet::new();
    let mut cross_reads = 0u64;
    let mut commits_with_many_lineages = 0u64;
    for _ in 0..n_ops {
        if !report.time_left() {
            break;
        }
        let kind: OpKind = *rng.pick_weighted(&w);
        let live_before = h.live_locs();
        let rec = h.step(kind).await;
        let live_after = h.live_locs();
        let ctx = |h: &Hist| json!({"seed": seed, "case": case, "config": h.cfg.describe(), "step": rec.brief(), "ops": h.ops_json(48)});
        if live_before.len() >= 2 && rec.outcome.is_ok() && !rec.new_versions.is_empty() {
            commits_with_many_lineages += 1;
        }

        // (iii) footprint
        let events = world.events_since(rec.log_from);
        let events = &events[..(rec.log_to - rec.log_from).min(events.len())];
        report.count("store_events_inspected", events.len() as u64);
        report.count("store_mutations_inspected", events.iter().filter(|e| e.kind.is_mutating() && e.applied).count() as u64);
        let fv = footprint_violations(&rec, events, &live_before, &live_after);
        if let Some((p, why)) = fv.first() {
            let class = match rec.kind {
                OpKind::BranchDelete => "delete_branch-removes-objects-outside-the-branch-directory".to_string(),
                k => format!("{}-mutates-storage-of-another-lineage", k.name()),
            };
            report.violation(
                &class,
                &format!("step {} ({} on {:?}) {} {} ({} such objects)", rec.idx, rec.kind.name(), rec.loc.as_ref().map(|l| l.label()), why, p, fv.len()),
                json!({"ctx": ctx(&h), "paths": fv.iter().take(12).collect::<Vec<_>>(), "live_before": live_before.iter().map(|l| l.label()).collect::<Vec<_>>()}),
            );
        }
        if !fv.is_empty() {
            report.count("histories_stopped_after_escaped_mutation", 1);
            break;
        }
        if rec.kind == OpKind::BranchDelete && rec.outcome.is_ok() {
            report.count("branch_deletes_footprinted", 1);
            report.count("branch_delete_events", events.iter().filter(|e| e.kind == Kind::Delete && e.applied).count() as u64);
        }

        // (v) a new branch / clone starts as (parent, version)
        match (&rec.outcome.is_ok(), &rec.extra) {
            (true, Extra::BranchCreate { new, parent, version, .. }) | (true, Extra::Clone { new, parent, version }) => {
                let src = h.lin.get(parent).and_then(|l| l.snaps.get(version));
                let dst = h.lin.get(new).and_then(|l| l.snaps.values().next());
                if let (Some(src), Some(dst)) = (src, dst) {
                    report.count("new_refs_compared_with_parent", 1);
                    let mut d = dst.clone();
                    // index entries of a clone point at the parent's files (base id set): compare names
                    d.indices = src.indices.clone();
                    let names_equal = dst.index_names == src.index_names;
                    let through_main = matches!(rec.extra, Extra::BranchCreate { cross_handle: true, .. });
                    if through_main {
                        report.count("branches_created_from_a_branch_through_the_main_handle", 1);
                    }
                    if let Some((class, detail)) = crate::c07::content_diff(src, &d) {
                        // one signature per root cause: through another lineage's handle the diff class
                        // only depends on what that other lineage happens to hold
                        let sig = if through_main {
                            "new-branch-is-not-the-named-parent-version-when-created-through-a-handle-on-another-branch".to_string()
                        } else {
                            format!("new-{}-differs-from-parent-version-{class}", if matches!(rec.extra, Extra::Clone { .. }) { "clone" } else { "branch" })
                        };
                        report.violation(
                            &sig,
                            &format!("{} was cut from {}:v{} but differs", new.label(), parent.label(), version),
                            json!({"ctx": ctx(&h), "diff": detail}),
                        );
                    } else if !names_equal {
                        report.violation(
                            if through_main {
                                "new-branch-is-not-the-named-parent-version-when-created-through-a-handle-on-another-branch"
                            } else {
                                "new-ref-differs-from-parent-version-index-names"
                            },
                            &format!("{} index names {:?} vs parent {:?}", new.label(), dst.index_names, src.index_names),
                            json!({"ctx": ctx(&h)}),
                        );
                    }
                    if dst.version != *version && matches!(rec.extra, Extra::BranchCreate { .. }) {
                        report.count("branch_first_version_differs_from_parent_version", 1);
                    }
                }
                if let (Extra::BranchCreate { new, parent, version, .. }, Some(lin)) = (&rec.extra, h.lin.get(&Loc::main(&new.table))) {
                    match lin.head.branches().get(new.branch.as_deref().unwrap()).await {
                        Ok(bc) => {
                            if bc.parent_branch != parent.branch || bc.parent_version != *version {
                                report.violation(
                                    "branch-metadata-names-wrong-parent",
                                    &format!("{:?}:{} recorded for a branch cut from {}:v{}", bc.parent_branch, bc.parent_version, parent.label(), version),
                                    json!({"ctx": ctx(&h)}),
                                );
                            }
                        }
                        Err(e) => {
                            report.violation("branch-metadata-unreadable-after-create", &e.to_string(), json!({"ctx": ctx(&h)}));
                        }
                    }
                }
            }
            _ => {}
        }

        // (i) tags and branch listing of every table
        for table in h.tables.clone() {
            let main = Loc::main(&table);
            let Some(lin) = h.lin.get(&main) else { continue };
            let want: std::collections::BTreeMap<String, (Option<String>, u64)> = h
                .tags
                .iter()
                .filter(|((t, _), _)| *t == table)
                .map(|((_, n), v)| (n.clone(), v.clone()))
                .collect();
            match lin.head.tags().list().await {
                Ok(m) => {
                    report.count("tag_listings_compared", 1);
                    let got: std::collections::BTreeMap<String, (Option<String>, u64)> =
                        m.iter().map(|(k, v)| (k.clone(), (v.branch.clone(), v.version))).collect();
                    if got != want {
                        report.violation(
                            "tags-list-differs-from-model",
                            &format!("after step {} ({}): listed {:?}, expected {:?}", rec.idx, rec.kind.name(), got, want),
                            json!({"ctx": ctx(&h)}),
                        );
                    }
                }
                Err(e) => {
                    report.violation("tags-list-fails", &e.to_string(), json!({"ctx": ctx(&h)}));
                }
            }
            for (name, (br, v)) in &want {
                // through any live handle of the table
                let via = h.locs_of_table(&table);
                let via = &via[rng.usize_below(via.len())];
                match h.lin[via].head.tags().get(name).await {
                    Ok(t) => {
                        report.count("tag_gets_compared", 1);
                        if t.branch != *br || t.version != *v {
                            report.violation(
                                "tag-resolves-to-other-branch-or-version",
                                &format!("tag {name} = ({:?},{}) expected ({:?},{}) via {}", t.branch, t.version, br, v, via.label()),
                                json!({"ctx": ctx(&h)}),
                            );
                        }
                    }
                    Err(e) => {
                        report.violation(
                            "tag-get-fails",
                            &format!("tag {name} via {}: {e}", via.label()),
                            json!({"ctx": ctx(&h)}),
                        );
                    }
                }
                // the tagged version must read as its snapshot (if its lineage is still alive and
                // the version was not removed by a cleanup that was allowed to)
                let tl = Loc { table: table.clone(), branch: br.clone() };
                if broken.contains(&(tl.clone(), *v)) {
                    continue;
                }
                if let Some(snap) = h.lin.get(&tl).and_then(|l| l.snaps.get(v)) {
                    let r = crate::walker::guard(async {
                        let ds = h.lin[&main].head.checkout_version(name.as_str()).await.map_err(|e| e.to_string())?;
                        let s = crate::snap::take_snapshot(&ds, &h.env.raw()).await?;
                        // an object the manifest names is gone: "unreadable", with the path, so that the
                        // cause can be looked up in the store log (same rule as the lineage monitor)
                        for (sig, detail) in &s.walk_problems {
                            if sig == "deletion-file-missing" {
                                let p = detail.rsplit("file ").next().unwrap_or("");
                                return Err(format!("deletion vector unreadable: Object at location {p} not found"));
                            }
                        }
                        Ok(s)
                    })
                    .await;
                    report.count("tag_checkouts_compared", 1);
                    cross_reads += 1;
                    match r {
                        Ok(s) => {
                            if let Some((class, detail)) = crate::snap::diff(snap, &s) {
                                broken.insert((tl.clone(), *v));
                                report.violation(
                                    &format!("tagged-version-{class}"),
                                    &format!("checkout of tag {name} -> {}:v{} differs from its snapshot after step {} ({})", tl.label(), v, rec.idx, rec.kind.name()),
                                    json!({"ctx": ctx(&h), "diff": detail}),
                                );
                            }
                        }
                        Err(e) => {
                            broken.insert((tl.clone(), *v));
                            let (class, _clone_only) = classify_unreadable(&h, &world, &rec, &tl, &e);
                            // What a tag reads is protected wherever the tag lives (branch or shallow
                            // clone): one narrow class for "an ancestor lineage's cleanup deleted an
                            // object the tagged version references"; anything else keeps its own class.
                            let sig = if class == "object-deleted-by-cleanup-on-the-lineage-it-was-cut-from" {
                                "tag-on-clone-or-branch-unreadable-after-cleanup-on-the-lineage-it-was-cut-from".to_string()
                            } else {
                                format!("tagged-version-unreadable-{class}")
                            };
                            report.violation(
                                &sig,
                                &format!("tag {name} -> {}:v{} cannot be read after step {} ({}): {}", tl.label(), v, rec.idx, rec.kind.name(), e.chars().take(300).collect::<String>()),
                                json!({"ctx": ctx(&h), "error": e}),
                            );
                        }
                    }
                    // (vi) the same through the builder
                    let b = lance::dataset::builder::DatasetBuilder::from_uri(&table)
                        .with_read_params(h.env.read_params(true))
                        .with_tag(name);
                    report.count("tags_opened_through_builder", 1);
                    match b.load().await {
                        Ok(ds) => {
                            if ds.manifest().version != *v || ds.manifest().branch != *br {
                                let class = if br.is_some() && ds.manifest().branch.is_none() && ds.manifest().version == *v {
                                    // narrow class: the builder opens version N of the ROOT for a tag that
                                    // names (branch, N)
                                    "builder-with_tag-ignores-the-branch-of-the-tag"
                                } else {
                                    "builder-with_tag-opens-other-version"
                                };
                                report.violation(
                                    class,
                                    &format!("with_tag({name}) opened ({:?},{}) expected ({:?},{})", ds.manifest().branch, ds.manifest().version, br, v),
                                    json!({"ctx": ctx(&h)}),
                                );
                            }
                        }
                        Err(e) => {
                            // same narrow class when the root simply has no version with that number
                            let es = e.to_string();
                            let root_dir = format!("{}/_versions/", uri_to_path(&table));
                            let class = if br.is_some() && es.contains("was not found") && es.contains(&root_dir) {
                                "builder-with_tag-ignores-the-branch-of-the-tag"
                            } else {
                                "builder-with_tag-fails"
                            };
                            report.violation(
                                class,
                                &format!("DatasetBuilder::with_tag({name}) -> {}:v{}: {}", tl.label(), v, es.chars().take(200).collect::<String>()),
                                json!({"ctx": ctx(&h)}),
                            );
                        }
                    }
                }
            }
            // branch listing == live branches
            match lin.head.list_branches().await {
                Ok(m) => {
                    let got: BTreeSet<String> = m.keys().cloned().collect();
                    let want: BTreeSet<String> = h.locs_of_table(&table).into_iter().filter_map(|l| l.branch).collect();
                    report.count("branch_listings_compared", 1);
                    if got != want {
                        report.violation(
                            "list_branches-differs-from-model",
                            &format!("after step {} ({}): listed {:?}, expected {:?}", rec.idx, rec.kind.name(), got, want),
                            json!({"ctx": ctx(&h)}),
                        );
                    }
                }
                Err(e) => {
                    report.violation("list_branches-fails", &e.to_string(), json!({"ctx": ctx(&h)}));
                }
            }
        }

        // (ii) every *other* lineage still reads what it read
        let touched: BTreeSet<Loc> = rec
            .new_versions
            .iter()
            .map(|(l, _)| l.clone())
            .chain(rec.loc.iter().cloned())
            .collect();
        for other in h.live_locs() {
            let vs: Vec<u64> = h.lin[&other].snaps.keys().copied().collect();
            if vs.is_empty() {
                continue;
            }
            let mut chosen = vec![*vs.last().unwrap()];
            for i in rng.sample_indices(vs.len(), 2.min(vs.len())) {
                chosen.push(vs[i]);
            }
            chosen.sort();
            chosen.dedup();
            for v in chosen {
                if rec.new_versions.contains(&(other.clone(), v)) || broken.contains(&(other.clone(), v)) {
                    continue;
                }
                let fresh = rng.bool();
                let r = h.recheck_version(&other, v, fresh).await;
                report.count("cross_lineage_rereads", 1);
                if !touched.contains(&other) {
                    cross_reads += 1;
                }
                let whose = if touched.contains(&other) { "own" } else { "other" };
                match r {
                    Ok(None) => {}
                    Ok(Some((class, detail))) => {
                        broken.insert((other.clone(), v));
                        report.violation(
                            &format!("{whose}-lineage-{class}-after-{}", rec.kind.name()),
                            &format!("{}:v{} differs from its snapshot after step {} ({} on {:?})", other.label(), v, rec.idx, rec.kind.name(), rec.loc.as_ref().map(|l| l.label())),
                            json!({"ctx": ctx(&h), "diff": detail}),
                        );
                    }
                    Err(e) => {
                        broken.insert((other.clone(), v));
                        let (class, clone_only) = classify_unreadable(&h, &world, &rec, &other, &e);
                        let _ = whose;
                        if clone_only {
                            report.count("shallow_clones_broken_by_maintenance_of_their_source(not judged)", 1);
                            continue;
                        }
                        report.violation(
                            &format!("lineage-unreadable-{class}"),
                            &format!("{}:v{} cannot be read after step {} ({} on {:?}): {}", other.label(), v, rec.idx, rec.kind.name(), rec.loc.as_ref().map(|l| l.label()), e.chars().take(300).collect::<String>()),
                            json!({"ctx": ctx(&h), "error": e}),
                        );
                    }
                }
            }
        }
    }
    if std::env::var("E_HIST_VERBOSE").is_ok() {
        println!("config: {}", h.cfg.describe());
        for s in &h.steps {
            println!("{}", s.brief());
        }
        for p in &h.problems {
            println!("PROBLEM {p}");
        }
        for p in &h.model_disagreements {
            println!("MODEL {p}");
        }
    }
    h.count_ops(report);
    let nontrivial = commits_with_many_lineages >= 2 && cross_reads >= 3;
    report.case(if nontrivial { Some(h.shape_sig()) } else { None });
    if report.want_sample() && nontrivial {
        report.sample(json!({"case": case, "config": h.cfg.describe(),
                             "lineages": h.live_locs().iter().map(|l| format!("{} <- {:?}", l.label(), h.lin[l].parent.as_ref().map(|(p, v)| format!("{}:{}", p.label(), v)))).collect::<Vec<_>>(),
                             "deleted_branches": h.dead.iter().map(|l| l.label()).collect::<Vec<_>>(),
                             "tags": h.tags.iter().map(|((t, n), (b, v))| format!("{t}#{n} -> {:?}:{v}", b)).collect::<Vec<_>>(),
                             "cross_lineage_reads": cross_reads, "ops": h.ops_json(14)}));
    }
}

/// Narrow class of "lineage X can no longer be read": if the error names a missing object, find the
/// step whose store calls deleted it (store log) and describe the relation between the lineage
/// that step operated on and the damaged one.
fn classify_unreadable(h: &Hist, world: &World, rec: &StepRec, victim: &Loc, err: &str) -> (String, bool) {
    let missing = err
        .find("Object at location ")
        .map(|i| &err[i + "Object at location ".len()..])
        .and_then(|s| s.find(" not found").map(|j| s[..j].to_string()));
    let mut culprit: Option<(OpKind, Option<Loc>)> = None;
    if let Some(p) = &missing {
        let ev = world.events();
        if let Some(idx) = ev.iter().rposition(|e| e.kind == Kind::Delete && e.applied && e.path == *p) {
            for st in h.steps.iter().chain(std::iter::once(rec)) {
                if idx >= st.log_from && idx < st.log_to {
                    culprit = Some((st.kind, st.loc.clone()));
                }
            }
        }
    }
    let Some((kind, actor)) = culprit else {
        return (format!("cause-not-found-in-store-log-after-{}", rec.kind.name()), false);
    };
    let Some(actor) = actor else { return (format!("object-deleted-by-{}", kind.name()), false) };
    // does `victim` descend from `actor` (reads actor's files through base paths)?
    let mut cur = victim.clone();
    let mut descends = false;
    for _ in 0..8 {
        match h.lin.get(&cur).and_then(|l| l.parent.clone()) {
            Some((p, _)) => {
                if p == actor {
                    descends = true;
                    break;
                }
                cur = p;
            }
            None => break,
        }
    }
    let rel = if *victim == actor {
        "on-itself"
    } else if descends {
        "on-the-lineage-it-was-cut-from"
    } else {
        "on-an-unrelated-lineage"
    };
    // The property protects main / branches / tags / the clone *source*. A shallow clone (another
    // table root) that loses files because its source was cleaned is outside its wording.
    let clone_hit_by_source = descends && victim.table != actor.table;
    (format!("object-deleted-by-{}-{rel}", kind.name()), clone_hit_by_source)
}

fn selftest() -> i32 {
    let mut fails = vec![];
    // grammar model sanity
    for (s, b, t) in [("a", true, true), ("a/b", true, false), ("main", false, true), ("x.lock", false, false), ("a..b", false, false), (".a", true, false), ("", false, false)] {
        if doc_valid_branch(s) != b || doc_valid_tag(s) != t {
            fails.push(format!("grammar model wrong on {s:?}"));
        }
    }
    // footprint oracle: deleting inside a nested live branch must be flagged
    let victim = Loc { table: "memory://t0".into(), branch: Some("feature".into()) };
    let others = vec![
        Loc::main("memory://t0"),
        Loc { table: "memory://t0".into(), branch: Some("feat".into()) },
        Loc { table: "memory://t0".into(), branch: Some("feat/ure".into()) },
    ];
    if owned_by("t0/tree/feat/ure/_versions/1.manifest", &victim, &others) {
        fails.push("tree/feat/ure attributed to branch feature".into());
    }
    if !owned_by("t0/tree/feature/_versions/1.manifest", &victim, &others) {
        fails.push("own file not attributed".into());
    }
    let feat = others[1].clone();
    if owned_by("t0/tree/feat/ure/data/x.lance", &feat, &others) {
        fails.push("nested live branch dir attributed to parent dir branch".into());
    }
    if owned_by("t0/tree/a/data/x.lance", &Loc::main("memory://t0"), &others) {
        fails.push("tree/ attributed to main".into());
    }
    if fails.is_empty() {
        println!("SELFTEST C09 ok");
        0
    } else {
        for f in fails {
            println!("SELFTEST C09 FAILED: {f}");
        }
        2
    }
}
