//! C25 — file format round trip.
//!
//! Random Arrow schemas (depth <= 4; `arrgen`) and data are written with the real
//! `lance_file::writer::FileWriter` (format 2.0 / 2.1 / 2.2, random page / cache sizes, compression
//! field metadata) to an in-memory object store and read back with `lance_file::reader::FileReader`
//! through a real `ScanScheduler`: full read, sub-range, RangeTo/RangeFrom, sorted non-overlapping
//! multi-ranges, strictly increasing index lists, random projections (top-level and nested), random
//! batch sizes. Oracle: logical Arrow equality cell by cell (`vmon::table::cell_at`, which ignores
//! physical layout: offsets width, dictionary vs plain, views), `num_rows`, schema (names, types,
//! nullability). Data the writer or the schema conversion refuses is a rejected input.

use arrow_array::{Array, ArrayRef, RecordBatch, UInt32Array};
use arrow_schema::{DataType, Field, Schema as ArrowSchema};
use futures::{FutureExt, TryStreamExt};
use lance_core::cache::LanceCache;
use lance_core::datatypes::Schema as LanceSchema;
use lance_encoding::decoder::{DecoderConfig, DecoderPlugins, FilterExpression};
use lance_encoding::version::LanceFileVersion;
use lance_file::reader::{FileReader, FileReaderOptions, ReaderProjection};
use lance_file::writer::{FileWriter, FileWriterOptions};
use lance_io::object_store::ObjectStore;
use lance_io::scheduler::{ScanScheduler, SchedulerConfig};
use lance_io::utils::CachedFileSize;
use lance_io::ReadBatchParams;
use object_store::path::Path;
use serde_json::{json, Value};
use std::panic::AssertUnwindSafe;
use std::sync::{Arc, Mutex};
use std::time::Duration;
use vmon::prng::{fnv, Rng};
use vmon::report::{Args, Report};
use vmon::table::{cell_at, Cell};

use crate::arrgen::{gen_array, gen_field, type_names, GenCfg};

const RULE: &str = "Case = seeded schema (1-4 top-level columns, nesting depth <= 4 over primitive / temporal / decimal / \
string / binary / fixed-size binary / dictionary / list / large list / fixed-size list / struct / packed struct / blob, \
nulls at every level, sliced and empty batches) x writer options (format 2.0/2.1/2.2, data_cache_bytes, max_page_bytes, \
compression metadata) x 8-12 reads (full, range, range-to/from, multi-ranges, sorted indices, projections, batch sizes). \
Non-trivial iff the writer accepted the data, the file has >= 2 rows and a nested / variable-width / dictionary column; \
distinct by (version, type tree, row-count class, options class).";

static LAST_PANIC: Mutex<Option<String>> = Mutex::new(None);

fn version_name(v: LanceFileVersion) -> &'static str {
    match v {
        LanceFileVersion::V2_0 => "2.0",
        LanceFileVersion::V2_1 => "2.1",
        LanceFileVersion::V2_2 => "2.2",
        LanceFileVersion::Legacy => "0.1",
        _ => "other",
    }
}

struct FileCase {
    version: LanceFileVersion,
    schema: Arc<ArrowSchema>,
    batches: Vec<RecordBatch>,
    options_desc: Value,
    data_cache_bytes: Option<u64>,
    max_page_bytes: Option<u64>,
    keep_original_array: Option<bool>,
}

fn gen_case(rng: &mut Rng) -> FileCase {
    let version = *rng.pick(&[
        LanceFileVersion::V2_0,
        LanceFileVersion::V2_1,
        LanceFileVersion::V2_1,
        LanceFileVersion::V2_2,
    ]);
    let v21 = version >= LanceFileVersion::V2_1;
    let cfg = GenCfg {
        max_depth: 3,
        struct_nulls: v21,
        nested_fsl: v21 && rng.chance(1, 2),
        packed_struct: rng.chance(1, 2),
        blob: rng.chance(1, 3),
        views: rng.chance(1, 10),
        compression_meta: rng.chance(1, 2),
        large_values: rng.chance(1, 4),
    };
    let ncols = rng.urange(1, 4);
    let depth = *rng.pick(&[0usize, 1, 1, 2, 2, 3]);
    let fields: Vec<Field> = (0..ncols)
        .map(|i| gen_field(rng, &format!("c{i}"), depth, &cfg, true))
        .collect();
    let schema = Arc::new(ArrowSchema::new(fields));
    let total = match rng.below(12) {
        0 => 0,
        1 => 1,
        2..=6 => rng.urange(2, 60),
        7..=10 => rng.urange(60, 500),
        _ => rng.urange(500, 3000),
    };
    // batch boundaries
    let mut batches = vec![];
    let mut left = total;
    let mut guard = 0;
    while (left > 0 || (batches.is_empty() && rng.chance(1, 2))) && guard < 64 {
        guard += 1;
        let n = if rng.chance(1, 10) { 0 } else { rng.urange(1, left.max(1)).min(left) };
        let n = if guard == 63 { left } else { n };
        let sliced = rng.chance(1, 4);
        let (pre, post) = if sliced { (rng.urange(1, 4), rng.urange(0, 3)) } else { (0, 0) };
        let cols: Vec<ArrayRef> = schema
            .fields()
            .iter()
            .map(|f| gen_array(rng, f, pre + n + post, &cfg))
            .collect();
        let b = RecordBatch::try_new(schema.clone(), cols).expect("generated batch");
        batches.push(if sliced { b.slice(pre, n) } else { b });
        left -= n;
    }
    let data_cache_bytes = *rng.pick(&[None, None, Some(1u64), Some(1000), Some(64 * 1024)]);
    let max_page_bytes = *rng.pick(&[None, None, Some(64u64), Some(1024), Some(64 * 1024)]);
    let keep_original_array = *rng.pick(&[None, Some(true), Some(false)]);
    FileCase {
        version,
        options_desc: json!({"format_version": version_name(version), "data_cache_bytes": data_cache_bytes,
            "max_page_bytes": max_page_bytes, "keep_original_array": keep_original_array}),
        schema,
        batches,
        data_cache_bytes,
        max_page_bytes,
        keep_original_array,
    }
}

fn schema_desc(s: &ArrowSchema) -> Vec<String> {
    s.fields()
        .iter()
        .map(|f| {
            let meta: Vec<String> = f.metadata().iter().map(|(k, v)| format!("{k}={v}")).collect();
            format!(
                "{}: {}{}{}",
                f.name(),
                f.data_type(),
                if f.is_nullable() { "?" } else { "" },
                if meta.is_empty() { String::new() } else { format!(" [{}]", meta.join(",")) }
            )
        })
        .collect()
}

fn expected_columns(batches: &[RecordBatch], ncols: usize) -> Vec<Vec<Cell>> {
    let mut cols: Vec<Vec<Cell>> = vec![vec![]; ncols];
    for b in batches {
        for (c, col) in cols.iter_mut().enumerate() {
            let a = b.column(c);
            for i in 0..b.num_rows() {
                col.push(cell_at(a.as_ref(), i));
            }
        }
    }
    cols
}

/// names / types / nullability, recursively; metadata and dictionary-ness of the physical type ignored
fn same_type(a: &DataType, b: &DataType) -> bool {
    use DataType::*;
    match (a, b) {
        (List(x), List(y)) | (LargeList(x), LargeList(y)) => same_field(x, y),
        (FixedSizeList(x, n), FixedSizeList(y, m)) => n == m && same_field(x, y),
        (Struct(x), Struct(y)) => x.len() == y.len() && x.iter().zip(y.iter()).all(|(p, q)| same_field(p, q)),
        _ => a == b,
    }
}
fn same_field(a: &Field, b: &Field) -> bool {
    a.name() == b.name() && a.is_nullable() == b.is_nullable() && same_type(a.data_type(), b.data_type())
}

/// path to the first differing sub-cell, e.g. "list/struct.f1/validity"
fn diff_path(e: &Cell, g: &Cell) -> String {
    match (e, g) {
        (Cell::Null, Cell::Null) => "same".into(),
        (Cell::Null, _) => "expected-null-got-value".into(),
        (_, Cell::Null) => "expected-value-got-null".into(),
        (Cell::List(a), Cell::List(b)) => {
            if a.len() != b.len() {
                return "list-length".into();
            }
            for (x, y) in a.iter().zip(b.iter()) {
                if x != y {
                    return format!("list/{}", diff_path(x, y));
                }
            }
            "same".into()
        }
        (Cell::Struct(a), Cell::Struct(b)) => {
            if a.len() != b.len() {
                return "struct-arity".into();
            }
            for ((ka, x), (_, y)) in a.iter().zip(b.iter()) {
                if x != y {
                    let _ = ka;
                    return format!("struct/{}", diff_path(x, y));
                }
            }
            "same".into()
        }
        (a, b) if std::mem::discriminant(a) != std::mem::discriminant(b) => "cell-kind".into(),
        _ => "value".into(),
    }
}

fn type_class(dt: &DataType, f: &Field) -> String {
    let mut v = vec![];
    let ff = Field::new("x", dt.clone(), true).with_metadata(f.metadata().clone());
    type_names(&ff, &mut v);
    v.join("/")
}

#[derive(Clone, Debug)]
enum ReadKind {
    Full,
    Range(usize, usize),
    RangeTo(usize),
    RangeFrom(usize),
    Ranges(Vec<(u64, u64)>),
    Indices(Vec<u32>),
}

impl ReadKind {
    fn name(&self) -> &'static str {
        match self {
            ReadKind::Full => "full",
            ReadKind::Range(..) => "range",
            ReadKind::RangeTo(_) => "range_to",
            ReadKind::RangeFrom(_) => "range_from",
            ReadKind::Ranges(_) => "ranges",
            ReadKind::Indices(_) => "indices",
        }
    }
    fn rows(&self, n: usize) -> Vec<usize> {
        match self {
            ReadKind::Full => (0..n).collect(),
            ReadKind::Range(a, b) => (*a..*b).collect(),
            ReadKind::RangeTo(b) => (0..*b).collect(),
            ReadKind::RangeFrom(a) => (*a..n).collect(),
            ReadKind::Ranges(rs) => rs.iter().flat_map(|(a, b)| (*a as usize)..(*b as usize)).collect(),
            ReadKind::Indices(ix) => ix.iter().map(|i| *i as usize).collect(),
        }
    }
    fn params(&self) -> ReadBatchParams {
        match self {
            ReadKind::Full => ReadBatchParams::RangeFull,
            ReadKind::Range(a, b) => ReadBatchParams::Range(*a..*b),
            ReadKind::RangeTo(b) => ReadBatchParams::RangeTo(..*b),
            ReadKind::RangeFrom(a) => ReadBatchParams::RangeFrom(*a..),
            ReadKind::Ranges(rs) => ReadBatchParams::Ranges(rs.iter().map(|(a, b)| *a..*b).collect::<Vec<_>>().into()),
            ReadKind::Indices(ix) => ReadBatchParams::Indices(UInt32Array::from(ix.clone())),
        }
    }
}

fn gen_read(rng: &mut Rng, n: usize, k: usize) -> ReadKind {
    if n == 0 {
        return ReadKind::Full;
    }
    match if k == 0 { 0 } else { rng.below(9) } {
        0 => ReadKind::Full,
        1 | 2 => {
            let a = rng.usize_below(n);
            let b = rng.urange(a + 1, n);
            ReadKind::Range(a, b)
        }
        3 => ReadKind::RangeTo(rng.urange(1, n)),
        4 => ReadKind::RangeFrom(rng.usize_below(n)),
        5 | 6 => {
            let mut v = vec![];
            let mut pos = 0usize;
            let m = rng.urange(1, 6);
            for _ in 0..m {
                if pos >= n {
                    break;
                }
                let a = pos + if rng.chance(1, 3) { 0 } else { rng.usize_below((n - pos).min(40).max(1)) };
                if a >= n {
                    break;
                }
                let span = rng.usize_below(50);
                let b = rng.urange(a + 1, (a + 1 + span).min(n));
                v.push((a as u64, b as u64));
                pos = b;
            }
            if v.is_empty() {
                v.push((0, 1));
            }
            ReadKind::Ranges(v)
        }
        _ => {
            let want = rng.urange(1, n.min(40));
            let mut ix: Vec<u32> = rng.sample_indices(n, want).into_iter().map(|i| i as u32).collect();
            ix.sort();
            if rng.chance(1, 4) {
                // a dense run inside
                let s = rng.usize_below(n) as u32;
                for d in 0..5u32 {
                    if ((s + d) as usize) < n {
                        ix.push(s + d);
                    }
                }
                ix.sort();
                ix.dedup();
            }
            ReadKind::Indices(ix)
        }
    }
}

/// nested projections: a path is a list of child indices starting at a top-level column
fn leaf_paths(f: &Field, prefix: &str, out: &mut Vec<String>) {
    let packed = f.metadata().get("packed").is_some() || f.metadata().get("lance-encoding:packed").is_some();
    if let DataType::Struct(fs) = f.data_type() {
        if !packed && !fs.is_empty() {
            for c in fs {
                leaf_paths(c, &format!("{prefix}.{}", c.name()), out);
            }
            return;
        }
    }
    out.push(prefix.to_string());
}

fn project_cell(cell: &Cell, path: &[&str]) -> Cell {
    // keep only the struct child named path[0] (recursively); struct nulls stay nulls
    if path.is_empty() {
        return cell.clone();
    }
    match cell {
        Cell::Null => Cell::Null,
        Cell::Struct(kids) => {
            let (k, v) = kids.iter().find(|(k, _)| k == path[0]).expect("projected child");
            Cell::Struct(vec![(k.clone(), project_cell(v, &path[1..]))])
        }
        other => other.clone(),
    }
}

struct Ctx<'a> {
    report: &'a Report,
    seed: u64,
    idx: u64,
}

async fn run_case(ctx: &Ctx<'_>, rng: &mut Rng, selftest: bool) {
    let report = ctx.report;
    let c = gen_case(rng);
    let n_total: usize = c.batches.iter().map(|b| b.num_rows()).sum();
    let base_witness = json!({"seed": ctx.seed as i64, "case": ctx.idx, "schema": schema_desc(&c.schema),
        "batch_rows": c.batches.iter().map(|b| b.num_rows()).collect::<Vec<_>>(), "options": c.options_desc});
    let lance_schema = match LanceSchema::try_from(c.schema.as_ref()) {
        Ok(s) => s,
        Err(e) => {
            report.rejected();
            report.count("rejected.schema_conversion", 1);
            note_reject(report, "schema", &e.to_string());
            report.case(None);
            return;
        }
    };
    let store = Arc::new(ObjectStore::memory());
    let path = Path::from("f.lance");
    // ---- write
    let write = async {
        let ow = store.create(&path).await?;
        let mut w = FileWriter::try_new(
            ow,
            lance_schema.clone(),
            FileWriterOptions {
                data_cache_bytes: c.data_cache_bytes,
                max_page_bytes: c.max_page_bytes,
                keep_original_array: c.keep_original_array,
                encoding_strategy: None,
                format_version: Some(c.version),
            },
        )?;
        for b in &c.batches {
            w.write_batch(b).await?;
        }
        let mapping: std::collections::BTreeMap<u32, u32> = w.field_id_to_column_indices().iter().copied().collect();
        let rows = w.finish().await?;
        lance_core::Result::Ok((rows, mapping))
    };
    let wres = tokio::time::timeout(Duration::from_secs(180), AssertUnwindSafe(write).catch_unwind()).await;
    let written = match wres {
        Err(_) => {
            report.inconclusive(&format!("C25 case {}: writer did not finish in 180 s", ctx.idx));
            report.case(None);
            return;
        }
        Ok(Err(_p)) => {
            let loc = LAST_PANIC.lock().unwrap().clone().unwrap_or_default();
            let mut w = base_witness.clone();
            w["panic"] = json!(loc);
            report.violation(
                &format!("panic-in-writer-{}-at-{}", version_name(c.version), short_loc(&loc)),
                &format!("file writer panicked: {loc}"),
                w,
            );
            report.case(None);
            return;
        }
        Ok(Ok(Err(e))) => {
            report.rejected();
            report.count(&format!("rejected.writer.{}", version_name(c.version)), 1);
            note_reject(report, version_name(c.version), &e.to_string());
            report.case(None);
            return;
        }
        Ok(Ok(Ok(x))) => x,
    };
    let (written, mapping) = written;
    // accepted
    let mut tn = vec![];
    for f in c.schema.fields() {
        type_names(f, &mut tn);
    }
    for t in &tn {
        report.count(&format!("type.{t}"), 1);
    }
    report.count(&format!("files.{}", version_name(c.version)), 1);
    report.count("rows_written", n_total as u64);
    if written as usize != n_total {
        let mut w = base_witness.clone();
        w["finish_returned"] = json!(written);
        report.violation(
            &format!("finish-row-count-{}", version_name(c.version)),
            &format!("finish() returned {written}, {n_total} rows were written"),
            w,
        );
    }
    let expected = expected_columns(&c.batches, c.schema.fields().len());
    // ---- open
    let sched = ScanScheduler::new(store.clone(), SchedulerConfig::default_for_testing());
    let cache = LanceCache::with_capacity(8 * 1024 * 1024);
    let ropts = FileReaderOptions {
        decoder_config: DecoderConfig {
            cache_repetition_index: rng.bool(),
            validate_on_decode: rng.bool(),
        },
        read_chunk_size: *rng.pick(&[64u64, 4096, 8 * 1024 * 1024]),
    };
    let open = async {
        let fs = sched.open_file(&path, &CachedFileSize::unknown()).await?;
        FileReader::try_open(fs, None, Arc::<DecoderPlugins>::default(), &cache, ropts.clone()).await
    };
    let reader = match tokio::time::timeout(Duration::from_secs(180), AssertUnwindSafe(open).catch_unwind()).await {
        Err(_) => {
            report.inconclusive(&format!("C25 case {}: open did not finish in 180 s", ctx.idx));
            report.case(None);
            return;
        }
        Ok(Err(_)) => {
            let loc = LAST_PANIC.lock().unwrap().clone().unwrap_or_default();
            let mut w = base_witness.clone();
            w["panic"] = json!(loc);
            report.violation(
                &format!("panic-opening-written-file-{}-at-{}", version_name(c.version), short_loc(&loc)),
                &format!("FileReader::try_open panicked on a file the writer produced: {loc}"),
                w,
            );
            report.case(None);
            return;
        }
        Ok(Ok(Err(e))) => {
            let mut w = base_witness.clone();
            w["error"] = json!(e.to_string());
            report.violation(
                &format!("cannot-open-written-file-{}", version_name(c.version)),
                &format!("FileReader::try_open failed on a file the writer produced: {e}"),
                w,
            );
            report.case(None);
            return;
        }
        Ok(Ok(Ok(r))) => r,
    };
    if reader.num_rows() as usize != n_total {
        let mut w = base_witness.clone();
        w["num_rows"] = json!(reader.num_rows());
        report.violation(
            &format!("num-rows-{}", version_name(c.version)),
            &format!("reader.num_rows() = {}, written {n_total}", reader.num_rows()),
            w,
        );
    }
    let file_arrow = ArrowSchema::from(reader.schema().as_ref());
    let schema_ok = file_arrow.fields().len() == c.schema.fields().len()
        && file_arrow.fields().iter().zip(c.schema.fields().iter()).all(|(a, b)| same_field(a, b));
    if !schema_ok {
        let mut w = base_witness.clone();
        w["file_schema"] = json!(schema_desc(&file_arrow));
        report.violation(
            &format!("schema-differs-{}", version_name(c.version)),
            "schema stored in the file differs from the written schema (names / types / nullability)",
            w,
        );
    }
    // ---- reads
    let n_reads = if n_total == 0 { 2 } else { rng.urange(8, 12) };
    let mut paths = vec![];
    for f in c.schema.fields() {
        leaf_paths(f, f.name(), &mut paths);
    }
    let mut cells_compared = 0u64;
    for k in 0..n_reads {
        let kind = gen_read(rng, n_total, k);
        let batch_size = *rng.pick(&[1u32, 2, 7, 32, 100, 1024, 8192]);
        let readahead = *rng.pick(&[1u32, 2, 16]);
        // projection: all columns, or a random subset of top-level columns / nested leaves
        let proj_names: Option<Vec<String>> = if k < 2 || rng.chance(1, 2) {
            None
        } else {
            let mut sel: Vec<String> = vec![];
            if rng.bool() {
                for f in c.schema.fields() {
                    if rng.bool() {
                        sel.push(f.name().clone());
                    }
                }
            } else {
                // nested leaves, at most one per top-level column, in schema order
                let mut seen_top = std::collections::BTreeSet::new();
                for p in &paths {
                    let top = p.split('.').next().unwrap().to_string();
                    if !seen_top.contains(&top) && rng.chance(1, 2) {
                        seen_top.insert(top);
                        sel.push(p.clone());
                    }
                }
            }
            if sel.is_empty() {
                sel.push(c.schema.field(rng.usize_below(c.schema.fields().len())).name().clone());
            }
            Some(sel)
        };
        let projection = match &proj_names {
            None => ReaderProjection::from_whole_schema(reader.schema(), c.version),
            Some(names) => {
                let refs: Vec<&str> = names.iter().map(|s| s.as_str()).collect();
                // the documented way: project the file schema and map field ids to column indices with
                // the mapping the writer reported
                let projected = match reader.schema().project(&refs) {
                    Ok(p) => p,
                    Err(e) => {
                        report.count("projection_rejected", 1);
                        note_reject(report, "projection", &e.to_string());
                        continue;
                    }
                };
                let by_ids = match ReaderProjection::from_field_ids(c.version, &projected, &mapping) {
                    Ok(p) => p,
                    Err(e) => {
                        report.count("projection_rejected", 1);
                        note_reject(report, "projection", &e.to_string());
                        continue;
                    }
                };
                // the name based helper must agree with it
                if let Ok(by_names) = ReaderProjection::from_column_names(c.version, reader.schema(), &refs) {
                    report.count("projection_helpers_compared", 1);
                    if by_names.column_indices != by_ids.column_indices && !selftest {
                        let has_packed = tn.iter().any(|t| t == "packed_struct");
                        let has_blob = tn.iter().any(|t| t.starts_with("blob"));
                        let mut w = base_witness.clone();
                        w["projection"] = json!(names);
                        w["from_column_names"] = json!(by_names.column_indices);
                        w["from_field_ids_with_writer_mapping"] = json!(by_ids.column_indices);
                        report.violation(
                            &format!(
                                "from-column-names-wrong-column-indices-{}{}",
                                if c.version >= LanceFileVersion::V2_1 { "2.1+" } else { "2.0" },
                                if has_packed { "-packed-struct" } else if has_blob { "-blob" } else { "" }
                            ),
                            "ReaderProjection::from_column_names disagrees with the writer's field-id -> column mapping",
                            w,
                        );
                    }
                }
                by_ids
            }
        };
        let read_desc = json!({"kind": kind.name(), "params": format!("{}", kind.params()), "batch_size": batch_size,
            "readahead": readahead, "projection": proj_names, "reader_options": format!("{ropts:?}")});
        let read = async {
            let s = reader.read_stream_projected(kind.params(), batch_size, readahead, projection, FilterExpression::no_filter())?;
            s.try_collect::<Vec<RecordBatch>>().await
        };
        let got = match tokio::time::timeout(Duration::from_secs(180), AssertUnwindSafe(read).catch_unwind()).await {
            Err(_) => {
                report.inconclusive(&format!("C25 case {} read {k}: no result in 180 s", ctx.idx));
                continue;
            }
            Ok(Err(_)) => {
                let loc = LAST_PANIC.lock().unwrap().clone().unwrap_or_default();
                let mut w = base_witness.clone();
                w["read"] = read_desc;
                w["panic"] = json!(loc);
                report.violation(
                    &format!("panic-in-reader-{}-{}-at-{}", version_name(c.version), kind.name(), short_loc(&loc)),
                    &format!("read panicked: {loc}"),
                    w,
                );
                continue;
            }
            Ok(Ok(Err(e))) => {
                let mut w = base_witness.clone();
                w["read"] = read_desc;
                w["error"] = json!(e.to_string());
                let msg: String = e.to_string().chars().filter(|c| !c.is_ascii_digit()).take(60).collect();
                report.violation(
                    &format!("read-error-{}-{}-{}", version_name(c.version), kind.name(), slug(&msg)),
                    &format!("reading a written file failed: {e}"),
                    w,
                );
                continue;
            }
            Ok(Ok(Ok(b))) => b,
        };
        report.count(&format!("reads.{}", kind.name()), 1);
        if proj_names.is_some() {
            report.count("reads.projected", 1);
        }
        // expected rows for this read
        let rows = kind.rows(n_total);
        let exp_cols: Vec<(String, Vec<Cell>, usize)> = match &proj_names {
            None => c
                .schema
                .fields()
                .iter()
                .enumerate()
                .map(|(ci, f)| (f.name().clone(), rows.iter().map(|r| expected[ci][*r].clone()).collect(), ci))
                .collect(),
            Some(names) => names
                .iter()
                .map(|p| {
                    let parts: Vec<&str> = p.split('.').collect();
                    let ci = c.schema.index_of(parts[0]).unwrap();
                    (
                        p.clone(),
                        rows.iter().map(|r| project_cell(&expected[ci][*r], &parts[1..])).collect(),
                        ci,
                    )
                })
                .collect(),
        };
        // observed
        let mut got_cols: Vec<Vec<Cell>> = vec![vec![]; exp_cols.len()];
        let mut bad_batch = None;
        let mut got = got;
        if selftest && !got.is_empty() && got.iter().map(|b| b.num_rows()).sum::<usize>() >= 2 {
            // damage the observation: drop the first row of the first non-empty batch
            if let Some(i) = got.iter().position(|b| b.num_rows() >= 1) {
                let b = got[i].clone();
                got[i] = b.slice(1, b.num_rows() - 1);
                report.count("selftest_corrupted", 1);
            }
        }
        for b in &got {
            if b.num_rows() > batch_size as usize {
                bad_batch = Some(b.num_rows());
            }
            if b.num_columns() != exp_cols.len() {
                bad_batch = Some(usize::MAX);
                break;
            }
            for (ci, col) in got_cols.iter_mut().enumerate() {
                let a = b.column(ci);
                for i in 0..b.num_rows() {
                    col.push(cell_at(a.as_ref(), i));
                }
            }
        }
        let mut flagged = false;
        let vname = version_name(c.version);
        if let Some(nr) = bad_batch {
            flagged = true;
            if !selftest {
                let mut w = base_witness.clone();
                w["read"] = read_desc.clone();
                report.violation(
                    &format!("batch-shape-{vname}-{}", kind.name()),
                    &format!("a batch has {nr} rows / wrong column count (batch_size {batch_size}, {} columns expected)", exp_cols.len()),
                    w,
                );
            }
        }
        for (ci, (name, exp, top)) in exp_cols.iter().enumerate() {
            let g = &got_cols[ci];
            cells_compared += g.len() as u64;
            let f = c.schema.field(*top);
            let tclass = type_class(f.data_type(), f);
            if g.len() != exp.len() {
                flagged = true;
                if !selftest {
                    let mut w = base_witness.clone();
                    w["read"] = read_desc.clone();
                    w["column"] = json!(name);
                    report.violation(
                        &format!("row-count-{vname}-{}-{}", kind.name(), tclass),
                        &format!("column {name}: read returned {} rows, expected {}", g.len(), exp.len()),
                        w,
                    );
                }
                break;
            }
            if let Some(r) = (0..exp.len()).find(|r| exp[*r] != g[*r]) {
                flagged = true;
                if !selftest {
                    let dp = diff_path(&exp[r], &g[r]);
                    let mut w = base_witness.clone();
                    w["read"] = read_desc.clone();
                    w["column"] = json!(name);
                    w["row_in_result"] = json!(r);
                    w["row_in_file"] = json!(rows[r]);
                    w["expected"] = json!(exp[r].render().chars().take(400).collect::<String>());
                    w["observed"] = json!(g[r].render().chars().take(400).collect::<String>());
                    w["mismatching_rows"] = json!((0..exp.len()).filter(|r| exp[*r] != g[*r]).count());
                    report.violation(
                        &format!("cell-differs-{vname}-{}-{}-{}", kind.name(), tclass, dp),
                        &format!(
                            "column {name} row {} (file row {}): expected {} got {}",
                            r,
                            rows[r],
                            exp[r].render().chars().take(120).collect::<String>(),
                            g[r].render().chars().take(120).collect::<String>()
                        ),
                        w,
                    );
                }
                break;
            }
        }
        if selftest && report.counter("selftest_corrupted") > report.counter("selftest_seen") {
            report.count("selftest_seen", 1);
            report.count(if flagged { "selftest_flagged" } else { "selftest_missed" }, 1);
        }
    }
    report.count("cells_compared", cells_compared);
    let interesting = tn.iter().any(|t| {
        t.contains("list") || t.contains("struct") || t.contains("utf8") || t.contains("binary") || t.contains("dictionary") || t.contains("blob")
    });
    let nontrivial = n_total >= 2 && interesting;
    let rows_class = match n_total {
        0 => 0,
        1 => 1,
        2..=59 => 2,
        60..=499 => 3,
        _ => 4,
    };
    let sig = fnv(
        format!(
            "{}|{}|{rows_class}|{:?}|{:?}",
            version_name(c.version),
            tn.join(","),
            c.data_cache_bytes,
            c.max_page_bytes
        )
        .as_bytes(),
    );
    report.case(if nontrivial { Some(sig) } else { None });
    if report.want_sample() && nontrivial && tn.len() >= 4 && ctx.idx % 13 == 0 {
        report.sample(json!({"case": ctx.idx, "schema": schema_desc(&c.schema), "rows": n_total, "batches": c.batches.len(),
            "options": c.options_desc, "reads": n_reads, "outcome": "all reads equal"}));
    }
    drop(reader);
    drop(sched);
}

fn short_loc(loc: &str) -> String {
    // "…/lance-encoding/src/foo.rs:123:9: message" -> "foo.rs:123"
    let first = loc.split(": ").next().unwrap_or(loc);
    let mut it = first.rsplit('/');
    let file_line = it.next().unwrap_or(first);
    let mut parts = file_line.split(':');
    let f = parts.next().unwrap_or("?");
    let l = parts.next().unwrap_or("?");
    slug(&format!("{f}:{l}"))
}

fn slug(s: &str) -> String {
    let mut out = String::new();
    for ch in s.chars() {
        if ch.is_ascii_alphanumeric() || ch == '.' || ch == ':' {
            out.push(ch.to_ascii_lowercase());
        } else if !out.ends_with('-') {
            out.push('-');
        }
    }
    out.trim_matches('-').to_string()
}

fn note_reject(report: &Report, stage: &str, msg: &str) {
    // histogram of rejection reasons (digits stripped)
    let key: String = msg.chars().filter(|c| !c.is_ascii_digit()).take(70).collect();
    report.count(&format!("reject_reason.{stage}.{}", slug(&key)), 1);
}

pub fn run(args: &Args) -> i32 {
    let selftest = args.extra.contains_key("selftest");
    let report = Report::new(args, "exploration", RULE, (55, 900)).with_min_nontrivial(100);
    report.assume("struct-level nulls are generated only for format >= 2.1 (2.0 documents that it cannot store them)");
    report.assume("batch_size is an upper bound for batch length (documented), not an exact size");
    std::panic::set_hook(Box::new(|info| {
        let loc = info
            .location()
            .map(|l| format!("{}:{}:{}", l.file(), l.line(), l.column()))
            .unwrap_or_default();
        let msg = info
            .payload()
            .downcast_ref::<&str>()
            .map(|s| s.to_string())
            .or_else(|| info.payload().downcast_ref::<String>().cloned())
            .unwrap_or_default();
        *LAST_PANIC.lock().unwrap() = Some(format!("{loc}: {}", msg.chars().take(200).collect::<String>()));
    }));
    let only: Option<u64> = args.extra.get("only-case").and_then(|s| s.parse().ok());
    let threads = if only.is_some() { 1 } else { crate::sink::verif_threads().min(14) };
    let max_cases: u64 = args.tier.pick(100_000, 10_000_000);
    let next = std::sync::atomic::AtomicU64::new(0);
    std::thread::scope(|s| {
        for _ in 0..threads {
            s.spawn(|| {
                let rt = tokio::runtime::Builder::new_multi_thread()
                    .worker_threads(2)
                    .enable_all()
                    .build()
                    .expect("rt");
                loop {
                    let idx = match only {
                        Some(c) => {
                            if next.fetch_add(1, std::sync::atomic::Ordering::SeqCst) > 0 {
                                break;
                            }
                            c
                        }
                        None => next.fetch_add(1, std::sync::atomic::Ordering::SeqCst),
                    };
                    if idx >= max_cases || !report.time_left() {
                        break;
                    }
                    let mut rng = Rng::for_case(args.seed, idx);
                    let ctx = Ctx {
                        report: &report,
                        seed: args.seed,
                        idx,
                    };
                    let r = std::panic::catch_unwind(AssertUnwindSafe(|| rt.block_on(run_case(&ctx, &mut rng, selftest))));
                    if r.is_err() {
                        let loc = LAST_PANIC.lock().unwrap().clone().unwrap_or_default();
                        // write / open / read are guarded separately; a panic that reaches this point
                        // comes from the generator or the oracle
                        report.harness_error(&format!("case {idx}: panic outside the guarded Lance calls: {loc}"));
                    }
                }
            });
        }
    });
    if selftest {
        let missed = report.counter("selftest_missed");
        let flagged = report.counter("selftest_flagged");
        println!("SELFTEST C25 flagged={flagged} missed={missed}");
        return if missed == 0 && flagged > 0 { 0 } else { 2 };
    }
    report.finish()
}
