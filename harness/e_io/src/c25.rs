//! C25 — file format round trip.
//!
//! Random Arrow schemas (depth <= 4; `arrgen`) and data are written with the real
//! `lance_file::writer::FileWriter` (format 2.0 / 2.1 / 2.2, random page / cache sizes, compression
//! field metadata) to an in-memory object store and read back with `lance_file::reader::FileReader`
//! through a real `ScanScheduler`: full read, sub-range, RangeTo/RangeFrom, sorted non-overlapping
//! multi-ranges, strictly increasing index lists, random projections (top-level and nested), random
//! batch sizes. Oracle: logical Arrow equality cell by cell (`vmon::table::cell_at`, which ignores
//! physical layout: offsets width, dictionary vs plain, views), `num_rows`, schema (names, types,
//! nullability). Data the writer or the schema conversion refuses is a rejected input.

use arrow_array::{Array, ArrayRef, RecordBatch, UInt32Array};
#[allow(unused_imports)]
use arrow_array::Array as _;
use arrow_schema::{DataType, Field, Schema as ArrowSchema};
use futures::{FutureExt, TryStreamExt};
use lance_core::cache::LanceCache;
use lance_core::datatypes::Schema as LanceSchema;
use lance_encoding::decoder::{DecoderConfig, DecoderPlugins, FilterExpression};
use lance_encoding::version::LanceFileVersion;
use lance_file::reader::{FileReader, FileReaderOptions, ReaderProjection};
use lance_file::writer::{FileWriter, FileWriterOptions};
use lance_io::object_store::ObjectStore;
use lance_io::scheduler::{ScanScheduler, SchedulerConfig};
use lance_io::utils::CachedFileSize;
use lance_io::ReadBatchParams;
use object_store::path::Path;
use serde_json::{json, Value};
use std::panic::AssertUnwindSafe;
use std::sync::{Arc, Mutex};
use std::time::Duration;
use vmon::prng::{fnv, Rng};
use vmon::report::{Args, Report};
use vmon::table::{cell_at, Cell};

use crate::arrgen::{gen_array, gen_field, type_names, GenCfg};

const RULE: &str = "Case = seeded schema (1-4 top-level columns, nesting depth <= 4 over primitive / temporal / decimal / \
string / binary / fixed-size binary / dictionary / list / large list / fixed-size list / struct / packed struct / blob, \
nulls at every level, sliced and empty batches) x writer options (format 2.0/2.1/2.2, data_cache_bytes, max_page_bytes, \
compression metadata) x 8-12 reads (full, range, range-to/from, multi-ranges, sorted indices, projections, batch sizes). \
Non-trivial iff the writer accepted the data, the file has >= 2 rows and a nested / variable-width / dictionary column; \
distinct by (version, type tree, row-count class, options class).";

static LAST_PANIC: Mutex<Option<String>> = Mutex::new(None);

fn version_name(v: LanceFileVersion) -> &'static str {
    match v {
        LanceFileVersion::V2_0 => "2.0",
        LanceFileVersion::V2_1 => "2.1",
        LanceFileVersion::V2_2 => "2.2",
        LanceFileVersion::Legacy => "0.1",
        _ => "other",
    }
}

struct FileCase {
    version: LanceFileVersion,
    schema: Arc<ArrowSchema>,
    batches: Vec<RecordBatch>,
    options_desc: Value,
    data_cache_bytes: Option<u64>,
    max_page_bytes: Option<u64>,
    keep_original_array: Option<bool>,
}

fn gen_case(rng: &mut Rng) -> FileCase {
    // a fixed share (1/6) of the cases goes through the legacy 0.1 writer / reader
    let version = *rng.pick(&[
        LanceFileVersion::Legacy,
        LanceFileVersion::V2_0,
        LanceFileVersion::V2_1,
        LanceFileVersion::V2_1,
        LanceFileVersion::V2_2,
        LanceFileVersion::V2_2,
    ]);
    let v21 = version >= LanceFileVersion::V2_1;
    let legacy = version == LanceFileVersion::Legacy;
    let cfg = GenCfg {
        max_depth: 3,
        struct_nulls: v21,
        nested_fsl: v21 && rng.chance(1, 2),
        packed_struct: !legacy && rng.chance(1, 2),
        blob: !legacy && rng.chance(1, 3),
        views: rng.chance(1, 10),
        compression_meta: !legacy && rng.chance(1, 2),
        large_values: rng.chance(1, 4),
        dictionary: !legacy,
        nulls: !legacy,
    };
    let ncols = rng.urange(1, 4);
    let depth = *rng.pick(&[0usize, 1, 1, 2, 2, 3]);
    let fields: Vec<Field> = (0..ncols)
        .map(|i| gen_field(rng, &format!("c{i}"), depth, &cfg, true))
        .collect();
    let schema = Arc::new(ArrowSchema::new(fields));
    let total = match rng.below(12) {
        0 => 0,
        1 => 1,
        2..=6 => rng.urange(2, 60),
        7..=10 => rng.urange(60, 500),
        _ => rng.urange(500, 3000),
    };
    // batch boundaries
    let mut batches = vec![];
    let mut left = total;
    let mut guard = 0;
    while (left > 0 || (batches.is_empty() && rng.chance(1, 2))) && guard < 64 {
        guard += 1;
        let n = if rng.chance(1, 10) { 0 } else { rng.urange(1, left.max(1)).min(left) };
        let n = if guard == 63 { left } else { n };
        let sliced = rng.chance(1, 4);
        let (pre, post) = if sliced { (rng.urange(1, 4), rng.urange(0, 3)) } else { (0, 0) };
        let cols: Vec<ArrayRef> = schema
            .fields()
            .iter()
            .map(|f| gen_array(rng, f, pre + n + post, &cfg))
            .collect();
        let b = RecordBatch::try_new(schema.clone(), cols).expect("generated batch");
        batches.push(if sliced { b.slice(pre, n) } else { b });
        left -= n;
    }
    let data_cache_bytes = *rng.pick(&[None, None, Some(1u64), Some(1000), Some(64 * 1024)]);
    let max_page_bytes = *rng.pick(&[None, None, Some(64u64), Some(1024), Some(64 * 1024)]);
    let keep_original_array = *rng.pick(&[None, Some(true), Some(false)]);
    FileCase {
        version,
        options_desc: json!({"format_version": version_name(version), "data_cache_bytes": data_cache_bytes,
            "max_page_bytes": max_page_bytes, "keep_original_array": keep_original_array}),
        schema,
        batches,
        data_cache_bytes,
        max_page_bytes,
        keep_original_array,
    }
}

fn schema_desc(s: &ArrowSchema) -> Vec<String> {
    s.fields()
        .iter()
        .map(|f| {
            let meta: Vec<String> = f.metadata().iter().map(|(k, v)| format!("{k}={v}")).collect();
            format!(
                "{}: {}{}{}",
                f.name(),
                f.data_type(),
                if f.is_nullable() { "?" } else { "" },
                if meta.is_empty() { String::new() } else { format!(" [{}]", meta.join(",")) }
            )
        })
        .collect()
}

fn expected_columns(batches: &[RecordBatch], ncols: usize) -> Vec<Vec<Cell>> {
    let mut cols: Vec<Vec<Cell>> = vec![vec![]; ncols];
    for b in batches {
        for (c, col) in cols.iter_mut().enumerate() {
            let a = b.column(c);
            for i in 0..b.num_rows() {
                col.push(cell_at(a.as_ref(), i));
            }
        }
    }
    cols
}

/// names / types / nullability, recursively; metadata and dictionary-ness of the physical type ignored
fn same_type(a: &DataType, b: &DataType) -> bool {
    use DataType::*;
    match (a, b) {
        (List(x), List(y)) | (LargeList(x), LargeList(y)) => same_field(x, y),
        (FixedSizeList(x, n), FixedSizeList(y, m)) => n == m && same_field(x, y),
        (Struct(x), Struct(y)) => x.len() == y.len() && x.iter().zip(y.iter()).all(|(p, q)| same_field(p, q)),
        _ => a == b,
    }
}
fn same_field(a: &Field, b: &Field) -> bool {
    a.name() == b.name() && a.is_nullable() == b.is_nullable() && same_type(a.data_type(), b.data_type())
}

/// path to the first differing sub-cell, e.g. "list/struct.f1/validity"
fn diff_path(e: &Cell, g: &Cell) -> String {
    match (e, g) {
        (Cell::Null, Cell::Null) => "same".into(),
        (Cell::Null, _) => "expected-null-got-value".into(),
        (_, Cell::Null) => "expected-value-got-null".into(),
        (Cell::List(a), Cell::List(b)) => {
            if a.len() != b.len() {
                return "list-length".into();
            }
            for (x, y) in a.iter().zip(b.iter()) {
                if x != y {
                    return format!("list/{}", diff_path(x, y));
                }
            }
            "same".into()
        }
        (Cell::Struct(a), Cell::Struct(b)) => {
            if a.len() != b.len() {
                return "struct-arity".into();
            }
            for ((ka, x), (_, y)) in a.iter().zip(b.iter()) {
                if x != y {
                    let _ = ka;
                    return format!("struct/{}", diff_path(x, y));
                }
            }
            "same".into()
        }
        (a, b) if std::mem::discriminant(a) != std::mem::discriminant(b) => "cell-kind".into(),
        _ => "value".into(),
    }
}

fn type_class(dt: &DataType, f: &Field) -> String {
    let mut v = vec![];
    let ff = Field::new("x", dt.clone(), true).with_metadata(f.metadata().clone());
    type_names(&ff, &mut v);
    v.join("/")
}

#[derive(Clone, Debug)]
enum ReadKind {
    Full,
    Range(usize, usize),
    RangeTo(usize),
    RangeFrom(usize),
    Ranges(Vec<(u64, u64)>),
    Indices(Vec<u32>),
}

impl ReadKind {
    fn name(&self) -> &'static str {
        match self {
            ReadKind::Full => "full",
            ReadKind::Range(..) => "range",
            ReadKind::RangeTo(_) => "range_to",
            ReadKind::RangeFrom(_) => "range_from",
            ReadKind::Ranges(_) => "ranges",
            ReadKind::Indices(_) => "indices",
        }
    }
    fn rows(&self, n: usize) -> Vec<usize> {
        match self {
            ReadKind::Full => (0..n).collect(),
            ReadKind::Range(a, b) => (*a..*b).collect(),
            ReadKind::RangeTo(b) => (0..*b).collect(),
            ReadKind::RangeFrom(a) => (*a..n).collect(),
            ReadKind::Ranges(rs) => rs.iter().flat_map(|(a, b)| (*a as usize)..(*b as usize)).collect(),
            ReadKind::Indices(ix) => ix.iter().map(|i| *i as usize).collect(),
        }
    }
    fn params(&self) -> ReadBatchParams {
        match self {
            ReadKind::Full => ReadBatchParams::RangeFull,
            ReadKind::Range(a, b) => ReadBatchParams::Range(*a..*b),
            ReadKind::RangeTo(b) => ReadBatchParams::RangeTo(..*b),
            ReadKind::RangeFrom(a) => ReadBatchParams::RangeFrom(*a..),
            ReadKind::Ranges(rs) => ReadBatchParams::Ranges(rs.iter().map(|(a, b)| *a..*b).collect::<Vec<_>>().into()),
            ReadKind::Indices(ix) => ReadBatchParams::Indices(UInt32Array::from(ix.clone())),
        }
    }
}

fn gen_read(rng: &mut Rng, n: usize, k: usize) -> ReadKind {
    if n == 0 {
        return ReadKind::Full;
    }
    match if k == 0 { 0 } else { rng.below(9) } {
        0 => ReadKind::Full,
        1 | 2 => {
            let a = rng.usize_below(n);
            let b = rng.urange(a + 1, n);
            ReadKind::Range(a, b)
        }
        3 => ReadKind::RangeTo(rng.urange(1, n)),
        4 => ReadKind::RangeFrom(rng.usize_below(n)),
        5 | 6 => {
            let mut v = vec![];
            let mut pos = 0usize;
            let m = rng.urange(1, 6);
            for _ in 0..m {
                if pos >= n {
                    break;
                }
                let a = pos + if rng.chance(1, 3) { 0 } else { rng.usize_below((n - pos).min(40).max(1)) };
                if a >= n {
                    break;
                }
                let span = rng.usize_below(50);
                let b = rng.urange(a + 1, (a + 1 + span).min(n));
                v.push((a as u64, b as u64));
                pos = b;
            }
            if v.is_empty() {
                v.push((0, 1));
            }
            ReadKind::Ranges(v)
        }
        _ => {
            let want = rng.urange(1, n.min(40));
            let mut ix: Vec<u32> = rng.sample_indices(n, want).into_iter().map(|i| i as u32).collect();
            ix.sort();
            if rng.chance(1, 4) {
                // a dense run inside
                let s = rng.usize_below(n) as u32;
                for d in 0..5u32 {
                    if ((s + d) as usize) < n {
                        ix.push(s + d);
                    }
                }
                ix.sort();
                ix.dedup();
            }
            ReadKind::Indices(ix)
        }
    }
}

/// nested projections: a path is a list of child indices starting at a top-level column
fn leaf_paths(f: &Field, prefix: &str, out: &mut Vec<String>) {
    let packed = f.metadata().get("packed").is_some() || f.metadata().get("lance-encoding:packed").is_some();
    if let DataType::Struct(fs) = f.data_type() {
        if !packed && !fs.is_empty() {
            for c in fs {
                leaf_paths(c, &format!("{prefix}.{}", c.name()), out);
            }
            return;
        }
    }
    out.push(prefix.to_string());
}

fn project_cell(cell: &Cell, path: &[&str]) -> Cell {
    // keep only the struct child named path[0] (recursively); struct nulls stay nulls
    if path.is_empty() {
        return cell.clone();
    }
    match cell {
        Cell::Null => Cell::Null,
        Cell::Struct(kids) => {
            let (k, v) = kids.iter().find(|(k, _)| k == path[0]).expect("projected child");
            Cell::Struct(vec![(k.clone(), project_cell(v, &path[1..]))])
        }
        other => other.clone(),
    }
}

struct Ctx<'a> {
    report: &'a Report,
    seed: u64,
    idx: u64,
}

/// one refuting observation on one file
#[derive(Clone, Debug)]
struct Viol {
    /// symptom class, e.g. "panic-at-primitive.rs:2351", "cell-differs-list-length", "row-count"
    kind: String,
    what: String,
    detail: Value,
    /// top-level column the observation is about (if known)
    column: Option<usize>,
}

#[derive(Default)]
struct Stats {
    reads: Vec<(&'static str, bool)>,
    cells_compared: u64,
    helpers_compared: u64,
    selftest_corrupted: u64,
    selftest_flagged: u64,
    inconclusive: Vec<String>,
    projection_rejected: Vec<String>,
}

enum FileOutcome {
    SchemaRejected(String),
    WriterRejected(String),
    WriterPanicked(String),
    Inconclusive(String),
    Checked(Vec<Viol>, Stats),
}

thread_local! {
    static PANICS: std::cell::RefCell<Vec<String>> = const { std::cell::RefCell::new(Vec::new()) };
}

fn clear_panics() {
    let _ = PANICS.try_with(|p| p.borrow_mut().clear());
}
/// first panic seen on this thread since `clear_panics` (the inner one when a task panic is re-raised)
fn first_panic() -> String {
    PANICS
        .try_with(|p| p.borrow().first().cloned())
        .ok()
        .flatten()
        .or_else(|| LAST_PANIC.lock().unwrap().clone())
        .unwrap_or_default()
}

/// Write `c`, read it back in `n` ways derived from `read_seed`, compare. Reports nothing.
async fn check_file(c: &FileCase, read_seed: u64, selftest: bool) -> FileOutcome {
    if c.version == LanceFileVersion::Legacy {
        return check_file_legacy(c, read_seed, selftest).await;
    }
    let mut rng = Rng::new(read_seed);
    let rng = &mut rng;
    let n_total: usize = c.batches.iter().map(|b| b.num_rows()).sum();
    let vname = version_name(c.version);
    let lance_schema = match LanceSchema::try_from(c.schema.as_ref()) {
        Ok(s) => s,
        Err(e) => return FileOutcome::SchemaRejected(e.to_string()),
    };
    let store = Arc::new(ObjectStore::memory());
    let path = Path::from("f.lance");
    // ---- write
    let write = async {
        let ow = store.create(&path).await?;
        let mut w = FileWriter::try_new(
            ow,
            lance_schema.clone(),
            FileWriterOptions {
                data_cache_bytes: c.data_cache_bytes,
                max_page_bytes: c.max_page_bytes,
                keep_original_array: c.keep_original_array,
                encoding_strategy: None,
                format_version: Some(c.version),
            },
        )?;
        for b in &c.batches {
            w.write_batch(b).await?;
        }
        let mapping: std::collections::BTreeMap<u32, u32> = w.field_id_to_column_indices().iter().copied().collect();
        let rows = w.finish().await?;
        lance_core::Result::Ok((rows, mapping))
    };
    clear_panics();
    let wres = tokio::time::timeout(Duration::from_secs(90), AssertUnwindSafe(write).catch_unwind()).await;
    let (written, mapping) = match wres {
        Err(_) => return FileOutcome::Inconclusive("writer did not finish in 90 s".into()),
        Ok(Err(_p)) => return FileOutcome::WriterPanicked(first_panic()),
        Ok(Ok(Err(e))) => return FileOutcome::WriterRejected(e.to_string()),
        Ok(Ok(Ok(x))) => x,
    };
    let mut viols: Vec<Viol> = vec![];
    let mut stats = Stats::default();
    if written as usize != n_total {
        viols.push(Viol {
            kind: "finish-row-count".into(),
            what: format!("finish() returned {written}, {n_total} rows were written"),
            detail: json!({"finish_returned": written}),
            column: None,
        });
    }
    let expected = expected_columns(&c.batches, c.schema.fields().len());
    // ---- open
    let sched = ScanScheduler::new(store.clone(), SchedulerConfig::default_for_testing());
    let cache = LanceCache::with_capacity(8 * 1024 * 1024);
    let ropts = FileReaderOptions {
        decoder_config: DecoderConfig {
            cache_repetition_index: rng.bool(),
            validate_on_decode: rng.bool(),
        },
        read_chunk_size: *rng.pick(&[64u64, 4096, 8 * 1024 * 1024]),
    };
    let open = async {
        let fs = sched.open_file(&path, &CachedFileSize::unknown()).await?;
        FileReader::try_open(fs, None, Arc::<DecoderPlugins>::default(), &cache, ropts.clone()).await
    };
    clear_panics();
    let reader = match tokio::time::timeout(Duration::from_secs(90), AssertUnwindSafe(open).catch_unwind()).await {
        Err(_) => return FileOutcome::Inconclusive("open did not finish in 90 s".into()),
        Ok(Err(_)) => {
            let loc = first_panic();
            viols.push(Viol {
                kind: format!("panic-opening-written-file-at-{}", short_loc(&loc)),
                what: format!("FileReader::try_open panicked on a file the writer produced: {loc}"),
                detail: json!({"panic": loc}),
                column: None,
            });
            return FileOutcome::Checked(viols, stats);
        }
        Ok(Ok(Err(e))) => {
            viols.push(Viol {
                kind: "cannot-open-written-file".into(),
                what: format!("FileReader::try_open failed on a file the writer produced: {e}"),
                detail: json!({"error": e.to_string()}),
                column: None,
            });
            return FileOutcome::Checked(viols, stats);
        }
        Ok(Ok(Ok(r))) => r,
    };
    if reader.num_rows() as usize != n_total {
        viols.push(Viol {
            kind: "num-rows".into(),
            what: format!("reader.num_rows() = {}, written {n_total}", reader.num_rows()),
            detail: json!({"num_rows": reader.num_rows()}),
            column: None,
        });
    }
    // the writer was given the Lance schema (which e.g. does not keep the nullability of fixed-size
    // list items): that is what the file has to reproduce
    let given = ArrowSchema::from(&lance_schema);
    let file_arrow = ArrowSchema::from(reader.schema().as_ref());
    let schema_ok = file_arrow.fields().len() == given.fields().len()
        && file_arrow.fields().iter().zip(given.fields().iter()).all(|(a, b)| same_field(a, b));
    if !schema_ok {
        viols.push(Viol {
            kind: "schema-differs".into(),
            what: "schema stored in the file differs from the schema given to the writer (names / types / nullability)".into(),
            detail: json!({"file_schema": schema_desc(&file_arrow), "given_schema": schema_desc(&given)}),
            column: None,
        });
    }
    let mut tn = vec![];
    for f in c.schema.fields() {
        type_names(f, &mut tn);
    }
    // ---- reads
    let n_reads = if n_total == 0 { 2 } else { rng.urange(8, 12) };
    let mut paths = vec![];
    for f in c.schema.fields() {
        leaf_paths(f, f.name(), &mut paths);
    }
    for k in 0..n_reads {
        // the shape of read k depends only on (read_seed, k, row count), not on the schema, so that the
        // reduction (fewer columns) replays the same reads
        let mut rk = Rng::for_case(read_seed, k as u64);
        let kind = gen_read(&mut rk, n_total, k);
        let batch_size = *rk.pick(&[1u32, 2, 7, 32, 100, 1024, 8192]);
        let readahead = *rk.pick(&[1u32, 2, 16]);
        let mut rp = Rng::for_case(read_seed ^ 0x5bd1_e995, k as u64);
        let rng = &mut rp;
        // projection: all columns, or a random subset of top-level columns / nested leaves
        let proj_names: Option<Vec<String>> = if k < 2 || rng.chance(1, 2) {
            None
        } else {
            let mut sel: Vec<String> = vec![];
            if rng.bool() {
                for f in c.schema.fields() {
                    if rng.bool() {
                        sel.push(f.name().clone());
                    }
                }
            } else {
                // nested leaves, at most one per top-level column, in schema order
                let mut seen_top = std::collections::BTreeSet::new();
                for p in &paths {
                    let top = p.split('.').next().unwrap().to_string();
                    if !seen_top.contains(&top) && rng.chance(1, 2) {
                        seen_top.insert(top);
                        sel.push(p.clone());
                    }
                }
            }
            if sel.is_empty() {
                sel.push(c.schema.field(rng.usize_below(c.schema.fields().len())).name().clone());
            }
            Some(sel)
        };
        let projection = match &proj_names {
            None => ReaderProjection::from_whole_schema(reader.schema(), c.version),
            Some(names) => {
                let refs: Vec<&str> = names.iter().map(|s| s.as_str()).collect();
                // the documented way: project the file schema and map field ids to column indices with
                // the mapping the writer reported
                let by_ids = reader
                    .schema()
                    .project(&refs)
                    .and_then(|projected| ReaderProjection::from_field_ids(c.version, &projected, &mapping));
                let by_ids = match by_ids {
                    Ok(p) => p,
                    Err(e) => {
                        stats.projection_rejected.push(e.to_string());
                        continue;
                    }
                };
                // the name based helper must agree with it
                if let Ok(by_names) = ReaderProjection::from_column_names(c.version, reader.schema(), &refs) {
                    stats.helpers_compared += 1;
                    if by_names.column_indices != by_ids.column_indices {
                        let has_packed = tn.iter().any(|t| t == "packed_struct");
                        viols.push(Viol {
                            kind: format!(
                                "from-column-names-wrong-column-indices{}",
                                if has_packed { "-with-packed-struct" } else { "" }
                            ),
                            what: "ReaderProjection::from_column_names disagrees with the writer's field-id -> column mapping".into(),
                            detail: json!({"projection": names, "from_column_names": by_names.column_indices,
                                "from_field_ids_with_writer_mapping": by_ids.column_indices}),
                            column: None,
                        });
                    }
                }
                by_ids
            }
        };
        let read_desc = json!({"kind": kind.name(), "params": format!("{}", kind.params()), "batch_size": batch_size,
            "readahead": readahead, "projection": proj_names, "reader_options": format!("{ropts:?}")});
        let read = async {
            let s = reader.read_stream_projected(kind.params(), batch_size, readahead, projection, FilterExpression::no_filter())?;
            s.try_collect::<Vec<RecordBatch>>().await
        };
        clear_panics();
        // which top-level columns does this read touch?
        let touched: Vec<usize> = match &proj_names {
            None => (0..c.schema.fields().len()).collect(),
            Some(names) => names
                .iter()
                .map(|p| c.schema.index_of(p.split('.').next().unwrap()).unwrap())
                .collect(),
        };
        let only_col = if touched.len() == 1 { Some(touched[0]) } else { None };
        let got = match tokio::time::timeout(Duration::from_secs(90), AssertUnwindSafe(read).catch_unwind()).await {
            Err(_) => {
                stats.inconclusive.push(format!("read {k}: no result in 90 s"));
                continue;
            }
            Ok(Err(_)) => {
                let loc = first_panic();
                viols.push(Viol {
                    kind: format!("panic-in-reader-at-{}", short_loc(&loc)),
                    what: format!("read panicked: {loc}"),
                    detail: json!({"read": read_desc, "panic": loc}),
                    column: only_col,
                });
                stats.reads.push((kind.name(), proj_names.is_some()));
                continue;
            }
            Ok(Ok(Err(e))) => {
                let inner = first_panic();
                let kindname = if !inner.is_empty() && e.to_string().contains("panicked") {
                    format!("panic-in-decode-task-at-{}", short_loc(&inner))
                } else {
                    let msg: String = e.to_string().chars().filter(|c| !c.is_ascii_digit()).take(70).collect();
                    format!("read-error-{}", slug(&msg))
                };
                viols.push(Viol {
                    kind: kindname,
                    what: format!("reading a written file failed: {e}"),
                    detail: json!({"read": read_desc, "error": e.to_string(), "panic": inner}),
                    column: only_col,
                });
                stats.reads.push((kind.name(), proj_names.is_some()));
                continue;
            }
            Ok(Ok(Ok(b))) => b,
        };
        stats.reads.push((kind.name(), proj_names.is_some()));
        // expected rows for this read
        let rows = kind.rows(n_total);
        let exp_cols: Vec<(String, Vec<Cell>, usize)> = match &proj_names {
            None => c
                .schema
                .fields()
                .iter()
                .enumerate()
                .map(|(ci, f)| (f.name().clone(), rows.iter().map(|r| expected[ci][*r].clone()).collect(), ci))
                .collect(),
            Some(names) => names
                .iter()
                .map(|p| {
                    let parts: Vec<&str> = p.split('.').collect();
                    let ci = c.schema.index_of(parts[0]).unwrap();
                    (
                        p.clone(),
                        rows.iter().map(|r| project_cell(&expected[ci][*r], &parts[1..])).collect(),
                        ci,
                    )
                })
                .collect(),
        };
        // observed
        let mut got_cols: Vec<Vec<Cell>> = vec![vec![]; exp_cols.len()];
        let mut bad_batch = None;
        let mut got = got;
        let mut corrupted = false;
        if selftest && got.iter().map(|b| b.num_rows()).sum::<usize>() >= 2 {
            // damage the observation: drop the first row of the first non-empty batch
            if let Some(i) = got.iter().position(|b| b.num_rows() >= 1) {
                let b = got[i].clone();
                got[i] = b.slice(1, b.num_rows() - 1);
                stats.selftest_corrupted += 1;
                corrupted = true;
            }
        }
        let before = viols.len();
        for b in &got {
            if b.num_rows() > batch_size as usize {
                bad_batch = Some(b.num_rows());
            }
            if b.num_columns() != exp_cols.len() {
                bad_batch = Some(usize::MAX);
                break;
            }
            for (ci, col) in got_cols.iter_mut().enumerate() {
                let a = b.column(ci);
                for i in 0..b.num_rows() {
                    col.push(cell_at(a.as_ref(), i));
                }
            }
        }
        if let Some(nr) = bad_batch {
            viols.push(Viol {
                kind: "batch-shape".into(),
                what: format!("a batch has {nr} rows / wrong column count (batch_size {batch_size}, {} columns expected)", exp_cols.len()),
                detail: json!({"read": read_desc}),
                column: only_col,
            });
        }
        for (ci, (name, exp, top)) in exp_cols.iter().enumerate() {
            if bad_batch == Some(usize::MAX) {
                break;
            }
            let g = &got_cols[ci];
            stats.cells_compared += g.len() as u64;
            if g.len() != exp.len() {
                viols.push(Viol {
                    kind: "row-count".into(),
                    what: format!("column {name}: read returned {} rows, expected {}", g.len(), exp.len()),
                    detail: json!({"read": read_desc, "column": name}),
                    column: Some(*top),
                });
                break;
            }
            if let Some(r) = (0..exp.len()).find(|r| exp[*r] != g[*r]) {
                let dp = diff_path(&exp[r], &g[r]);
                viols.push(Viol {
                    kind: format!("cell-differs-{dp}"),
                    what: format!(
                        "column {name} row {} (file row {}): expected {} got {}",
                        r,
                        rows[r],
                        exp[r].render().chars().take(120).collect::<String>(),
                        g[r].render().chars().take(120).collect::<String>()
                    ),
                    detail: json!({"read": read_desc, "column": name, "row_in_result": r, "row_in_file": rows[r],
                        "expected": exp[r].render().chars().take(400).collect::<String>(),
                        "observed": g[r].render().chars().take(400).collect::<String>(),
                        "mismatching_rows": (0..exp.len()).filter(|r| exp[*r] != g[*r]).count()}),
                    column: Some(*top),
                });
                break;
            }
        }
        if corrupted {
            if viols.len() > before {
                stats.selftest_flagged += 1;
            }
            viols.truncate(before);
        }
    }
    drop(reader);
    drop(sched);
    FileOutcome::Checked(viols, stats)
}

/// Format 0.1 stores a null of a nullable string / binary field as a zero-length value (there is no
/// validity buffer; `BinaryDecoder::count_nulls` turns every zero-length value back into a null), so an
/// empty value and a null are the same stored value by design.
fn legacy_norm(c: Cell) -> Cell {
    match c {
        Cell::Str(s) if s.is_empty() => Cell::Null,
        Cell::Bin(b) if b.is_empty() => Cell::Null,
        Cell::List(v) => Cell::List(v.into_iter().map(legacy_norm).collect()),
        Cell::Struct(v) => Cell::Struct(v.into_iter().map(|(k, c)| (k, legacy_norm(c))).collect()),
        other => other,
    }
}

/// The legacy (0.1) file format: `lance_file::previous::{writer, reader}`. Every `write` call becomes one
/// on-disk batch; reads: whole file (`read_range`), sub-ranges, `take` with sorted indices,
/// `read_batch` with every `ReadBatchParams` form, projections (top-level subsets and nested leaves).
async fn check_file_legacy(c: &FileCase, read_seed: u64, selftest: bool) -> FileOutcome {
    use lance_file::previous::reader::FileReader as OldReader;
    use lance_file::previous::writer::{FileWriter as OldWriter, FileWriterOptions as OldOptions};
    use lance_table::io::manifest::ManifestDescribing;
    let n_total: usize = c.batches.iter().map(|b| b.num_rows()).sum();
    let lance_schema = match LanceSchema::try_from(c.schema.as_ref()) {
        Ok(s) => s,
        Err(e) => return FileOutcome::SchemaRejected(e.to_string()),
    };
    let store = Arc::new(ObjectStore::memory());
    let path = Path::from("legacy.lance");
    // group the batches into write calls (1-3 batches per call), independent of the schema
    let mut groups: Vec<Vec<RecordBatch>> = vec![];
    {
        let mut g = Rng::for_case(read_seed, 7_000_001);
        let mut i = 0;
        while i < c.batches.len() {
            let k = g.urange(1, 3).min(c.batches.len() - i);
            groups.push(c.batches[i..i + k].to_vec());
            i += k;
        }
    }
    let collect_stats = Rng::for_case(read_seed, 7_000_002).bool();
    let write = async {
        let mut w = OldWriter::<ManifestDescribing>::try_new(
            &store,
            &path,
            lance_schema.clone(),
            &OldOptions {
                collect_stats_for_fields: if collect_stats { None } else { Some(vec![]) },
            },
        )
        .await?;
        for g in &groups {
            w.write(g).await?;
        }
        w.finish().await
    };
    clear_panics();
    let written = match tokio::time::timeout(Duration::from_secs(90), AssertUnwindSafe(write).catch_unwind()).await {
        Err(_) => return FileOutcome::Inconclusive("legacy writer did not finish in 90 s".into()),
        Ok(Err(_)) => return FileOutcome::WriterPanicked(first_panic()),
        Ok(Ok(Err(e))) => return FileOutcome::WriterRejected(e.to_string()),
        Ok(Ok(Ok(n))) => n,
    };
    let mut viols: Vec<Viol> = vec![];
    let mut stats = Stats::default();
    if written != n_total {
        viols.push(Viol {
            kind: "finish-row-count".into(),
            what: format!("legacy finish() returned {written}, {n_total} rows were written"),
            detail: json!({"finish_returned": written}),
            column: None,
        });
    }
    let expected = expected_columns(&c.batches, c.schema.fields().len());
    let open = OldReader::try_new(&store, &path, lance_schema.clone());
    clear_panics();
    let reader = match tokio::time::timeout(Duration::from_secs(90), AssertUnwindSafe(open).catch_unwind()).await {
        Err(_) => return FileOutcome::Inconclusive("legacy open did not finish in 90 s".into()),
        Ok(Err(_)) => {
            let loc = first_panic();
            viols.push(Viol {
                kind: format!("panic-opening-written-file-at-{}", short_loc(&loc)),
                what: format!("legacy FileReader::try_new panicked on a file the writer produced: {loc}"),
                detail: json!({"panic": loc}),
                column: None,
            });
            return FileOutcome::Checked(viols, stats);
        }
        Ok(Ok(Err(e))) => {
            viols.push(Viol {
                kind: "cannot-open-written-file".into(),
                what: format!("legacy FileReader::try_new failed on a file the writer produced: {e}"),
                detail: json!({"error": e.to_string()}),
                column: None,
            });
            return FileOutcome::Checked(viols, stats);
        }
        Ok(Ok(Ok(r))) => r,
    };
    if reader.len() != n_total {
        viols.push(Viol {
            kind: "num-rows".into(),
            what: format!("legacy reader.len() = {}, written {n_total}", reader.len()),
            detail: json!({"len": reader.len()}),
            column: None,
        });
    }
    // on-disk batch boundaries (a write call with 0 rows is not stored as a batch of its own by all paths:
    // use what the reader reports)
    let nb = reader.num_batches();
    let mut batch_starts = vec![0usize];
    for b in 0..nb {
        batch_starts.push(batch_starts[b] + reader.num_rows_in_batch(b as i32));
    }
    let mut paths = vec![];
    for f in c.schema.fields() {
        leaf_paths(f, f.name(), &mut paths);
    }
    let n_reads = if n_total == 0 { 2 } else { 10 };
    for k in 0..n_reads {
        let mut rk = Rng::for_case(read_seed, k as u64);
        // 0 full, 1-2 range, 3-4 take, 5.. read_batch with some params
        let mode = if k == 0 || n_total == 0 { 0 } else { rk.below(9) };
        let mut rp = Rng::for_case(read_seed ^ 0x5bd1_e995, k as u64);
        let proj_names: Option<Vec<String>> = if k < 2 || rp.chance(1, 2) {
            None
        } else {
            let mut sel: Vec<String> = vec![];
            if rp.bool() {
                for f in c.schema.fields() {
                    if rp.bool() {
                        sel.push(f.name().clone());
                    }
                }
            } else {
                let mut seen_top = std::collections::BTreeSet::new();
                for p in &paths {
                    let top = p.split('.').next().unwrap().to_string();
                    if !seen_top.contains(&top) && rp.chance(1, 2) {
                        seen_top.insert(top);
                        sel.push(p.clone());
                    }
                }
            }
            if sel.is_empty() {
                sel.push(c.schema.field(rp.usize_below(c.schema.fields().len())).name().clone());
            }
            Some(sel)
        };
        let projection = match &proj_names {
            None => lance_schema.clone(),
            Some(names) => {
                let refs: Vec<&str> = names.iter().map(|s| s.as_str()).collect();
                match lance_schema.project(&refs) {
                    Ok(p) => p,
                    Err(e) => {
                        stats.projection_rejected.push(e.to_string());
                        continue;
                    }
                }
            }
        };
        // rows this read must return (file row numbers), and the call
        let (name, rows, desc): (&'static str, Vec<usize>, String);
        let fut: futures::future::BoxFuture<'_, lance_core::Result<RecordBatch>>;
        match mode {
            0 => {
                name = "legacy_read_range_full";
                rows = (0..n_total).collect();
                desc = format!("read_range(0..{n_total})");
                fut = reader.read_range(0..n_total, &projection).boxed();
            }
            1 | 2 => {
                let a = rk.usize_below(n_total);
                let b = rk.urange(a + 1, n_total);
                name = "legacy_read_range";
                rows = (a..b).collect();
                desc = format!("read_range({a}..{b})");
                fut = reader.read_range(a..b, &projection).boxed();
            }
            3 | 4 => {
                let want = rk.urange(1, n_total.min(40));
                let mut ix: Vec<u32> = rk.sample_indices(n_total, want).into_iter().map(|i| i as u32).collect();
                ix.sort();
                name = "legacy_take";
                rows = ix.iter().map(|i| *i as usize).collect();
                desc = format!("take({ix:?})");
                let ixc = ix.clone();
                let proj = &projection;
                let r = &reader;
                fut = async move { r.take(&ixc, proj).await }.boxed();
            }
            _ => {
                if nb == 0 {
                    continue;
                }
                // a non-empty on-disk batch
                let candidates: Vec<usize> = (0..nb).filter(|b| batch_starts[b + 1] > batch_starts[*b]).collect();
                if candidates.is_empty() {
                    continue;
                }
                let b = candidates[rk.usize_below(candidates.len())];
                let len = batch_starts[b + 1] - batch_starts[b];
                let base = batch_starts[b];
                let (params, local): (ReadBatchParams, Vec<usize>) = match rk.below(5) {
                    0 => (ReadBatchParams::RangeFull, (0..len).collect()),
                    1 => {
                        let x = rk.usize_below(len);
                        let y = rk.urange(x + 1, len);
                        (ReadBatchParams::Range(x..y), (x..y).collect())
                    }
                    2 => {
                        let y = rk.urange(1, len);
                        (ReadBatchParams::RangeTo(..y), (0..y).collect())
                    }
                    3 => {
                        let x = rk.usize_below(len);
                        (ReadBatchParams::RangeFrom(x..), (x..len).collect())
                    }
                    _ => {
                        let want = rk.urange(1, len.min(20));
                        let mut ix: Vec<u32> = rk.sample_indices(len, want).into_iter().map(|i| i as u32).collect();
                        ix.sort();
                        let l = ix.iter().map(|i| *i as usize).collect();
                        (ReadBatchParams::Indices(UInt32Array::from(ix)), l)
                    }
                };
                name = "legacy_read_batch";
                rows = local.iter().map(|i| base + i).collect();
                desc = format!("read_batch({b}, {params})");
                fut = reader.read_batch(b as i32, params, &projection).boxed();
            }
        }
        let read_desc = json!({"kind": name, "call": desc, "projection": proj_names, "write_calls": groups.iter().map(|g| g.iter().map(|b| b.num_rows()).sum::<usize>()).collect::<Vec<_>>(),
            "collect_stats": collect_stats});
        let touched: Vec<usize> = match &proj_names {
            None => (0..c.schema.fields().len()).collect(),
            Some(names) => names.iter().map(|p| c.schema.index_of(p.split('.').next().unwrap()).unwrap()).collect(),
        };
        let only_col = if touched.len() == 1 { Some(touched[0]) } else { None };
        clear_panics();
        let got = match tokio::time::timeout(Duration::from_secs(90), AssertUnwindSafe(fut).catch_unwind()).await {
            Err(_) => {
                stats.inconclusive.push(format!("legacy read {k}: no result in 90 s"));
                continue;
            }
            Ok(Err(_)) => {
                let loc = first_panic();
                viols.push(Viol {
                    kind: if loc.contains("Incorrect datatype for StructArray field") {
                        "legacy-list-with-non-nullable-item-unreadable".to_string()
                    } else {
                        format!("panic-in-reader-at-{}", short_loc(&loc))
                    },
                    what: format!("legacy read panicked: {loc}"),
                    detail: json!({"read": read_desc, "panic": loc}),
                    column: only_col,
                });
                stats.reads.push((name, proj_names.is_some()));
                continue;
            }
            Ok(Ok(Err(e))) => {
                let inner = first_panic();
                let kindname = if e.to_string().contains("column types must match schema types") {
                    "legacy-list-with-non-nullable-item-unreadable".to_string()
                } else if !inner.is_empty() && e.to_string().contains("panicked") {
                    format!("panic-in-decode-task-at-{}", short_loc(&inner))
                } else {
                    let msg: String = e.to_string().chars().filter(|c| !c.is_ascii_digit()).take(70).collect();
                    format!("read-error-{}", slug(&msg))
                };
                viols.push(Viol {
                    kind: kindname,
                    what: format!("reading a written legacy file failed ({desc}): {e}"),
                    detail: json!({"read": read_desc, "error": e.to_string()}),
                    column: only_col,
                });
                stats.reads.push((name, proj_names.is_some()));
                continue;
            }
            Ok(Ok(Ok(b))) => b,
        };
        stats.reads.push((name, proj_names.is_some()));
        let mut got = got;
        let mut corrupted = false;
        if selftest && got.num_rows() >= 2 {
            got = got.slice(1, got.num_rows() - 1);
            stats.selftest_corrupted += 1;
            corrupted = true;
        }
        let before = viols.len();
        let exp_cols: Vec<(String, Vec<Cell>, usize)> = match &proj_names {
            None => c
                .schema
                .fields()
                .iter()
                .enumerate()
                .map(|(ci, f)| (f.name().clone(), rows.iter().map(|r| expected[ci][*r].clone()).collect(), ci))
                .collect(),
            Some(names) => {
                // the projected schema keeps the order of the file schema
                let mut v: Vec<(String, Vec<Cell>, usize)> = names
                    .iter()
                    .map(|p| {
                        let parts: Vec<&str> = p.split('.').collect();
                        let ci = c.schema.index_of(parts[0]).unwrap();
                        (p.clone(), rows.iter().map(|r| project_cell(&expected[ci][*r], &parts[1..])).collect(), ci)
                    })
                    .collect();
                v.sort_by_key(|x| x.2);
                v
            }
        };
        if got.num_columns() != exp_cols.len() {
            viols.push(Viol {
                kind: "batch-shape".into(),
                what: format!("{desc}: {} columns returned, {} expected", got.num_columns(), exp_cols.len()),
                detail: json!({"read": read_desc}),
                column: only_col,
            });
        } else {
            for (ci, (cname, exp, top)) in exp_cols.iter().enumerate() {
                let a = got.column(ci);
                let g: Vec<Cell> = (0..a.len()).map(|i| legacy_norm(cell_at(a.as_ref(), i))).collect();
                let exp: Vec<Cell> = exp.iter().cloned().map(legacy_norm).collect();
                let exp = &exp;
                stats.cells_compared += g.len() as u64;
                if g.len() != exp.len() {
                    viols.push(Viol {
                        kind: "row-count".into(),
                        what: format!("{desc}: column {cname} returned {} rows, expected {}", g.len(), exp.len()),
                        detail: json!({"read": read_desc, "column": cname}),
                        column: Some(*top),
                    });
                    break;
                }
                if let Some(r) = (0..exp.len()).find(|r| exp[*r] != g[*r]) {
                    let dp = diff_path(&exp[r], &g[r]);
                    viols.push(Viol {
                        kind: format!("cell-differs-{dp}"),
                        what: format!(
                            "{desc}: column {cname} row {r} (file row {}): expected {} got {}",
                            rows[r],
                            exp[r].render().chars().take(120).collect::<String>(),
                            g[r].render().chars().take(120).collect::<String>()
                        ),
                        detail: json!({"read": read_desc, "column": cname, "row_in_result": r, "row_in_file": rows[r],
                            "expected": exp[r].render().chars().take(400).collect::<String>(),
                            "observed": g[r].render().chars().take(400).collect::<String>(),
                            "mismatching_rows": (0..exp.len()).filter(|r| exp[*r] != g[*r]).count()}),
                        column: Some(*top),
                    });
                    break;
                }
            }
        }
        if corrupted {
            if viols.len() > before {
                stats.selftest_flagged += 1;
            }
            viols.truncate(before);
        }
    }
    FileOutcome::Checked(viols, stats)
}

/// the same file restricted to one top-level column
fn isolate_column(c: &FileCase, ci: usize) -> FileCase {
    let schema = Arc::new(ArrowSchema::new(vec![c.schema.field(ci).clone()]));
    let batches = c
        .batches
        .iter()
        .map(|b| RecordBatch::try_new(schema.clone(), vec![b.column(ci).clone()]).expect("isolated batch"))
        .collect();
    // the writer gives every top-level column `data_cache_bytes / number of columns`: keep the share
    let per_column = c.data_cache_bytes.map(|b| b / c.schema.fields().len() as u64);
    let mut options_desc = c.options_desc.clone();
    if let Some(b) = per_column {
        options_desc["data_cache_bytes"] = json!(b);
    }
    FileCase {
        version: c.version,
        schema,
        batches,
        options_desc,
        data_cache_bytes: per_column,
        max_page_bytes: c.max_page_bytes,
        keep_original_array: c.keep_original_array,
    }
}

fn with_default_options(c: &FileCase) -> FileCase {
    FileCase {
        version: c.version,
        schema: c.schema.clone(),
        batches: c.batches.clone(),
        options_desc: json!({"format_version": version_name(c.version), "data_cache_bytes": null, "max_page_bytes": null,
            "keep_original_array": null}),
        data_cache_bytes: None,
        max_page_bytes: None,
        keep_original_array: None,
    }
}

fn single_batch(c: &FileCase) -> Option<FileCase> {
    if c.batches.len() <= 1 {
        return None;
    }
    let b = arrow_select::concat::concat_batches(&c.schema, c.batches.iter()).ok()?;
    Some(FileCase {
        version: c.version,
        schema: c.schema.clone(),
        batches: vec![b],
        options_desc: c.options_desc.clone(),
        data_cache_bytes: c.data_cache_bytes,
        max_page_bytes: c.max_page_bytes,
        keep_original_array: c.keep_original_array,
    })
}

fn version_group(v: LanceFileVersion) -> &'static str {
    if v == LanceFileVersion::Legacy {
        "0.1"
    } else if v >= LanceFileVersion::V2_1 {
        "2.1+"
    } else {
        "2.0"
    }
}

async fn run_case(ctx: &Ctx<'_>, rng: &mut Rng, selftest: bool) {
    let report = ctx.report;
    let c = gen_case(rng);
    let read_seed = rng.next_u64();
    let n_total: usize = c.batches.iter().map(|b| b.num_rows()).sum();
    let out = check_file(&c, read_seed, selftest).await;
    let vname = version_name(c.version);
    let (viols, stats) = match out {
        FileOutcome::SchemaRejected(e) => {
            report.rejected();
            report.count("rejected.schema_conversion", 1);
            note_reject(report, "schema", &e);
            report.case(None);
            return;
        }
        FileOutcome::WriterRejected(e) => {
            report.rejected();
            report.count(&format!("rejected.writer.{vname}"), 1);
            note_reject(report, vname, &e);
            report.case(None);
            return;
        }
        FileOutcome::WriterPanicked(loc) => {
            // the writer did not accept the data (it died instead of returning an error): outside the
            // property, kept as a diagnostic
            report.rejected();
            report.count("writer_panicked", 1);
            report.count(&format!("writer_panicked.at.{}", short_loc(&loc)), 1);
            if report.counter("writer_panicked") <= 4 {
                report.set(
                    &format!("writer_panic_example_{}", report.counter("writer_panicked")),
                    json!({"case": ctx.idx, "schema": schema_desc(&c.schema), "version": vname, "panic": loc}),
                );
            }
            report.case(None);
            return;
        }
        FileOutcome::Inconclusive(why) => {
            report.inconclusive(&format!("C25 case {}: {why}", ctx.idx));
            report.case(None);
            return;
        }
        FileOutcome::Checked(v, s) => (v, s),
    };
    // ---- accepted: evidence
    let mut tn = vec![];
    for f in c.schema.fields() {
        type_names(f, &mut tn);
    }
    for t in &tn {
        report.count(&format!("type.{t}"), 1);
    }
    report.count(&format!("files.{vname}"), 1);
    report.count("rows_written", n_total as u64);
    report.count("cells_compared", stats.cells_compared);
    report.count("projection_helpers_compared", stats.helpers_compared);
    for (k, p) in &stats.reads {
        report.count(&format!("reads.{k}"), 1);
        if *p {
            report.count("reads.projected", 1);
        }
    }
    for e in &stats.projection_rejected {
        report.count("projection_rejected", 1);
        note_reject(report, "projection", e);
    }
    for w in &stats.inconclusive {
        report.inconclusive(&format!("C25 case {}: {w}", ctx.idx));
    }
    if selftest {
        report.count("selftest_flagged", stats.selftest_flagged);
        report.count("selftest_missed", stats.selftest_corrupted - stats.selftest_flagged);
        report.case(None);
        return;
    }
    // ---- violations: reduce the witness (single column, default options, one batch), then report the
    // observations of the reduced file
    if !viols.is_empty() {
        let mut cur = c_clone(&c);
        let mut cur_viols = viols.clone();
        let mut steps: Vec<String> = vec![];
        // 1. single column
        if cur.schema.fields().len() > 1 {
            let mut cols: Vec<usize> = cur_viols.iter().filter_map(|v| v.column).collect();
            cols.extend(0..cur.schema.fields().len());
            cols.dedup();
            for ci in cols {
                let cand = isolate_column(&cur, ci);
                if let FileOutcome::Checked(v, _) = check_file(&cand, read_seed, false).await {
                    if !v.is_empty() {
                        steps.push(format!("only column {}", cur.schema.field(ci).name()));
                        cur = cand;
                        cur_viols = v;
                        break;
                    }
                }
            }
        }
        // 2. default writer options
        if cur.data_cache_bytes.is_some() || cur.max_page_bytes.is_some() || cur.keep_original_array.is_some() {
            let cand = with_default_options(&cur);
            if let FileOutcome::Checked(v, _) = check_file(&cand, read_seed, false).await {
                if !v.is_empty() {
                    steps.push("default writer options".into());
                    cur = cand;
                    cur_viols = v;
                }
            }
        }
        // 3. fewer batches, fewer rows per batch (greedy, bounded)
        // bounded: every trial writes and reads the whole remaining file
        let full_budget: i32 = if n_total <= 200 { 120 } else if n_total <= 1000 { 60 } else { 25 };
        let mut budget = full_budget;
        let mut progress = true;
        while progress && budget > 0 {
            progress = false;
            let mut i = 0;
            while i < cur.batches.len() && budget > 0 {
                // drop batch i
                let mut cand = c_clone(&cur);
                cand.batches.remove(i);
                budget -= 1;
                if let FileOutcome::Checked(v, _) = check_file(&cand, read_seed, false).await {
                    if !v.is_empty() {
                        cur = cand;
                        cur_viols = v;
                        progress = true;
                        continue;
                    }
                }
                // halve batch i (front half, back half)
                let n = cur.batches[i].num_rows();
                let mut shrunk = false;
                if n >= 2 {
                    for (off, len) in [(0, n / 2), (n / 2, n - n / 2), (0, n - 1), (1, n - 1)] {
                        let mut cand = c_clone(&cur);
                        cand.batches[i] = cur.batches[i].slice(off, len);
                        budget -= 1;
                        if let FileOutcome::Checked(v, _) = check_file(&cand, read_seed, false).await {
                            if !v.is_empty() {
                                cur = cand;
                                cur_viols = v;
                                progress = true;
                                shrunk = true;
                                break;
                            }
                        }
                    }
                }
                if !shrunk {
                    i += 1;
                }
            }
        }
        if budget < full_budget {
            steps.push("batches dropped / shrunk greedily".into());
        }
        // 4. one batch
        if let Some(cand) = single_batch(&cur) {
            if let FileOutcome::Checked(v, _) = check_file(&cand, read_seed, false).await {
                if !v.is_empty() {
                    steps.push("all rows in one batch".into());
                    cur = cand;
                    cur_viols = v;
                }
            }
        }
        // 5. does the physical layout matter? rebuild every array with `take(0..n)`
        {
            let mut cand = c_clone(&cur);
            let mut ok = true;
            for b in cand.batches.iter_mut() {
                let idx = UInt32Array::from((0..b.num_rows() as u32).collect::<Vec<_>>());
                let cols: Result<Vec<ArrayRef>, _> = b.columns().iter().map(|a| arrow_select::take::take(a.as_ref(), &idx, None)).collect();
                match cols.and_then(|c| RecordBatch::try_new(b.schema(), c)) {
                    Ok(nb) => *b = nb,
                    Err(_) => ok = false,
                }
            }
            if ok {
                if let FileOutcome::Checked(v, _) = check_file(&cand, read_seed, false).await {
                    if !v.is_empty() {
                        steps.push("arrays rebuilt with take(): physical layout does not matter".into());
                        cur = cand;
                        cur_viols = v;
                    } else {
                        steps.push("NOT reproducible after rebuilding the arrays with take(): depends on the physical layout (slice offsets / spare buffer space / absent null buffers)".into());
                    }
                }
            }
        }
        let mut tnm = vec![];
        for f in cur.schema.fields() {
            type_names(f, &mut tnm);
        }
        let single = cur.schema.fields().len() == 1;
        let tclass = if single { tnm.join("/") } else { "several-columns".to_string() };
        let skel = if single { skeleton(cur.schema.field(0), 0) } else { "several-columns".to_string() };
        let layout_dependent = steps.iter().any(|s| s.starts_with("NOT reproducible"));
        let base_witness = json!({"seed": ctx.seed as i64, "case": ctx.idx, "read_seed": read_seed.to_string(),
            "original_schema": schema_desc(&c.schema), "reduction": steps,
            "schema": schema_desc(&cur.schema),
            "batch_rows": cur.batches.iter().map(|b| b.num_rows()).collect::<Vec<_>>(), "options": cur.options_desc,
            "all_observations": cur_viols.iter().map(|v| v.kind.clone()).collect::<std::collections::BTreeSet<_>>(),
            "data": if cur.batches.iter().map(|b| b.num_rows()).sum::<usize>() <= 24 {
                json!(cur.batches.iter().map(|b| {
                    (0..b.num_rows()).map(|r| (0..b.num_columns()).map(|ci| cell_at(b.column(ci).as_ref(), r).render()).collect::<Vec<_>>().join(" | ")).collect::<Vec<_>>()
                }).collect::<Vec<_>>())
            } else { Value::Null },
            "physical_layout": if cur.batches.iter().map(|b| b.num_rows()).sum::<usize>() <= 4 {
                json!(cur.batches.iter().map(|b| b.columns().iter().map(|a| format!("{:?}", a.to_data()).chars().take(1500).collect::<String>()).collect::<Vec<_>>()).collect::<Vec<_>>())
            } else { Value::Null }});
        let mut seen = std::collections::BTreeSet::new();
        for v in &cur_viols {
            // narrow class: symptom (panic location / error text / diff path), format generation, whether
            // the physical layout of the input arrays matters, and for value-level symptoms the
            // nesting skeleton of the reduced column
            // root-cause class computed from the reduced data: a page of a nested (list) column in which
            // no leaf value is non-null (only empty / null lists or null items) takes the "all null"
            // page layouts of the 2.1 structural encoding
            let no_leaf = cur.batches.iter().any(|b| {
                b.num_rows() > 0
                    && b.columns().iter().any(|c| leaf_projections(c).iter().any(|(p, through)| *through && !has_non_null_leaf(p.as_ref())))
            });
            let kind = if v.kind.starts_with("cell-differs") && v.kind.ends_with("list-length") || v.kind == "row-count" {
                "list-structure-differs".to_string()
            } else if v.kind.starts_with("read-error-") && v.what.contains("Invalid range") && v.what.contains("for object of size") {
                "read-beyond-end-of-file".to_string()
            } else if v.kind.starts_with("read-error-encountered-internal-error") {
                // class of the internal error by its message
                if v.what.contains("Max offset of") {
                    "list-offsets-exceed-values".to_string()
                } else if v.what.contains("Invalid range") && v.what.contains("for object of size") {
                    "read-beyond-end-of-file".to_string()
                } else if v.what.contains("bits_per_value must be greater than") {
                    "bits-per-value-zero".to_string()
                } else {
                    "read-error-internal".to_string()
                }
            } else if v.kind.starts_with("cell-differs") && v.kind.ends_with("/value") && v.kind.contains("list") {
                // an item of a list came back with another value
                "list-item-value-differs".to_string()
            } else if v.kind.starts_with("cell-differs") {
                // keep the innermost difference only (the path above it is the shape of the column)
                format!("cell-differs-{}", v.kind.rsplit('/').next().unwrap_or("value").trim_start_matches("cell-differs-"))
            } else {
                v.kind.clone()
            };
            // observations on a blob column are the blob class whatever else the file contains
            let on_blob = v
                .column
                .map(|ci| ci < cur.schema.fields().len() && cur.schema.field(ci).metadata().contains_key("lance-encoding:blob"))
                .unwrap_or(false);
            // trigger conditions computed from the reduced witness
            let needs_small_pages = cur.data_cache_bytes.is_some() || cur.max_page_bytes.is_some();
            let cond = if no_leaf {
                "list-page-without-non-null-leaf-values"
            } else if layout_dependent {
                "layout-dependent"
            } else if needs_small_pages {
                "needs-non-default-page-sizes"
            } else {
                "default-options"
            };
            // type names of the column the observation is about (the reduced column, or the violating
            // column when the reduction could not isolate one)
            let names: Vec<String> = if single {
                tnm.clone()
            } else if let Some(ci) = v.column.filter(|ci| *ci < cur.schema.fields().len()) {
                let mut t = vec![];
                type_names(cur.schema.field(ci), &mut t);
                t
            } else {
                vec![]
            };
            let is_var = |t: &String| matches!(t.as_str(), "utf8" | "largeutf8" | "binary" | "largebinary" | "utf8view" | "binaryview");
            let leaf = if names.is_empty() {
                "several-columns"
            } else if names.iter().any(is_var) {
                "variable-width-items"
            } else if names.iter().any(|t| t == "fixed_size_list") {
                "fixed-size-list-items"
            } else if names.iter().any(|t| t.starts_with("dictionary")) {
                "dictionary-items"
            } else if names.iter().any(|t| t == "null") {
                "null-items"
            } else {
                "fixed-width-items"
            };
            let _ = &skel;
            // a panic location or the projection helper is already a narrow class of its own
            let self_contained = kind.starts_with("panic-") || kind.starts_with("from-column-names") || kind.starts_with("legacy-");
            let sig = if self_contained {
                format!("{}-{}", kind, version_group(cur.version))
            } else if on_blob {
                format!("{}-{}-blob", kind, version_group(cur.version))
            } else if kind == "list-offsets-exceed-values" || kind == "list-item-value-differs" || kind == "read-beyond-end-of-file" {
                // families that are not root-caused: classed by the kind of leaf only (the trigger
                // conditions vary: small pages, absent validity buffers, a page of empty lists in front)
                format!("{}-{}-{leaf}", kind, version_group(cur.version))
            } else if no_leaf {
                format!("{}-{}-{cond}", kind, version_group(cur.version))
            } else {
                format!("{}-{}-{cond}-{leaf}", kind, version_group(cur.version))
            };
            if !seen.insert(sig.clone()) {
                continue;
            }
            let mut w = base_witness.clone();
            w["observation"] = v.detail.clone();
            w["type_class"] = json!(tclass);
            report.violation(&sig, &v.what, w);
        }
    }
    let interesting = tn.iter().any(|t| {
        t.contains("list") || t.contains("struct") || t.contains("utf8") || t.contains("binary") || t.contains("dictionary") || t.contains("blob")
    });
    let nontrivial = n_total >= 2 && interesting;
    let rows_class = match n_total {
        0 => 0,
        1 => 1,
        2..=59 => 2,
        60..=499 => 3,
        _ => 4,
    };
    let sig = fnv(
        format!("{vname}|{}|{rows_class}|{:?}|{:?}", tn.join(","), c.data_cache_bytes, c.max_page_bytes).as_bytes(),
    );
    report.case(if nontrivial { Some(sig) } else { None });
    if report.want_sample() && nontrivial && tn.len() >= 4 && ctx.idx % 13 == 0 {
        report.sample(json!({"case": ctx.idx, "schema": schema_desc(&c.schema), "rows": n_total, "batches": c.batches.len(),
            "options": c.options_desc, "reads": stats.reads.len(), "outcome": if viols.is_empty() { "all reads equal" } else { "see violations" }}));
    }
}

/// nesting skeleton of a field: constructors only, ordinary leaves collapsed
fn skeleton(f: &Field, depth: usize) -> String {
    let packed = f.metadata().get("packed").is_some() || f.metadata().get("lance-encoding:packed").is_some();
    if f.metadata().contains_key("lance-encoding:blob") {
        return "blob".into();
    }
    if depth >= 3 {
        return "..".into();
    }
    match f.data_type() {
        DataType::List(c) | DataType::LargeList(c) => format!("list<{}>", skeleton(c, depth + 1)),
        DataType::FixedSizeList(c, _) => format!("fsl<{}>", skeleton(c, depth + 1)),
        DataType::Struct(fs) => {
            if packed {
                return "packed".into();
            }
            let mut kids: Vec<String> = fs.iter().map(|c| skeleton(c, depth + 1)).collect();
            kids.sort();
            kids.dedup();
            format!("struct<{}>", kids.join(","))
        }
        DataType::Null => "null".into(),
        DataType::Dictionary(..) => "dict".into(),
        DataType::Utf8 | DataType::LargeUtf8 | DataType::Binary | DataType::LargeBinary => {
            if f.metadata().get("lance-encoding:structural-encoding").map(|s| s.as_str()) == Some("fullzip") {
                "varwidth-fullzip".into()
            } else {
                "varwidth".into()
            }
        }
        _ => "leaf".into(),
    }
}

/// One array per leaf column of `a`: the same nesting with every struct reduced to the single child on
/// the way to that leaf (validity of all levels kept), plus whether the path crosses a list.
fn leaf_projections(a: &ArrayRef) -> Vec<(ArrayRef, bool)> {
    use arrow_array::cast::AsArray;
    use arrow_array::{FixedSizeListArray, LargeListArray, ListArray, StructArray};
    match a.data_type() {
        DataType::List(f) => {
            let l = a.as_list::<i32>();
            leaf_projections(l.values())
                .into_iter()
                .map(|(v, _)| {
                    let nf = Arc::new(Field::new(f.name(), v.data_type().clone(), true));
                    (Arc::new(ListArray::new(nf, l.offsets().clone(), v, l.nulls().cloned())) as ArrayRef, true)
                })
                .collect()
        }
        DataType::LargeList(f) => {
            let l = a.as_list::<i64>();
            leaf_projections(l.values())
                .into_iter()
                .map(|(v, _)| {
                    let nf = Arc::new(Field::new(f.name(), v.data_type().clone(), true));
                    (Arc::new(LargeListArray::new(nf, l.offsets().clone(), v, l.nulls().cloned())) as ArrayRef, true)
                })
                .collect()
        }
        DataType::FixedSizeList(f, n) => {
            let l = a.as_fixed_size_list();
            leaf_projections(l.values())
                .into_iter()
                .map(|(v, t)| {
                    let nf = Arc::new(Field::new(f.name(), v.data_type().clone(), true));
                    (Arc::new(FixedSizeListArray::new(nf, *n, v, l.nulls().cloned())) as ArrayRef, t)
                })
                .collect()
        }
        DataType::Struct(fs) if !fs.is_empty() => {
            let st = a.as_struct();
            let mut out = vec![];
            for (i, f) in fs.iter().enumerate() {
                for (v, t) in leaf_projections(st.column(i)) {
                    let nf = Arc::new(Field::new(f.name(), v.data_type().clone(), true));
                    out.push((
                        Arc::new(StructArray::new(vec![nf].into(), vec![v], st.nulls().cloned())) as ArrayRef,
                        t,
                    ));
                }
            }
            out
        }
        _ => vec![(a.clone(), false)],
    }
}

/// is there a leaf column below at least one list level that holds no non-null value in this array?
#[allow(dead_code)]
/// (each leaf is a physical column of its own in the 2.1 format; such a page takes the all-null layouts)
fn listy_leaf_without_values(a: &dyn Array, through_list: bool) -> bool {
    use arrow_array::cast::AsArray;
    match a.data_type() {
        DataType::List(_) => {
            let l = a.as_list::<i32>();
            let (lo, hi) = (l.value_offsets()[0] as usize, l.value_offsets()[l.len()] as usize);
            listy_leaf_without_values(l.values().slice(lo, hi - lo).as_ref(), true)
        }
        DataType::LargeList(_) => {
            let l = a.as_list::<i64>();
            let (lo, hi) = (l.value_offsets()[0] as usize, l.value_offsets()[l.len()] as usize);
            listy_leaf_without_values(l.values().slice(lo, hi - lo).as_ref(), true)
        }
        DataType::FixedSizeList(_, n) => {
            let l = a.as_fixed_size_list();
            let n = *n as usize;
            listy_leaf_without_values(l.values().slice(l.offset() * n, l.len() * n).as_ref(), through_list)
        }
        DataType::Struct(_) => {
            let packed = false;
            let _ = packed;
            a.as_struct().columns().iter().any(|c| listy_leaf_without_values(c.as_ref(), through_list))
        }
        DataType::Null => through_list,
        _ => through_list && a.logical_nulls().map(|n| n.null_count() == a.len()).unwrap_or(a.is_empty()),
    }
}

#[allow(dead_code)]
fn has_list(dt: &DataType) -> bool {
    match dt {
        DataType::List(_) | DataType::LargeList(_) => true,
        DataType::FixedSizeList(c, _) => has_list(c.data_type()),
        DataType::Struct(fs) => fs.iter().any(|f| has_list(f.data_type())),
        _ => false,
    }
}

/// is there any non-null value in a leaf (non-nested) array reachable through valid parents?
fn has_non_null_leaf(a: &dyn Array) -> bool {
    use arrow_array::cast::AsArray;
    match a.data_type() {
        DataType::List(_) => {
            let l = a.as_list::<i32>();
            (0..l.len()).any(|i| l.is_valid(i) && has_non_null_leaf(l.value(i).as_ref()))
        }
        DataType::LargeList(_) => {
            let l = a.as_list::<i64>();
            (0..l.len()).any(|i| l.is_valid(i) && has_non_null_leaf(l.value(i).as_ref()))
        }
        DataType::FixedSizeList(_, _) => {
            let l = a.as_fixed_size_list();
            (0..l.len()).any(|i| l.is_valid(i) && has_non_null_leaf(l.value(i).as_ref()))
        }
        DataType::Struct(_) => {
            let st = a.as_struct();
            (0..st.len()).any(|i| st.is_valid(i) && st.columns().iter().any(|c| has_non_null_leaf(c.slice(i, 1).as_ref())))
        }
        DataType::Null => false,
        _ => a.logical_nulls().map(|n| n.null_count() < a.len()).unwrap_or(a.len() > 0),
    }
}

fn c_clone(c: &FileCase) -> FileCase {
    FileCase {
        version: c.version,
        schema: c.schema.clone(),
        batches: c.batches.clone(),
        options_desc: c.options_desc.clone(),
        data_cache_bytes: c.data_cache_bytes,
        max_page_bytes: c.max_page_bytes,
        keep_original_array: c.keep_original_array,
    }
}

fn short_loc(loc: &str) -> String {
    // "…/lance-encoding/src/foo.rs:123:9: message" -> "foo.rs:123"
    let first = loc.split(": ").next().unwrap_or(loc);
    let mut it = first.rsplit('/');
    let file_line = it.next().unwrap_or(first);
    let mut parts = file_line.split(':');
    let f = parts.next().unwrap_or("?");
    let l = parts.next().unwrap_or("?");
    slug(&format!("{f}:{l}"))
}

fn slug(s: &str) -> String {
    let mut out = String::new();
    for ch in s.chars() {
        if ch.is_ascii_alphanumeric() || ch == '.' || ch == ':' {
            out.push(ch.to_ascii_lowercase());
        } else if !out.ends_with('-') {
            out.push('-');
        }
    }
    out.trim_matches('-').to_string()
}

fn note_reject(report: &Report, stage: &str, msg: &str) {
    // histogram of rejection reasons (digits stripped)
    let key: String = msg.chars().filter(|c| !c.is_ascii_digit()).take(70).collect();
    report.count(&format!("reject_reason.{stage}.{}", slug(&key)), 1);
}

/// `--probe-list "N;[1,n];[]" [--batches 1,2] [--cache 1] [--page 64] [--version 2.1] [--garbage 1]`:
/// one `List<Int8?>?` column with explicit rows (N = null list, n = null item), written and read back
/// with the same oracle; prints the observations. Used to minimise witnesses by hand.
fn probe_list(args: &Args, spec: &str) -> i32 {
    use arrow_array::{Int8Array, ListArray};
    use arrow_buffer::{NullBuffer, OffsetBuffer};
    let rows: Vec<Option<Vec<Option<i8>>>> = spec
        .split(';')
        .map(|t| {
            let t = t.trim();
            if t == "N" {
                None
            } else {
                let inner = t.trim_start_matches('[').trim_end_matches(']');
                Some(
                    inner
                        .split(',')
                        .filter(|x| !x.trim().is_empty())
                        .map(|x| if x.trim() == "n" { None } else { Some(x.trim().parse::<i8>().unwrap()) })
                        .collect(),
                )
            }
        })
        .collect();
    let garbage = args.extra.contains_key("garbage");
    let item = Arc::new(Field::new("item", DataType::Int8, true));
    let schema = Arc::new(ArrowSchema::new(vec![Field::new("c0", DataType::List(item.clone()), true)]));
    let sizes: Vec<usize> = match args.extra.get("batches") {
        Some(b) => b.split(',').map(|x| x.parse().unwrap()).collect(),
        None => vec![rows.len()],
    };
    let mut batches = vec![];
    let mut pos = 0;
    for n in sizes {
        let part = &rows[pos..pos + n];
        pos += n;
        let mut vals: Vec<Option<i8>> = vec![];
        let mut lens = vec![];
        let mut valid = vec![];
        for r in part {
            match r {
                None => {
                    if garbage {
                        vals.extend([Some(7), Some(8)]);
                        lens.push(2);
                    } else {
                        lens.push(0);
                    }
                    valid.push(false);
                }
                Some(v) => {
                    vals.extend(v.iter().copied());
                    lens.push(v.len());
                    valid.push(true);
                }
            }
        }
        let nulls = if valid.iter().all(|v| *v) && !args.extra.contains_key("nullbuf") { None } else { Some(NullBuffer::from(valid.clone())) };
        // --pad pre,post: surround the rows by lists [1,2] and slice them off again
        let (pre, post) = match args.extra.get("pad") {
            Some(p) => {
                let (a, b) = p.split_once(',').unwrap();
                (a.parse::<usize>().unwrap(), b.parse::<usize>().unwrap())
            }
            None => (0, 0),
        };
        let mut all_vals: Vec<Option<i8>> = vec![];
        let mut all_lens = vec![];
        let mut all_valid = vec![];
        let padempty = args.extra.contains_key("padempty");
        for _ in 0..pre {
            if padempty {
                all_lens.push(0);
            } else {
                all_vals.extend([Some(1), Some(2)]);
                all_lens.push(2);
            }
            all_valid.push(true);
        }
        all_vals.extend(vals);
        all_lens.extend(lens);
        all_valid.extend(valid);
        for _ in 0..post {
            if padempty {
                all_lens.push(0);
            } else {
                all_vals.extend([Some(1), Some(2)]);
                all_lens.push(2);
            }
            all_valid.push(true);
        }
        let nulls = if pre + post > 0 {
            if all_valid.iter().all(|v| *v) && !args.extra.contains_key("nullbuf") { None } else { Some(NullBuffer::from(all_valid)) }
        } else {
            nulls
        };
        let arr = ListArray::new(item.clone(), OffsetBuffer::from_lengths(all_lens), {
            let a = Int8Array::from(all_vals);
            if args.extra.contains_key("plainitems") && a.null_count() == 0 {
                // items without a validity buffer
                let (_, vals, _) = a.into_parts();
                Arc::new(Int8Array::new(vals, None))
            } else {
                Arc::new(a)
            }
        }, nulls);
        let b = RecordBatch::try_new(schema.clone(), vec![Arc::new(arr) as ArrayRef]).unwrap();
        let _ = &b;
        let sliced = b.slice(pre, n);
        let sliced = if args.extra.get("item").map(|s| s.as_str()) == Some("date32") {
            let t32 = DataType::List(Arc::new(Field::new("item", DataType::Int32, true)));
            let td = DataType::List(Arc::new(Field::new("item", DataType::Date32, true)));
            let a = arrow_cast::cast(sliced.column(0).as_ref(), &t32).unwrap();
            let a = arrow_cast::cast(a.as_ref(), &td).unwrap();
            let sch = Arc::new(ArrowSchema::new(vec![Field::new("c0", td, true)]));
            RecordBatch::try_new(sch, vec![a]).unwrap()
        } else {
            sliced
        };
        batches.push(sliced);
        if args.extra.contains_key("dump") {
            println!("layout: {:?}", batches.last().unwrap().column(0).to_data());
        }
    }
    let version = match args.extra.get("version").map(|s| s.as_str()) {
        Some("2.0") => LanceFileVersion::V2_0,
        Some("2.2") => LanceFileVersion::V2_2,
        _ => LanceFileVersion::V2_1,
    };
    let schema = batches.first().map(|b| b.schema()).unwrap_or(schema);
    let c = FileCase {
        version,
        schema,
        batches,
        options_desc: json!({}),
        data_cache_bytes: args.extra.get("cache").and_then(|s| s.parse().ok()),
        max_page_bytes: args.extra.get("page").and_then(|s| s.parse().ok()),
        keep_original_array: None,
    };
    install_hook();
    let rt = tokio::runtime::Builder::new_current_thread().enable_all().build().unwrap();
    let rs: u64 = args.extra.get("read-seed").and_then(|s| s.parse().ok()).unwrap_or(args.seed);
    let out = rt.block_on(check_file(&c, rs, false));
    match out {
        FileOutcome::Checked(v, st) => {
            println!("version={} cache={:?} page={:?} rows={spec} -> {} reads, {} observations", version_name(version), c.data_cache_bytes, c.max_page_bytes, st.reads.len(), v.len());
            let mut seen = std::collections::BTreeSet::new();
            for x in v {
                if seen.insert(x.kind.clone()) {
                    println!("  {}: {}", x.kind, x.what.chars().take(300).collect::<String>());
                }
            }
        }
        FileOutcome::WriterPanicked(l) => println!("writer panicked: {l}"),
        FileOutcome::WriterRejected(e) | FileOutcome::SchemaRejected(e) | FileOutcome::Inconclusive(e) => println!("not checked: {e}"),
    }
    0
}

fn install_hook() {
    std::panic::set_hook(Box::new(|info| {
        let loc = info
            .location()
            .map(|l| format!("{}:{}:{}", l.file(), l.line(), l.column()))
            .unwrap_or_default();
        let msg = info
            .payload()
            .downcast_ref::<&str>()
            .map(|s| s.to_string())
            .or_else(|| info.payload().downcast_ref::<String>().cloned())
            .unwrap_or_default();
        let text = format!("{loc}: {}", msg.chars().take(200).collect::<String>());
        let _ = PANICS.try_with(|p| {
            let mut p = p.borrow_mut();
            if p.len() < 8 {
                p.push(text.clone());
            }
        });
        *LAST_PANIC.lock().unwrap() = Some(text);
    }));
}

pub fn run(args: &Args) -> i32 {
    if let Some(spec) = args.extra.get("probe-list") {
        return probe_list(args, spec);
    }
    let selftest = args.extra.contains_key("selftest");
    let report = Report::new(args, "exploration", RULE, (25, 900)).with_min_nontrivial(60);
    report.assume("struct-level nulls are generated only for format >= 2.1 (2.0 documents that it cannot store them)");
    report.assume("format 0.1: an empty string / binary value and a null are the same stored value (zero length, BinaryDecoder::count_nulls); the comparison identifies them");
    report.assume("format 0.1 (legacy) cases contain no null values and no dictionaries: the format has no null support (versioning.md) and keeps one dictionary per column and file");
    report.assume("batch_size is an upper bound for batch length (documented), not an exact size");
    install_hook();
    let only: Option<u64> = args.extra.get("only-case").and_then(|s| s.parse().ok());
    let threads = if only.is_some() { 1 } else { crate::sink::verif_threads().min(14) };
    let max_cases: u64 = args.tier.pick(100_000, 10_000_000);
    let next = std::sync::atomic::AtomicU64::new(0);
    std::thread::scope(|s| {
        for _ in 0..threads {
            s.spawn(|| {
                let rt = tokio::runtime::Builder::new_current_thread().enable_all().build().expect("rt");
                loop {
                    let idx = match only {
                        Some(c) => {
                            if next.fetch_add(1, std::sync::atomic::Ordering::SeqCst) > 0 {
                                break;
                            }
                            c
                        }
                        None => next.fetch_add(1, std::sync::atomic::Ordering::SeqCst),
                    };
                    if idx >= max_cases || !report.time_left() {
                        break;
                    }
                    let mut rng = Rng::for_case(args.seed, idx);
                    let ctx = Ctx {
                        report: &report,
                        seed: args.seed,
                        idx,
                    };
                    let r = std::panic::catch_unwind(AssertUnwindSafe(|| rt.block_on(run_case(&ctx, &mut rng, selftest))));
                    if r.is_err() {
                        let loc = LAST_PANIC.lock().unwrap().clone().unwrap_or_default();
                        // write / open / read are guarded separately; a panic that reaches this point
                        // comes from the generator or the oracle
                        report.harness_error(&format!("case {idx}: panic outside the guarded Lance calls: {loc}"));
                    }
                }
            });
        }
    });
    if selftest {
        let missed = report.counter("selftest_missed");
        let flagged = report.counter("selftest_flagged");
        println!("SELFTEST C25 flagged={flagged} missed={missed}");
        return if missed == 0 && flagged > 0 { 0 } else { 2 };
    }
    report.finish()
}
