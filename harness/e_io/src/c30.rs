//! C30 — the I/O scheduler returns exactly the requested bytes and always completes.
//!
//! Three legs over the real `lance_io::scheduler::{ScanScheduler, FileScheduler}` (and
//! `lance_file::LanceEncodingsIo` on top of it), all reading an `object_store::memory::InMemory`
//! file with known random bytes through `gate::GateStore`:
//!
//!  1. *boundary*: random range lists (empty / overlapping / contained / adjacent / near / far /
//!     duplicated / unsorted), random block size, io parallelism, buffer budget, priorities; oracle:
//!     exactly one buffer per requested range, in request order, equal to the file slice. A failing
//!     list is minimised against the real scheduler and classified; the class is the signature.
//!  2. *progress*: every underlying read parks in the store; a seeded controller interleaves
//!     submit / release-one-read (any order, with transient or permanent failures) / consumer stalls /
//!     dropping futures / dropping the scheduler. Oracle (bounded progress): at a quiescent point
//!     (runtime drained, measured in controller steps — no wall clock) with no parked read, nothing
//!     left to submit and every outstanding future polled, every submitted request has resolved;
//!     resolved data equals the slices; errors only where a read failed permanently or the scheduler
//!     was dropped. Hook H1 (queue-state callback) gives the budget-conservation monitor.
//!  3. *stress*: multi-thread runtime, several submitters, jittered reads, random consume delays,
//!     small `io_buffer_size`; same data oracle, H1 monitor; a wall-clock watchdog is *inconclusive*.
//!
//! `LANCE_MAX_IOP_SIZE` and `LANCE_PROCESS_IO_THREADS_LIMIT` are read once per process by lance-io,
//! so the check re-executes itself as worker processes with different values and merges the results.

use bytes::Bytes;
use futures::future::BoxFuture;
use futures::stream::FuturesUnordered;
use futures::{FutureExt, StreamExt};
use lance_encoding::EncodingsIo;
use lance_file::LanceEncodingsIo;
use lance_io::object_store::ObjectStore;
use lance_io::scheduler::{FileScheduler, ScanScheduler, SchedulerConfig};
use lance_io::utils::CachedFileSize;
use object_store::path::Path;
use object_store::ObjectStore as _;
use serde_json::{json, Value};
use std::collections::BTreeSet;
use std::ops::Range;
use std::panic::AssertUnwindSafe;
use std::sync::{Arc, Mutex};
use std::time::Duration;
use vmon::prng::{fnv, Rng};
use vmon::report::{Args, Report, Tier};

use crate::gate::{GateStore, Mode, Verdict};
use crate::qmon::{self, Monitor};
use crate::sink::{merge_json, Collector};

const RULE: &str = "Worker processes (one per LANCE_MAX_IOP_SIZE / process iops limit) run seeded cases: \
boundary cases = random range lists over a random file/block size/parallelism/budget, distinct by the \
list's shape (per-pair relation empty/dup/contained/overlap/adjacent/near/far/unsorted + per-range size \
class), non-trivial iff >=2 ranges or a split or an empty range; progress cases = seeded controller \
schedules over parked reads, distinct by (release permutation, action sequence), non-trivial iff >=2 \
reads were parked at once and released out of arrival order, or the queue showed back-pressure; stress \
cases = multi-thread runs, non-trivial iff back-pressure or >1 submitter.";

type Req = Vec<Range<u64>>;

// -------------------------------------------------------------------------------------------
// entry points
// -------------------------------------------------------------------------------------------

#[derive(Clone, Copy, Debug)]
struct WorkerCfg {
    max_iop: u64,
    /// LANCE_PROCESS_IO_THREADS_LIMIT (0 = unlimited)
    proc_limit: i32,
    threads: usize,
}

fn worker_cfgs(tier: Tier) -> Vec<WorkerCfg> {
    let mut v = vec![
        WorkerCfg { max_iop: 1000, proc_limit: 128, threads: 4 },
        WorkerCfg { max_iop: 64, proc_limit: 0, threads: 4 },
        WorkerCfg { max_iop: 4099, proc_limit: 128, threads: 3 },
        WorkerCfg { max_iop: 65536, proc_limit: 3, threads: 1 },
    ];
    if tier == Tier::Thorough {
        v.push(WorkerCfg { max_iop: 1, proc_limit: 0, threads: 2 });
        v.push(WorkerCfg { max_iop: 16 * 1024 * 1024, proc_limit: 128, threads: 2 });
    }
    v
}

pub fn run(args: &Args) -> i32 {
    if args.extra.contains_key("worker") {
        return worker_main(args);
    }
    if args.extra.contains_key("selftest") {
        return selftest(args);
    }
    if let Some(p) = args.extra.get("probe") {
        return probe(args, p);
    }
    let report = Report::new(args, "exploration", RULE, (50, 900)).with_min_nontrivial(50);
    report.assume("object_store::memory::InMemory serves get_opts ranges faithfully");
    report.assume("bounded progress is judged at quiescence of a current-thread runtime (no wall clock); the multi-thread stress leg can only report a hang as inconclusive");
    let cfgs = worker_cfgs(args.tier);
    let exe = match std::env::current_exe() {
        Ok(e) => e,
        Err(e) => {
            report.harness_error(&format!("current_exe: {e}"));
            return report.finish();
        }
    };
    if let Some(path) = &args.replay {
        return replay(args, &report, path);
    }
    let budget = report.budget_s();
    let mut children = vec![];
    for (k, c) in cfgs.iter().enumerate() {
        let out = format!("/tmp/e_io-c30-{}-{}.json", std::process::id(), k);
        let mut cmd = std::process::Command::new(&exe);
        cmd.arg("C30")
            .arg("--tier")
            .arg(args.tier.name())
            .arg("--seed")
            .arg((args.seed as i64).to_string())
            .arg("--budget")
            .arg(budget.to_string())
            .arg("--worker")
            .arg(k.to_string())
            .arg("--out")
            .arg(&out)
            .env("LANCE_MAX_IOP_SIZE", c.max_iop.to_string())
            .env("LANCE_PROCESS_IO_THREADS_LIMIT", c.proc_limit.to_string())
            .env_remove("LANCE_IO_THREADS");
        match cmd.spawn() {
            Ok(ch) => children.push((k, out, ch)),
            Err(e) => report.harness_error(&format!("spawn worker {k}: {e}")),
        }
    }
    let mut worker_summaries = vec![];
    for (k, out, mut ch) in children {
        let status = ch.wait();
        let txt = std::fs::read_to_string(&out);
        let _ = std::fs::remove_file(&out);
        match (status, txt) {
            (Ok(st), Ok(txt)) if st.success() => match serde_json::from_str::<Value>(&txt) {
                Ok(v) => {
                    worker_summaries.push(json!({
                        "worker": k, "max_iop_size": cfgs[k].max_iop, "process_iops_limit": cfgs[k].proc_limit,
                        "threads": cfgs[k].threads, "cases": v["evaluations"], "distinct": v["sigs"].as_array().map(|a| a.len()),
                    }));
                    merge_json(&report, &v);
                }
                Err(e) => report.harness_error(&format!("worker {k}: bad json: {e}")),
            },
            (st, _) => report.harness_error(&format!("worker {k} failed: {st:?}")),
        }
    }
    report.set("workers", json!(worker_summaries));
    report.finish()
}

fn worker_main(args: &Args) -> i32 {
    let k: usize = args.extra["worker"].parse().unwrap_or(0);
    let cfgs = worker_cfgs(args.tier);
    let cfg = cfgs[k.min(cfgs.len() - 1)];
    let out = args.extra.get("out").cloned().unwrap_or_default();
    let max_iop: u64 = std::env::var("LANCE_MAX_IOP_SIZE")
        .ok()
        .and_then(|s| s.parse().ok())
        .unwrap_or(16 * 1024 * 1024);
    std::panic::set_hook(Box::new(|_| {}));
    let budget = args.budget_s.unwrap_or(50) as f64;
    let col = Collector::new(budget);
    let env = Env {
        seed: args.seed ^ ((k as u64 + 1) << 56),
        max_iop,
        proc_limit: cfg.proc_limit,
        worker: k,
        selftest: false,
    };
    let max_cases: u64 = args.tier.pick(400_000, 40_000_000);
    let cfg = WorkerCfg {
        threads: (cfg.threads * crate::sink::verif_threads()).div_ceil(16).max(1),
        ..cfg
    };
    if let Some(c) = args.extra.get("only-case").and_then(|c| c.parse::<u64>().ok()) {
        run_case(&env, &col, c, true);
        let v = col.to_json();
        return if std::fs::write(&out, serde_json::to_string(&v).unwrap()).is_ok() { 0 } else { 2 };
    }
    std::thread::scope(|s| {
        for t in 0..cfg.threads {
            let col = &col;
            let env = env.clone();
            s.spawn(move || {
                let mut i = t as u64;
                while col.time_left() && i < max_cases {
                    run_case(&env, col, i, cfg.threads == 1 || t == 0);
                    i += cfg.threads as u64;
                }
            });
        }
    });
    let v = col.to_json();
    if std::fs::write(&out, serde_json::to_string(&v).unwrap()).is_err() {
        return 2;
    }
    0
}

#[derive(Clone, Debug)]
struct Env {
    seed: u64,
    max_iop: u64,
    proc_limit: i32,
    worker: usize,
    selftest: bool,
}

fn rt_current() -> tokio::runtime::Runtime {
    tokio::runtime::Builder::new_current_thread()
        .enable_all()
        .build()
        .expect("runtime")
}

fn run_case(env: &Env, col: &Collector, i: u64, may_stress: bool) {
    let mut rng = Rng::for_case(env.seed, i);
    let kind = rng.below(100);
    if kind < 62 {
        let rt = rt_current();
        rt.block_on(boundary_case(env, col, i, &mut rng));
    } else if kind < 97 || !may_stress {
        let rt = rt_current();
        rt.block_on(progress_case(env, col, i, &mut rng));
    } else {
        stress_case(env, col, i, &mut rng);
    }
}

// -------------------------------------------------------------------------------------------
// file + scheduler set-up
// -------------------------------------------------------------------------------------------

struct Setup {
    gate: Arc<GateStore>,
    data: Bytes,
    path: Path,
    block_size: u64,
    io_par: usize,
    io_buffer: u64,
    known_size: bool,
    store: Arc<ObjectStore>,
}

impl Setup {
    fn describe(&self, env: &Env) -> Value {
        json!({"file_len": self.data.len(), "block_size": self.block_size, "io_parallelism": self.io_par,
               "io_buffer_size": self.io_buffer, "known_size": self.known_size, "max_iop_size": env.max_iop,
               "process_iops_limit": env.proc_limit})
    }
}

async fn make_setup(env: &Env, rng: &mut Rng) -> Setup {
    let m = env.max_iop;
    let file_len: u64 = match rng.below(10) {
        0 => rng.range(1, 64) as u64,
        1..=3 => rng.range(65, 5000) as u64,
        4..=7 => rng.range(5000, 60_000) as u64,
        _ => (rng.range(2, 9) as u64 * m.min(40_000)).max(1000) + rng.below(977),
    };
    let data = Bytes::from(rng.bytes(file_len as usize));
    let block_size: u64 = *rng.pick(&[1u64, 7, 64, 500, 1000, 4096, 65536, 1 << 20]);
    let io_par = *rng.pick(&[1usize, 1, 2, 3, 8, 16]);
    let io_buffer: u64 = *rng.pick(&[1u64, 10, 100, 1000, 20_000, 1 << 20, 256 << 20]);
    let known_size = rng.chance(2, 3);
    let gate = GateStore::new();
    let path = Path::from("dir/file.bin");
    gate.inner
        .put(&path, data.clone().into())
        .await
        .expect("put");
    let store = Arc::new(ObjectStore::new(
        gate.clone(),
        url::Url::parse("memory:///").unwrap(),
        Some(block_size as usize),
        None,
        false,
        true,
        io_par,
        3,
        None,
    ));
    Setup {
        gate,
        data,
        path,
        block_size,
        io_par,
        io_buffer,
        known_size,
        store,
    }
}

async fn open(su: &Setup, base_priority: u64) -> lance_core::Result<(Arc<ScanScheduler>, FileScheduler)> {
    let sched = ScanScheduler::new(
        su.store.clone(),
        SchedulerConfig {
            io_buffer_size_bytes: su.io_buffer,
        },
    );
    let size = if su.known_size {
        CachedFileSize::new(su.data.len() as u64)
    } else {
        CachedFileSize::unknown()
    };
    let fs = sched
        .open_file_with_priority(&su.path, base_priority, &size)
        .await?;
    Ok((sched, fs))
}

// -------------------------------------------------------------------------------------------
// range list generation and shape analysis
// -------------------------------------------------------------------------------------------

#[derive(Clone, Copy, Debug, PartialEq, Eq)]
enum Profile {
    SortedDisjoint,
    Adjacent,
    Overlapping,
    Mixed,
    Unsorted,
    WithEmpties,
    AllEmpty,
}

fn gen_len(rng: &mut Rng, file_len: u64, m: u64, allow_empty: bool) -> u64 {
    let l = match rng.below(12) {
        0 if allow_empty => 0,
        0 | 1 => 1,
        2..=5 => rng.range(1, 16) as u64,
        6..=8 => rng.range(1, m.min(file_len).max(1) as i64) as u64,
        9 => m,
        10 => m + rng.range(1, 3 * m.min(20_000) as i64 + 1) as u64,
        _ => rng.range(1, file_len.max(1) as i64) as u64,
    };
    l.min(file_len)
}

fn gen_ranges(rng: &mut Rng, file_len: u64, block: u64, m: u64, profile: Profile) -> Req {
    let n = match rng.below(100) {
        0 => 0,
        1..=14 => 1,
        15..=64 => rng.urange(2, 4),
        65..=94 => rng.urange(5, 12),
        _ => rng.urange(13, 40),
    };
    let mut out: Req = vec![];
    let mut pos: u64 = if rng.chance(1, 4) { 0 } else { rng.below(file_len + 1) };
    for i in 0..n {
        let allow_empty = matches!(profile, Profile::WithEmpties | Profile::Mixed | Profile::AllEmpty);
        let mut len = gen_len(rng, file_len, m, allow_empty);
        if profile == Profile::AllEmpty || (profile == Profile::WithEmpties && rng.chance(1, 3)) {
            len = 0;
        }
        // relation to the previous range
        let prev = out.last().cloned();
        let rel = match profile {
            Profile::SortedDisjoint => *rng.pick(&["near", "far", "far"]),
            Profile::Adjacent => *rng.pick(&["adjacent", "adjacent", "near"]),
            Profile::Overlapping => *rng.pick(&["overlap", "contained", "dup", "near", "adjacent"]),
            Profile::Unsorted => *rng.pick(&["before", "far", "near", "overlap", "any"]),
            _ => *rng.pick(&["near", "far", "adjacent", "overlap", "contained", "dup", "any"]),
        };
        let start = match (&prev, rel) {
            (None, _) => pos,
            (Some(p), "adjacent") => p.end,
            (Some(p), "near") => p.end + rng.below(block.min(5000) + 1),
            (Some(p), "far") => p.end + block + 1 + rng.below(20_000),
            (Some(p), "overlap") => {
                if p.end > p.start {
                    p.start + rng.below(p.end - p.start)
                } else {
                    p.start
                }
            }
            (Some(p), "contained") => {
                if p.end > p.start {
                    let s = p.start + rng.below(p.end - p.start);
                    len = len.min(p.end - s);
                    s
                } else {
                    p.start
                }
            }
            (Some(p), "dup") => {
                len = p.end - p.start;
                p.start
            }
            (Some(p), "before") => rng.below(p.start + 1),
            _ => rng.below(file_len + 1),
        };
        let start = start.min(file_len);
        let end = (start + len).min(file_len);
        if !allow_empty && end == start {
            break;
        }
        out.push(start..end);
        pos = end;
        let _ = i;
    }
    if profile == Profile::Unsorted && out.len() > 1 && rng.chance(1, 2) {
        rng.shuffle(&mut out);
    }
    out
}

#[derive(Clone, Debug, Default)]
struct Shape {
    n: usize,
    has_empty: bool,
    unsorted: bool,
    overlapping: bool,
    contained: bool,
    dup: bool,
    adjacent: bool,
    near: bool,
    far: bool,
    needs_split: bool,
    empty_at_eof: bool,
    unsorted_only_by_empties: bool,
    sig: u64,
}

fn analyze(req: &Req, block: u64, m: u64, file_len: u64) -> Shape {
    let mut s = Shape {
        n: req.len(),
        ..Default::default()
    };
    let mut code: Vec<u8> = vec![];
    let mut max_end = 0u64;
    let mut run_start = 0u64; // start of the current coalesced run (sorted view)
    for (i, r) in req.iter().enumerate() {
        let len = r.end - r.start;
        let size_class = if len == 0 {
            s.has_empty = true;
            if r.start == file_len {
                s.empty_at_eof = true;
            }
            0
        } else if len <= m {
            1
        } else {
            s.needs_split = true;
            2
        };
        code.push(size_class);
        if i > 0 {
            let p = &req[i - 1];
            let rel = if r.start < p.start {
                s.unsorted = true;
                7
            } else if r.start == p.start && r.end == p.end {
                s.dup = true;
                1
            } else if r.start < max_end && r.end <= max_end {
                s.contained = true;
                2
            } else if r.start < max_end {
                s.overlapping = true;
                3
            } else if r.start == max_end {
                s.adjacent = true;
                4
            } else if r.start <= max_end + block {
                s.near = true;
                5
            } else {
                s.far = true;
                6
            };
            code.push(10 + rel);
            if rel == 6 || rel == 7 {
                run_start = r.start;
            }
        } else {
            run_start = r.start;
        }
        max_end = max_end.max(r.end);
        if max_end - run_start.min(max_end) > m {
            s.needs_split = true;
        }
    }
    s.needs_split = s.needs_split || run_needs_split(req, block, m);
    code.push(if s.needs_split { 99 } else { 98 });
    s.sig = fnv(&code);
    if s.unsorted && s.has_empty {
        let mut last = 0u64;
        let mut sorted = true;
        for r in req.iter().filter(|r| r.end > r.start) {
            if r.start < last {
                sorted = false;
            }
            last = r.start;
        }
        s.unsorted_only_by_empties = sorted;
    }
    s
}

/// Does the coalescing pass (sequential merge of ranges whose start is within `block` of the current
/// run's end) produce a run longer than the maximum request size? Only used to *name* shapes.
fn run_needs_split(req: &Req, block: u64, m: u64) -> bool {
    let mut it = req.iter();
    let Some(first) = it.next() else { return false };
    let mut cur = first.clone();
    let mut split = false;
    for r in it {
        if r.start <= cur.end + block {
            cur.end = cur.end.max(r.end);
        } else {
            split |= cur.end.saturating_sub(cur.start) > m;
            cur = r.clone();
        }
    }
    split | (cur.end.saturating_sub(cur.start) > m)
}

/// Narrow class of a (minimised) failing list, by precedence:
///  1. `unsorted-ranges`: some non-empty range starts before the start of an earlier range;
///  2. `overlapping-ranges-after-split`: ascending, some range overlaps / is contained in / equals an
///     earlier one and the coalesced run exceeds the maximum request size;
///  3. `empty-range-out-of-order`: only empty ranges are out of order (what the legacy blob decoder
///     submits for null blobs: `1..1` between real positions); `empty-range`: ascending with empties;
///  4. `overlapping-ranges`, `sorted-disjoint-ranges[-after-split]`.
fn nonempty_out_of_order(req: &Req) -> bool {
    let mut max_start = 0u64;
    for r in req {
        if r.end > r.start && r.start < max_start {
            return true;
        }
        max_start = max_start.max(r.start);
    }
    false
}

fn class_of(req: &Req, block: u64, m: u64, file_len: u64) -> String {
    let s = analyze(req, block, m, file_len);
    if nonempty_out_of_order(req) {
        return "unsorted-ranges".to_string();
    }
    let split = run_needs_split(req, block, m);
    // overlap among the non-empty ranges (they are ascending here)
    let mut max_end = 0u64;
    let mut overlap = false;
    for r in req.iter().filter(|r| r.end > r.start) {
        if r.start < max_end {
            overlap = true;
        }
        max_end = max_end.max(r.end);
    }
    if overlap && split {
        return "overlapping-ranges-after-split".to_string();
    }
    if s.has_empty {
        return if s.unsorted {
            "empty-range-out-of-order".to_string()
        } else {
            "empty-range".to_string()
        };
    }
    match (overlap, split) {
        (true, _) => "overlapping-ranges".to_string(),
        (false, true) => "sorted-disjoint-ranges-after-split".to_string(),
        (false, false) => "sorted-disjoint-ranges".to_string(),
    }
}

// -------------------------------------------------------------------------------------------
// boundary oracle
// -------------------------------------------------------------------------------------------

#[derive(Clone, Debug, PartialEq)]
enum Symptom {
    Ok,
    Fewer(usize),
    More(usize),
    WrongBytes(usize),
    Panic(String),
    Error(String),
    Hang,
}

impl Symptom {
    fn name(&self) -> &'static str {
        match self {
            Symptom::Ok => "ok",
            Symptom::Fewer(_) => "fewer-buffers",
            Symptom::More(_) => "more-buffers",
            Symptom::WrongBytes(_) => "wrong-bytes",
            Symptom::Panic(_) => "panic",
            Symptom::Error(_) => "error",
            Symptom::Hang => "hang",
        }
    }
}

#[derive(Clone)]
enum Via {
    File(FileScheduler),
    Enc(Arc<LanceEncodingsIo>, u64),
}

impl Via {
    fn name(&self) -> &'static str {
        match self {
            Via::File(_) => "",
            Via::Enc(..) => "-via-encodings-io",
        }
    }
    fn submit(&self, req: Req, prio: u64) -> BoxFuture<'static, lance_core::Result<Vec<Bytes>>> {
        match self {
            Via::File(f) => f.submit_request(req, prio).boxed(),
            Via::Enc(e, _) => e.submit_request(req, prio),
        }
    }
}

fn panic_msg(p: Box<dyn std::any::Any + Send>) -> String {
    if let Some(s) = p.downcast_ref::<&str>() {
        s.to_string()
    } else if let Some(s) = p.downcast_ref::<String>() {
        s.clone()
    } else {
        "?".into()
    }
}

/// The data oracle: exactly one buffer per range, in order, equal to the slice.
fn judge(data: &Bytes, req: &Req, got: &[Bytes]) -> Symptom {
    if got.len() < req.len() {
        return Symptom::Fewer(got.len());
    }
    if got.len() > req.len() {
        return Symptom::More(got.len());
    }
    for (i, (r, b)) in req.iter().zip(got.iter()).enumerate() {
        if b.as_ref() != &data[r.start as usize..r.end as usize] {
            return Symptom::WrongBytes(i);
        }
    }
    Symptom::Ok
}

/// Submit one list and await it (ungated store); classify the outcome.
async fn submit_and_judge(via: &Via, data: &Bytes, req: &Req, prio: u64, corrupt: Option<u32>) -> Symptom {
    let fut = match std::panic::catch_unwind(AssertUnwindSafe(|| via.submit(req.clone(), prio))) {
        Ok(f) => f,
        Err(p) => return Symptom::Panic(panic_msg(p)),
    };
    let res = tokio::time::timeout(Duration::from_secs(120), AssertUnwindSafe(fut).catch_unwind()).await;
    match res {
        Err(_) => Symptom::Hang,
        Ok(Err(p)) => Symptom::Panic(panic_msg(p)),
        Ok(Ok(Err(e))) => Symptom::Error(e.to_string().chars().take(160).collect()),
        Ok(Ok(Ok(mut got))) => {
            if let Some(c) = corrupt {
                corrupt_observation(&mut got, c);
            }
            judge(data, req, &got)
        }
    }
}

/// selftest only: damage the observation before it reaches the oracle
fn corrupt_observation(got: &mut Vec<Bytes>, how: u32) {
    match how % 3 {
        0 => {
            if got.pop().is_none() {
                got.push(Bytes::new());
            }
        }
        1 => {
            if got.len() >= 2 && got[0] != got[1] {
                got.swap(0, 1);
            } else {
                got.push(Bytes::new());
            }
        }
        _ => {
            if let Some(i) = got.iter().position(|b| !b.is_empty()) {
                let mut v = got[i].to_vec();
                let k = v.len() / 2;
                v[k] ^= 0x10;
                got[i] = Bytes::from(v);
            } else {
                got.push(Bytes::new());
            }
        }
    }
}

/// Remove ranges one at a time while the same symptom kind persists (1-minimal list).
async fn minimise(via: &Via, data: &Bytes, req: &Req, prio: u64, sym: &Symptom) -> Req {
    let mut cur = req.clone();
    let mut progress = true;
    let mut budget = 300;
    while progress && cur.len() > 1 && budget > 0 {
        progress = false;
        let mut i = 0;
        while i < cur.len() && cur.len() > 1 && budget > 0 {
            let mut cand = cur.clone();
            cand.remove(i);
            budget -= 1;
            let s = submit_and_judge(via, data, &cand, prio, None).await;
            if s.name() == sym.name() {
                cur = cand;
                progress = true;
            } else {
                i += 1;
            }
        }
    }
    cur
}

fn req_json(r: &Req) -> Value {
    json!(r.iter().map(|x| format!("{}..{}", x.start, x.end)).collect::<Vec<_>>())
}

fn count_shape(col: &Collector, s: &Shape) {
    col.count("boundary.lists", 1);
    col.count("boundary.ranges", s.n as u64);
    let mut f = |k: &str, b: bool| {
        if b {
            col.count(&format!("shape.{k}"), 1)
        }
    };
    f("empty_list", s.n == 0);
    f("has_empty_range", s.has_empty);
    f("empty_range_at_eof", s.empty_at_eof);
    f("unsorted", s.unsorted);
    f("unsorted_only_by_empty_ranges", s.unsorted_only_by_empties);
    f("overlapping", s.overlapping);
    f("contained", s.contained);
    f("duplicate", s.dup);
    f("adjacent", s.adjacent);
    f("near_coalesced", s.near);
    f("far_apart", s.far);
    f("needs_split", s.needs_split);
    f("single_range", s.n == 1);
}

async fn boundary_case(env: &Env, col: &Collector, idx: u64, rng: &mut Rng) {
    let su = make_setup(env, rng).await;
    let base_prio = if rng.bool() { 0 } else { rng.below(1000) };
    let (sched, fs) = match open(&su, base_prio).await {
        Ok(x) => x,
        Err(e) => {
            col.harness_error(&format!("open failed: {e}"));
            return;
        }
    };
    let file_len = su.data.len() as u64;
    let n_lists = rng.urange(3, 8);
    for li in 0..n_lists {
        let profile = *rng.pick(&[
            Profile::SortedDisjoint,
            Profile::SortedDisjoint,
            Profile::Adjacent,
            Profile::Overlapping,
            Profile::Mixed,
            Profile::Mixed,
            Profile::Unsorted,
            Profile::WithEmpties,
            Profile::AllEmpty,
        ]);
        let req = gen_ranges(rng, file_len, su.block_size, env.max_iop, profile);
        let via = if rng.chance(1, 3) {
            let chunk = *rng.pick(&[16u64, 100, 1000, 5000, 8 << 20]);
            Via::Enc(
                Arc::new(LanceEncodingsIo::new(fs.clone()).with_read_chunk_size(chunk)),
                chunk,
            )
        } else if rng.chance(1, 4) {
            Via::File(fs.with_priority(rng.below(5)))
        } else {
            Via::File(fs.clone())
        };
        let prio = *rng.pick(&[0u64, 0, 1, 7, u64::MAX]);
        let shape = analyze(&req, su.block_size, env.max_iop, file_len);
        count_shape(col, &shape);
        if matches!(via, Via::Enc(..)) {
            col.count("boundary.via_encodings_io", 1);
        }
        let corrupt = if env.selftest { Some(rng.next_u32()) } else { None };
        let sym = submit_and_judge(&via, &su.data, &req, prio, corrupt).await;
        let nontrivial = shape.n >= 2 || shape.needs_split || shape.has_empty;
        let sig = fnv(format!("b:{}:{}", shape.sig, via.name()).as_bytes());
        col.case(if nontrivial { Some(sig) } else { None });
        col.count("boundary.bytes_compared", req.iter().map(|r| r.end - r.start).sum());
        if sym == Symptom::Ok {
            if col.want_sample() && shape.n >= 3 && li == 0 {
                col.sample(json!({"leg": "boundary", "case": idx, "setup": su.describe(env), "ranges": req_json(&req),
                    "via": via.name(), "outcome": "one buffer per range, bytes equal"}));
            }
            continue;
        }
        // since /repo batch 3 the scheduler accepts ranges in any order: no list is a rejected input any
        // more, an error for any list is a refuting observation
        if sym == Symptom::Hang {
            col.inconclusive(&format!("boundary case {idx}: 120 s watchdog on an ungated store, ranges {:?}", req));
            continue;
        }
        // a refuting observation: minimise and classify
        let min = if env.selftest {
            req.clone()
        } else {
            minimise(&via, &su.data, &req, prio, &sym).await
        };
        let min_sym = if env.selftest {
            sym.clone()
        } else {
            submit_and_judge(&via, &su.data, &min, prio, None).await
        };
        let class = class_of(&min, su.block_size, env.max_iop, file_len);
        // wrong bytes can be manufactured by LanceEncodingsIo's reassembly from a short reply of the
        // file scheduler, so that symptom keeps the path in its name; the others do not
        let sorted_list_rejected_via_chunking = matches!(via, Via::Enc(..))
            && !nonempty_out_of_order(&min)
            && matches!(&min_sym, Symptom::Error(m) if m.contains("must be sorted by start offset"));
        let signature = if sorted_list_rejected_via_chunking {
            // LanceEncodingsIo cuts every range into read_chunk_size pieces; the pieces of an
            // overlapping later range start before the last piece of the earlier one, and the file
            // scheduler now rejects that list
            "sorted-overlapping-list-rejected-after-encodings-io-chunking".to_string()
        } else if matches!(sym, Symptom::WrongBytes(_)) && matches!(via, Via::Enc(..)) {
            format!("wrong-bytes-via-encodings-io-{class}")
        } else {
            format!("{}-{}", sym.name(), class)
        };
        col.violation(
            &signature,
            &format!(
                "submit_request({:?}) -> {:?} (expected {} buffers equal to the file slices)",
                min,
                min_sym,
                min.len()
            ),
            json!({"leg": "boundary", "seed": env.seed as i64, "worker": env.worker, "case": idx, "list_index": li,
                "setup": su.describe(env), "via": via.name(),
                "read_chunk_size": match &via { Via::Enc(_, c) => json!(c), _ => Value::Null },
                "priority": prio.to_string(), "base_priority": base_prio,
                "ranges": req_json(&req), "observed": format!("{sym:?}"),
                "minimal_ranges": req_json(&min), "minimal_observed": format!("{min_sym:?}"),
                "expected": "exactly one Bytes per range, in request order, equal to file[range]"}),
        );
    }
    drop(fs);
    drop(sched);
    drain(10).await;
}

/// let spawned tasks (io loop, io tasks) finish
async fn drain(max_rounds: usize) -> usize {
    let h = tokio::runtime::Handle::current();
    let mut alive = h.metrics().num_alive_tasks();
    for _ in 0..max_rounds {
        if alive == 0 {
            break;
        }
        tokio::task::yield_now().await;
        alive = h.metrics().num_alive_tasks();
    }
    alive
}

// -------------------------------------------------------------------------------------------
// progress leg
// -------------------------------------------------------------------------------------------

/// well-formed list: sorted, non-empty ranges, non-overlapping (keeps the progress leg clear of the
/// boundary defects so that a data mismatch here means something else)
fn gen_clean_ranges(rng: &mut Rng, file_len: u64, block: u64, m: u64) -> Req {
    let n = rng.urange(1, 5);
    let mut out = vec![];
    let mut pos = rng.below(file_len / 2 + 1);
    for _ in 0..n {
        let gap = match rng.below(3) {
            0 => 0,
            1 => rng.below(block.min(3000) + 1),
            _ => block + 1 + rng.below(10_000),
        };
        let start = pos + gap;
        if start >= file_len {
            break;
        }
        let len = match rng.below(6) {
            0 => 1,
            1..=3 => rng.range(1, 64) as u64,
            4 => rng.range(1, m.min(30_000) as i64) as u64,
            _ => m + rng.range(1, m.min(10_000) as i64 + 1) as u64,
        };
        let end = (start + len).min(file_len);
        out.push(start..end);
        pos = end;
    }
    if out.is_empty() {
        out.push(0..file_len.min(10).max(1));
    }
    out
}

#[derive(Clone, Copy, Debug, PartialEq, Eq)]
enum Strat {
    Uniform,
    Fifo,
    Lifo,
    HighestOffsetFirst,
    StarveOldest,
}

enum Slot {
    NotSubmitted,
    Pending {
        fut: BoxFuture<'static, lance_core::Result<Vec<Bytes>>>,
        stall: usize,
        submitted_at: usize,
    },
    Resolved,
    Dropped,
}

struct ReqPlan {
    ranges: Req,
    prio: u64,
    via_enc: bool,
    stall: usize,
    drop_at: Option<usize>,
    sched: usize,
}

fn intersects(parked: &Option<Range<u64>>, req: &Req) -> bool {
    match parked {
        None => true,
        Some(p) => req.iter().any(|r| r.start < p.end && p.start < r.end),
    }
}

/// yield until nothing moves any more (current-thread runtime: deterministic, no wall clock)
async fn settle(gate: &GateStore, mon: &Arc<Mutex<Monitor>>) -> bool {
    let h = tokio::runtime::Handle::current();
    let fp = |g: &GateStore| {
        (
            g.n_parked(),
            g.n_arrived(),
            mon.lock().unwrap().events,
            h.metrics().num_alive_tasks(),
        )
    };
    let mut last = fp(gate);
    let mut stable = 0;
    for _ in 0..2000 {
        tokio::task::yield_now().await;
        let cur = fp(gate);
        if cur == last {
            stable += 1;
            if stable >= 4 {
                return true;
            }
        } else {
            stable = 0;
            last = cur;
        }
    }
    false
}

async fn progress_case(env: &Env, col: &Collector, idx: u64, rng: &mut Rng) {
    let mon = Monitor::new();
    qmon::attach(Some(mon.clone()));
    progress_case_inner(env, col, idx, rng, &mon).await;
    qmon::attach(None);
}

async fn progress_case_inner(env: &Env, col: &Collector, idx: u64, rng: &mut Rng, mon: &Arc<Mutex<Monitor>>) {
    let mut su = make_setup(env, rng).await;
    // more pressure than in the boundary leg
    su.io_buffer = *rng.pick(&[1u64, 1, 10, 100, 1000, 20_000, 256 << 20]);
    let file_len = su.data.len() as u64;
    let two_scheds = env.proc_limit > 0 && env.proc_limit < 16 && rng.bool();
    let n_scheds = if two_scheds { 2 } else { 1 };
    let mut scheds: Vec<Option<Arc<ScanScheduler>>> = vec![];
    let mut files: Vec<Option<FileScheduler>> = vec![];
    for _ in 0..n_scheds {
        match open(&su, rng.below(3)).await {
            Ok((s, f)) => {
                scheds.push(Some(s));
                files.push(Some(f));
            }
            Err(e) => {
                col.harness_error(&format!("open failed: {e}"));
                return;
            }
        }
    }
    su.gate.set_mode(Mode::Gated);

    let n_req = rng.urange(1, 7);
    let prio_mode = rng.below(4);
    let want_drop_sched = rng.chance(1, 6);
    let want_drop_fut = rng.chance(1, 6);
    let want_perm_fail = rng.chance(1, 8);
    let fail_p = if rng.chance(1, 4) { 5 } else { 0 }; // transient failure probability (of 20)
    let strat = *rng.pick(&[
        Strat::Uniform,
        Strat::Uniform,
        Strat::Fifo,
        Strat::Lifo,
        Strat::HighestOffsetFirst,
        Strat::StarveOldest,
    ]);
    let mut plans: Vec<ReqPlan> = (0..n_req)
        .map(|k| ReqPlan {
            ranges: gen_clean_ranges(rng, file_len, su.block_size, env.max_iop),
            prio: match prio_mode {
                0 => 0,
                1 => k as u64,
                2 => (n_req - k) as u64,
                _ => rng.below(4),
            },
            via_enc: rng.chance(1, 4),
            stall: if rng.chance(1, 3) { rng.urange(1, 6) } else { 0 },
            drop_at: None,
            sched: rng.usize_below(n_scheds),
        })
        .collect();
    if want_drop_fut {
        let k = rng.usize_below(n_req);
        plans[k].drop_at = Some(rng.urange(0, 4));
    }
    let mut perm_failed: Vec<Range<u64>> = vec![];
    if want_perm_fail {
        let k = rng.usize_below(n_req);
        let r = plans[k].ranges[0].clone();
        let at = r.start + rng.below((r.end - r.start).max(1));
        perm_failed.push(at..at + 1);
        su.gate.always_fail(at..at + 1);
    }
    let drop_sched_step = if want_drop_sched { Some(rng.urange(1, 8)) } else { None };

    let mut slots: Vec<Slot> = (0..n_req).map(|_| Slot::NotSubmitted).collect();
    let mut sched_dropped = false;
    let mut futs_dropped = 0usize;
    let mut actions: Vec<String> = vec![];
    let mut max_parked = 0usize;
    let mut stuck: Option<String> = None;
    let mut step = 0usize;
    let mut resolve_latency_max = 0usize;
    let mut last_release_step = 0usize;
    let mut unstable = false;
    let mut aborted = false;
    let mut transient_fails: Vec<(u64, u64)> = vec![];
    let starve_id: u64 = 0;
    let corrupt_hold = env.selftest; // selftest: never release read 0 => must be reported as stuck

    'outer: loop {
        step += 1;
        if step > 20_000 {
            col.inconclusive(&format!("progress case {idx}: step limit"));
            aborted = true;
            break;
        }
        // 1. settle + consume until fixpoint
        loop {
            if !settle(&su.gate, mon).await {
                unstable = true;
            }
            let mut any = false;
            for k in 0..n_req {
                let mut done: Option<std::thread::Result<lance_core::Result<Vec<Bytes>>>> = None;
                if let Slot::Pending { fut, stall, .. } = &mut slots[k] {
                    if *stall == 0 {
                        let r = futures::poll!(AssertUnwindSafe(fut.as_mut()).catch_unwind());
                        if let std::task::Poll::Ready(r) = r {
                            done = Some(r);
                        }
                    }
                }
                if let Some(r) = done {
                    any = true;
                    let submitted_at = match &slots[k] {
                        Slot::Pending { submitted_at, .. } => *submitted_at,
                        _ => 0,
                    };
                    slots[k] = Slot::Resolved;
                    resolve_latency_max = resolve_latency_max.max(step - submitted_at);
                    col.count("progress.requests_resolved", 1);
                    let p = &plans[k];
                    let witness = |obs: String| {
                        json!({"leg": "progress", "seed": env.seed as i64, "worker": env.worker, "case": idx,
                        "setup": su.describe(env), "request": k, "ranges": req_json(&p.ranges), "priority": p.prio,
                        "via_encodings_io": p.via_enc, "observed": obs, "actions": actions,
                        "scheduler_dropped": sched_dropped, "permanently_failing_reads": format!("{perm_failed:?}")})
                    };
                    match r {
                        Err(pn) => col.violation(
                            "panic-in-request-future-under-gated-completion",
                            "request future panicked",
                            witness(panic_msg(pn)),
                        ),
                        Ok(Ok(bufs)) => {
                            col.count("progress.bytes_compared", bufs.iter().map(|b| b.len() as u64).sum());
                            let s = judge(&su.data, &p.ranges, &bufs);
                            if s != Symptom::Ok {
                                col.violation(
                                    &format!("{}-under-gated-completion-order", s.name()),
                                    "well-formed request returned wrong data under a controlled completion order",
                                    witness(format!("{s:?}")),
                                );
                            }
                            if perm_failed.iter().any(|f| intersects(&Some(f.clone()), &p.ranges)) {
                                col.violation(
                                    "ok-despite-permanently-failing-read",
                                    "request covering a permanently failing byte returned Ok",
                                    witness("Ok".into()),
                                );
                            }
                        }
                        Ok(Err(e)) => {
                            col.count("progress.requests_resolved_err", 1);
                            let excusable = sched_dropped || !perm_failed.is_empty();
                            if !excusable {
                                col.violation(
                                    "unexpected-error-under-gated-completion-order",
                                    "request failed although no read failed permanently and the scheduler is alive",
                                    witness(e.to_string()),
                                );
                            }
                        }
                    }
                }
            }
            if !any {
                break;
            }
        }
        let parked = su.gate.parked();
        max_parked = max_parked.max(parked.len());
        // 2. done?
        let outstanding: Vec<usize> = (0..n_req)
            .filter(|k| matches!(slots[*k], Slot::Pending { .. }))
            .collect();
        let unsubmitted: Vec<usize> = (0..n_req)
            .filter(|k| matches!(slots[*k], Slot::NotSubmitted))
            .collect();
        if outstanding.is_empty() && (unsubmitted.is_empty() || sched_dropped) {
            break;
        }
        // 3. planned drops
        if let Some(ds) = drop_sched_step {
            if !sched_dropped && step >= ds {
                for s in scheds.iter_mut() {
                    *s = None;
                }
                for f in files.iter_mut() {
                    *f = None;
                }
                sched_dropped = true;
                actions.push("drop-scheduler".into());
                col.count("progress.scheduler_drops", 1);
                col.count(&format!("progress.scheduler_drop_with_{}_outstanding", outstanding.len().min(3)), 1);
                continue;
            }
        }
        for k in 0..n_req {
            if let (Slot::Pending { submitted_at, .. }, Some(d)) = (&slots[k], plans[k].drop_at) {
                if step >= submitted_at + d {
                    slots[k] = Slot::Dropped;
                    futs_dropped += 1;
                    actions.push(format!("drop-future-{k}"));
                    col.count("progress.future_drops", 1);
                    continue 'outer;
                }
            }
        }
        // 4. choose an action
        let stalled: Vec<usize> = outstanding
            .iter()
            .copied()
            .filter(|k| matches!(slots[*k], Slot::Pending { stall, .. } if stall > 0))
            .collect();
        let can_submit = !unsubmitted.is_empty() && !sched_dropped;
        let releasable: Vec<_> = parked
            .iter()
            .filter(|p| !(corrupt_hold && p.id == 0))
            .cloned()
            .collect();
        let mut choices: Vec<u8> = vec![];
        if can_submit {
            choices.extend([0, 0]);
        }
        if !releasable.is_empty() {
            choices.extend([1, 1, 1]);
        }
        if !stalled.is_empty() {
            choices.push(2);
        }
        if choices.is_empty() {
            // nothing parked (or selftest hold), nothing to submit, nobody stalled, all outstanding
            // futures were just polled after the runtime drained: bounded progress is violated.
            stuck = Some(format!(
                "outstanding requests {:?} are pending with no parked read, nothing to submit and no stalled consumer",
                outstanding
            ));
            break;
        }
        match *rng.pick(&choices) {
            0 => {
                let k = unsubmitted[0];
                let p = &plans[k];
                let f = files[p.sched].as_ref().unwrap();
                let fut = if p.via_enc {
                    LanceEncodingsIo::new(f.clone())
                        .with_read_chunk_size(*rng.pick(&[100u64, 5000, 8 << 20]))
                        .submit_request(p.ranges.clone(), p.prio)
                } else {
                    f.submit_request(p.ranges.clone(), p.prio).boxed()
                };
                slots[k] = Slot::Pending {
                    fut,
                    stall: p.stall,
                    submitted_at: step,
                };
                actions.push(format!("submit-{k}(p{})", p.prio));
                col.count("progress.requests_submitted", 1);
            }
            1 => {
                let pick = match strat {
                    Strat::Uniform => rng.usize_below(releasable.len()),
                    Strat::Fifo => 0,
                    Strat::Lifo => releasable.len() - 1,
                    Strat::HighestOffsetFirst => releasable
                        .iter()
                        .enumerate()
                        .max_by_key(|(_, p)| p.range.as_ref().map(|r| r.start).unwrap_or(0))
                        .map(|(i, _)| i)
                        .unwrap_or(0),
                    Strat::StarveOldest => {
                        // keep the oldest read parked as long as anything else can be released
                        let others: Vec<usize> = (0..releasable.len())
                            .filter(|i| releasable[*i].id != starve_id)
                            .collect();
                        if others.is_empty() {
                            0
                        } else {
                            others[rng.usize_below(others.len())]
                        }
                    }
                };
                let p = &releasable[pick];
                // the reader retries a failed get 3 times: at most 3 injected failures per range keep
                // the failure transient
                let key = p.range.as_ref().map(|r| (r.start, r.end)).unwrap_or((u64::MAX, 0));
                let fails_so_far = transient_fails.iter().filter(|k| **k == key).count();
                let fail = !p.head && fails_so_far < 3 && rng.below(20) < fail_p;
                if fail {
                    transient_fails.push(key);
                }
                su.gate
                    .release(p.id, if fail { Verdict::Fail } else { Verdict::Proceed });
                last_release_step = step;
                actions.push(format!(
                    "release-r{}{}",
                    p.id,
                    if fail { "-fail" } else { "" }
                ));
                col.count("progress.reads_released", 1);
                if fail {
                    col.count("progress.transient_read_failures", 1);
                }
            }
            _ => {
                actions.push("tick".into());
            }
        }
        for k in 0..n_req {
            if let Slot::Pending { stall, .. } = &mut slots[k] {
                if *stall > 0 {
                    *stall -= 1;
                }
            }
        }
    }

    // ---- verdicts of the case
    let rel = su.gate.released_order();
    let fifo = rel.windows(2).all(|w| w[0] < w[1]);
    let ms = mon.lock().unwrap().all_states();
    let backpressure: u64 = ms.iter().map(|q| q.backpressure_events).sum();
    let bypass: u64 = ms.iter().map(|q| q.bypass_admits).sum();
    let nontrivial = (max_parked >= 2 && !fifo) || backpressure > 0;
    let kinds: String = actions
        .iter()
        .map(|a| a.split('-').next().unwrap_or("").chars().next().unwrap_or('?'))
        .collect();
    let sig = fnv(format!("p:{rel:?}:{kinds}:{}:{}", su.io_buffer, su.io_par).as_bytes());
    col.case(if nontrivial { Some(sig) } else { None });
    col.count("progress.cases", 1);
    col.count("progress.steps", step as u64);
    col.max("progress.parked_at_once", max_parked as u64);
    col.max("progress.steps_submit_to_resolve", resolve_latency_max as u64);
    col.count(if fifo { "progress.release_order_fifo" } else { "progress.release_order_permuted" }, 1);
    col.count(&format!("progress.strategy.{strat:?}"), 1);
    col.count("progress.hook_events", mon.lock().unwrap().events);
    col.count("progress.backpressure_events", backpressure);
    col.count("progress.priority_bypass_admits", bypass);
    if n_scheds == 2 {
        col.count("progress.two_schedulers_sharing_process_quota", 1);
    }
    if unstable {
        col.inconclusive(&format!("progress case {idx}: runtime did not settle within 2000 yields"));
    }
    let class = format!(
        "{}{}{}",
        if futs_dropped > 0 { "-after-dropped-future" } else { "" },
        if sched_dropped { "-after-scheduler-drop" } else { "" },
        if !perm_failed.is_empty() { "-with-failing-read" } else { "" }
    );
    let base_witness = json!({"leg": "progress", "seed": env.seed as i64, "worker": env.worker, "case": idx,
        "setup": su.describe(env), "schedulers": n_scheds, "strategy": format!("{strat:?}"),
        "requests": plans.iter().map(|p| json!({"ranges": req_json(&p.ranges), "priority": p.prio, "via_encodings_io": p.via_enc,
            "consumer_stall_steps": p.stall, "drop_future_after_steps": p.drop_at, "scheduler": p.sched})).collect::<Vec<_>>(),
        "actions": actions, "release_order": rel, "last_release_step": last_release_step, "steps": step,
        "queue_states": ms.iter().map(|q| format!("{:?}", q.last)).collect::<Vec<_>>()});
    if let Some(why) = &stuck {
        if env.selftest {
            col.count("selftest.stuck_detected", 1);
        } else {
            // narrow class: a future was dropped before it resolved and the queue still carries its
            // priority / byte reservation although no read is running or parked (hook H1)
            let leaked = futs_dropped > 0
                && ms.iter().any(|q| !q.closed && q.last.in_flight > 0 && q.last.iops_avail == q.cap0);
            let sig = if leaked {
                "request-starved-by-budget-of-dropped-future".to_string()
            } else {
                format!("request-never-completes{class}")
            };
            col.violation(&sig, why, base_witness.clone());
        }
    } else if env.selftest {
        col.count("selftest.stuck_missed", 1);
    }
    // H1 monitor: online errors + conservation at quiescence
    {
        let m = mon.lock().unwrap();
        for (s, d) in &m.errors {
            let mut w = base_witness.clone();
            w["hook_detail"] = json!(d);
            col.violation(&format!("queue-monitor-{s}"), "I/O queue state invariant broken (hook H1)", w);
        }
        if stuck.is_none() && futs_dropped == 0 && !sched_dropped && !env.selftest && !aborted {
            for (s, d) in m.check_quiescent() {
                let mut w = base_witness.clone();
                w["hook_detail"] = json!(d);
                col.violation(&format!("queue-monitor-{s}"), "I/O budget not restored after all requests were consumed (hook H1)", w);
            }
            col.count("progress.conservation_checked", 1);
        }
    }
    if col.want_sample() && nontrivial && step > 6 {
        col.sample(json!({"leg": "progress", "case": idx, "setup": su.describe(env), "strategy": format!("{strat:?}"),
            "requests": plans.iter().map(|p| json!({"ranges": req_json(&p.ranges), "priority": p.prio})).collect::<Vec<_>>(),
            "actions": actions, "release_order": rel, "max_parked": max_parked, "backpressure_events": backpressure}));
    }
    // ---- tear down: release everything so no io task (and process-wide iops permit) leaks
    slots.clear();
    scheds.clear();
    files.clear();
    su.gate.set_mode(Mode::Pass);
    for _ in 0..50 {
        su.gate.release_all();
        if drain(20).await == 0 {
            break;
        }
    }
    let alive = drain(50).await;
    if alive > 0 {
        col.count("progress.tasks_alive_after_teardown", alive as u64);
    }
}

// -------------------------------------------------------------------------------------------
// stress leg (multi-thread runtime)
// -------------------------------------------------------------------------------------------

fn stress_case(env: &Env, col: &Collector, idx: u64, rng: &mut Rng) {
    let mon = Monitor::new();
    let m2 = mon.clone();
    let rt = tokio::runtime::Builder::new_multi_thread()
        .worker_threads(rng.urange(2, 4))
        .enable_all()
        .on_thread_start(move || qmon::attach(Some(m2.clone())))
        .build()
        .expect("runtime");
    qmon::attach(Some(mon.clone()));
    let seed = rng.next_u64();
    let env2 = env.clone();
    let out = rt.block_on(async move {
        let mut rng = Rng::new(seed);
        tokio::time::timeout(Duration::from_secs(180), stress_inner(&env2, idx, &mut rng)).await
    });
    qmon::attach(None);
    match out {
        Err(_) => {
            col.inconclusive(&format!("stress case {idx}: 180 s wall-clock watchdog fired (possible hang; not decidable here)"));
            col.count("stress.watchdog", 1);
            rt.shutdown_background();
            return;
        }
        Ok(mut r) => {
            let ms = mon.lock().unwrap().all_states();
            let backpressure: u64 = ms.iter().map(|q| q.backpressure_events).sum();
            let nontrivial = backpressure > 0 || r.submitters > 1;
            let sig = fnv(format!("s:{}:{}:{}:{}:{}", r.submitters, r.requests, r.io_buffer, r.io_par, backpressure.min(50)).as_bytes());
            col.case(if nontrivial { Some(sig) } else { None });
            col.count("stress.cases", 1);
            col.count("stress.requests", r.requests as u64);
            col.count("stress.bytes_compared", r.bytes);
            col.count("stress.backpressure_events", backpressure);
            col.count("stress.hook_events", mon.lock().unwrap().events);
            col.count("stress.priority_bypass_admits", ms.iter().map(|q| q.bypass_admits).sum());
            for (s, w) in r.violations {
                col.violation(&s, "stress leg: wrong data or error on a well-formed request", w);
            }
            let m = mon.lock().unwrap();
            for (s, d) in &m.errors {
                col.violation(
                    &format!("queue-monitor-{s}"),
                    "I/O queue state invariant broken (hook H1, multi-thread stress)",
                    json!({"leg": "stress", "seed": env.seed as i64, "worker": env.worker, "case": idx, "hook_detail": d}),
                );
            }
            if r.all_consumed {
                for (s, d) in m.check_quiescent() {
                    col.violation(
                        &format!("queue-monitor-{s}"),
                        "I/O budget not restored after all requests were consumed (hook H1, stress)",
                        json!({"leg": "stress", "seed": env.seed as i64, "worker": env.worker, "case": idx, "hook_detail": d}),
                    );
                }
            }
            drop(m);
            r.keep = None;
            if col.want_sample() && backpressure > 0 {
                col.sample(json!({"leg": "stress", "case": idx, "submitters": r.submitters, "requests": r.requests,
                    "io_buffer_size": r.io_buffer, "io_parallelism": r.io_par, "backpressure_events": backpressure}));
            }
        }
    }
    drop(rt);
}

struct StressOut {
    submitters: usize,
    requests: usize,
    bytes: u64,
    io_buffer: u64,
    io_par: usize,
    violations: Vec<(String, Value)>,
    all_consumed: bool,
    /// the queue must stay open until the monitor was read (closing changes the budget fields)
    keep: Option<(Arc<ScanScheduler>, FileScheduler)>,
}

async fn stress_inner(env: &Env, idx: u64, rng: &mut Rng) -> StressOut {
    let mut su = make_setup(env, rng).await;
    su.io_buffer = *rng.pick(&[1u64, 64, 1000, 20_000, 256 << 20]);
    let (sched, fs) = open(&su, 0).await.expect("open");
    su.gate.set_jitter_seed(rng.next_u64());
    su.gate.set_mode(Mode::Jitter);
    let file_len = su.data.len() as u64;
    let submitters = rng.urange(1, 6);
    let mut handles = vec![];
    let viol: Arc<Mutex<Vec<(String, Value)>>> = Arc::new(Mutex::new(vec![]));
    let mut total_reqs = 0;
    for s in 0..submitters {
        let n = rng.urange(3, 30);
        total_reqs += n;
        let sequential = rng.bool();
        let mut reqs: Vec<(Req, u64, u64)> = (0..n)
            .map(|k| {
                (
                    gen_clean_ranges(rng, file_len, su.block_size, env.max_iop),
                    if sequential { k as u64 / 2 } else { rng.below(6) },
                    rng.below(600),
                )
            })
            .collect();
        if sequential {
            reqs.sort_by_key(|r| r.1);
        }
        let fs = fs.with_priority(rng.below(2));
        let data = su.data.clone();
        let viol = viol.clone();
        let setup = su.describe(env);
        let seed = env.seed;
        handles.push(tokio::spawn(async move {
            let mut bytes = 0u64;
            let check = |req: &Req, res: lance_core::Result<Vec<Bytes>>| -> u64 {
                match res {
                    Ok(bufs) => {
                        let sy = judge(&data, req, &bufs);
                        if sy != Symptom::Ok {
                            viol.lock().unwrap().push((
                                format!("{}-under-multithread-stress", sy.name()),
                                json!({"leg": "stress", "seed": seed as i64, "case": idx, "submitter": s, "setup": setup,
                                    "ranges": req_json(req), "observed": format!("{sy:?}")}),
                            ));
                        }
                        bufs.iter().map(|b| b.len() as u64).sum()
                    }
                    Err(e) => {
                        viol.lock().unwrap().push((
                            "unexpected-error-under-multithread-stress".into(),
                            json!({"leg": "stress", "seed": seed as i64, "case": idx, "submitter": s, "setup": setup,
                                "ranges": req_json(req), "observed": e.to_string()}),
                        ));
                        0
                    }
                }
            };
            if sequential {
                // submit everything, then consume in ascending priority order with delays
                let futs: Vec<_> = reqs
                    .iter()
                    .map(|(r, p, _)| fs.submit_request(r.clone(), *p).boxed())
                    .collect();
                for (f, (r, _, delay)) in futs.into_iter().zip(reqs.iter()) {
                    if *delay < 200 {
                        tokio::time::sleep(Duration::from_micros(*delay)).await;
                    } else if *delay < 400 {
                        tokio::task::yield_now().await;
                    }
                    bytes += check(r, f.await);
                }
            } else {
                // poll everything, consume whatever completes, with delays in between
                let mut fu = FuturesUnordered::new();
                for (k, (r, p, _)) in reqs.iter().enumerate() {
                    let f = fs.submit_request(r.clone(), *p);
                    fu.push(async move { (k, f.await) });
                    if k % 3 == 0 {
                        tokio::task::yield_now().await;
                    }
                }
                while let Some((k, res)) = fu.next().await {
                    bytes += check(&reqs[k].0, res);
                    let d = reqs[k].2;
                    if d < 150 {
                        tokio::time::sleep(Duration::from_micros(d)).await;
                    }
                }
            }
            bytes
        }));
    }
    let mut bytes = 0;
    let mut all_ok = true;
    for h in handles {
        match h.await {
            Ok(b) => bytes += b,
            Err(e) => {
                all_ok = false;
                viol.lock().unwrap().push((
                    "panic-under-multithread-stress".into(),
                    json!({"leg": "stress", "seed": env.seed as i64, "case": idx, "observed": e.to_string()}),
                ));
            }
        }
    }
    // conservation is judged before the scheduler is closed
    let out = StressOut {
        submitters,
        requests: total_reqs,
        bytes,
        io_buffer: su.io_buffer,
        io_par: su.io_par,
        violations: std::mem::take(&mut *viol.lock().unwrap()),
        all_consumed: all_ok,
        keep: Some((sched, fs)),
    };
    // let the io tasks finish before the queue state is read by the caller
    let h = tokio::runtime::Handle::current();
    for _ in 0..200 {
        if h.metrics().num_alive_tasks() <= 1 {
            break;
        }
        tokio::time::sleep(Duration::from_millis(1)).await;
    }
    out
}

// -------------------------------------------------------------------------------------------
// replay + selftest
// -------------------------------------------------------------------------------------------

fn replay(args: &Args, report: &Report, path: &str) -> i32 {
    // A witness names (seed, worker, case); re-run exactly that case in a worker process with the
    // worker's environment.
    let Ok(txt) = std::fs::read_to_string(path) else {
        report.harness_error("cannot read replay file");
        return report.finish();
    };
    let Ok(v) = serde_json::from_str::<Value>(&txt) else {
        report.harness_error("cannot parse replay file");
        return report.finish();
    };
    let w = &v["witness"];
    let worker = w["worker"].as_u64().unwrap_or(0) as usize;
    let case = w["case"].as_u64().unwrap_or(0);
    let cfgs = worker_cfgs(Tier::Thorough);
    let cfg = cfgs[worker.min(cfgs.len() - 1)];
    let out = format!("/tmp/e_io-c30-replay-{}.json", std::process::id());
    let st = std::process::Command::new(std::env::current_exe().unwrap())
        .arg("C30")
        .arg("--tier")
        .arg(args.tier.name())
        .arg("--seed")
        .arg((v["seed"].as_i64().unwrap_or(args.seed as i64)).to_string())
        .arg("--worker")
        .arg(worker.to_string())
        .arg("--only-case")
        .arg(case.to_string())
        .arg("--out")
        .arg(&out)
        .env("LANCE_MAX_IOP_SIZE", cfg.max_iop.to_string())
        .env("LANCE_PROCESS_IO_THREADS_LIMIT", cfg.proc_limit.to_string())
        .status();
    if let (Ok(_), Ok(txt)) = (st, std::fs::read_to_string(&out)) {
        if let Ok(v) = serde_json::from_str::<Value>(&txt) {
            merge_json(report, &v);
        }
    }
    let _ = std::fs::remove_file(&out);
    report.finish()
}

/// `--selftest 1`: corrupt the observation (drop / swap / flip) before the boundary oracle and hold
/// one read forever in the progress leg; the oracles must flag every such case. Writes no evidence.
fn selftest(args: &Args) -> i32 {
    std::panic::set_hook(Box::new(|_| {}));
    let col = Collector::new(20.0);
    let env = Env {
        seed: args.seed,
        max_iop: std::env::var("LANCE_MAX_IOP_SIZE")
            .ok()
            .and_then(|s| s.parse().ok())
            .unwrap_or(16 * 1024 * 1024),
        proc_limit: 128,
        worker: 0,
        selftest: true,
    };
    let mut boundary_lists = 0u64;
    for i in 0..300u64 {
        let mut rng = Rng::for_case(env.seed, i);
        let rt = rt_current();
        if i % 2 == 0 {
            rt.block_on(boundary_case(&env, &col, i, &mut rng));
        } else {
            rt.block_on(progress_case(&env, &col, i, &mut rng));
        }
    }
    let v = col.to_json();
    let lists = v["counters"]["boundary.lists"].as_u64().unwrap_or(0);
    let flagged: u64 = v["violations"]
        .as_array()
        .map(|a| {
            a.iter()
                .filter(|x| x["witness"]["leg"] == "boundary")
                .map(|x| x["count"].as_u64().unwrap_or(0))
                .sum()
        })
        .unwrap_or(0);
    boundary_lists += lists;
    let stuck_ok = v["counters"]["selftest.stuck_detected"].as_u64().unwrap_or(0);
    let stuck_missed = v["counters"]["selftest.stuck_missed"].as_u64().unwrap_or(0);
    println!(
        "SELFTEST C30 boundary: corrupted lists={boundary_lists} flagged={flagged}; progress: held-read cases flagged={stuck_ok} missed={stuck_missed}"
    );
    // a progress case whose read 0 is a `head`-free, never parked schedule cannot get stuck; allow a few
    if flagged == boundary_lists && stuck_ok > 0 && stuck_missed * 10 <= stuck_ok {
        println!("SELFTEST C30 ok");
        0
    } else {
        println!("SELFTEST C30 FAILED");
        2
    }
}

#[allow(dead_code)]
fn _unused(_: BTreeSet<u8>) {}

/// `--probe "5..5;10..20" [--file-len N] [--block B] [--chunk C]`: run one explicit list through the
/// real scheduler and print what comes back (used to minimise witnesses for the finding files).
fn probe(args: &Args, spec: &str) -> i32 {
    let req: Req = spec
        .split(';')
        .filter(|s| !s.trim().is_empty())
        .map(|s| {
            let (a, b) = s.trim().split_once("..").expect("a..b");
            a.parse::<u64>().unwrap()..b.parse::<u64>().unwrap()
        })
        .collect();
    let file_len: u64 = args.extra.get("file-len").and_then(|s| s.parse().ok()).unwrap_or(100_000);
    let block: usize = args.extra.get("block").and_then(|s| s.parse().ok()).unwrap_or(4096);
    let chunk: Option<u64> = args.extra.get("chunk").and_then(|s| s.parse().ok());
    std::panic::set_hook(Box::new(|_| {}));
    let rt = rt_current();
    rt.block_on(async move {
        let mut rng = Rng::new(args.seed);
        let data = Bytes::from(rng.bytes(file_len as usize));
        let gate = GateStore::new();
        let path = Path::from("dir/file.bin");
        gate.inner.put(&path, data.clone().into()).await.unwrap();
        let store = Arc::new(ObjectStore::new(gate.clone(), url::Url::parse("memory:///").unwrap(), Some(block), None, false, true, 8, 3, None));
        let sched = ScanScheduler::new(store.clone(), SchedulerConfig { io_buffer_size_bytes: 1 << 30 });
        let fs = sched.open_file(&path, &CachedFileSize::new(file_len)).await.unwrap();
        let via = match chunk {
            Some(c) => Via::Enc(Arc::new(LanceEncodingsIo::new(fs.clone()).with_read_chunk_size(c)), c),
            None => Via::File(fs.clone()),
        };
        let sym = submit_and_judge(&via, &data, &req, 0, None).await;
        println!("file_len={file_len} block_size={block} max_iop_size={} via={:?} ranges={:?} -> {:?} (expected {} buffers)",
            store.max_iop_size(), via.name(), req, sym, req.len());
    });
    0
}
