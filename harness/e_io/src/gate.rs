//! Backing object store for the C30 checks: an `InMemory` store whose *reads* (`get_opts`, and
//! therefore `get_range` / `get_ranges` / `head`, which the `object_store` crate implements on top
//! of `get_opts`) can be parked until a controller releases them (idea copied from
//! vmon/src/store.rs, reduced to what the I/O scheduler needs), or delayed by seeded jitter for the
//! multi-thread stress legs.

use async_trait::async_trait;
use futures::stream::BoxStream;
use object_store::memory::InMemory;
use object_store::path::Path;
use object_store::{
    GetOptions, GetRange, GetResult, ListResult, MultipartUpload, ObjectMeta, ObjectStore,
    PutMultipartOptions, PutOptions, PutPayload, PutResult,
};
use std::ops::Range;
use std::sync::atomic::{AtomicU64, Ordering};
use std::sync::{Arc, Mutex};
use tokio::sync::oneshot;

#[derive(Clone, Copy, Debug, PartialEq, Eq)]
pub enum Mode {
    /// reads go straight through
    Pass,
    /// reads park until released
    Gated,
    /// reads are delayed by a few seeded yields / short sleeps
    Jitter,
}

#[derive(Clone, Copy, Debug, PartialEq, Eq)]
pub enum Verdict {
    Proceed,
    /// the read fails with an injected (generic) error
    Fail,
}

pub struct ParkedRead {
    pub id: u64,
    /// None = whole object
    pub range: Option<Range<u64>>,
    pub head: bool,
    tx: oneshot::Sender<Verdict>,
}

#[derive(Clone, Debug)]
pub struct ParkedInfo {
    pub id: u64,
    pub range: Option<Range<u64>>,
    pub head: bool,
}

struct St {
    mode: Mode,
    parked: Vec<ParkedRead>,
    next_id: u64,
    /// ids in release order
    released: Vec<u64>,
    /// ranges that always fail (permanent read failure)
    always_fail: Vec<Range<u64>>,
    jitter_seed: u64,
}

pub struct GateStore {
    pub inner: Arc<InMemory>,
    st: Mutex<St>,
    pub reads: AtomicU64,
    pub bytes_read: AtomicU64,
}

impl std::fmt::Debug for GateStore {
    fn fmt(&self, f: &mut std::fmt::Formatter<'_>) -> std::fmt::Result {
        write!(f, "GateStore")
    }
}
impl std::fmt::Display for GateStore {
    fn fmt(&self, f: &mut std::fmt::Formatter<'_>) -> std::fmt::Result {
        write!(f, "GateStore")
    }
}

fn injected() -> object_store::Error {
    object_store::Error::Generic {
        store: "e_io-gate",
        source: "injected read failure".into(),
    }
}

impl GateStore {
    pub fn new() -> Arc<Self> {
        Arc::new(Self {
            inner: Arc::new(InMemory::new()),
            st: Mutex::new(St {
                mode: Mode::Pass,
                parked: vec![],
                next_id: 0,
                released: vec![],
                always_fail: vec![],
                jitter_seed: 1,
            }),
            reads: AtomicU64::new(0),
            bytes_read: AtomicU64::new(0),
        })
    }
    pub fn set_mode(&self, m: Mode) {
        self.st.lock().unwrap().mode = m;
    }
    pub fn set_jitter_seed(&self, s: u64) {
        self.st.lock().unwrap().jitter_seed = s | 1;
    }
    pub fn always_fail(&self, r: Range<u64>) {
        self.st.lock().unwrap().always_fail.push(r);
    }
    pub fn parked(&self) -> Vec<ParkedInfo> {
        self.st
            .lock()
            .unwrap()
            .parked
            .iter()
            .map(|p| ParkedInfo {
                id: p.id,
                range: p.range.clone(),
                head: p.head,
            })
            .collect()
    }
    pub fn n_parked(&self) -> usize {
        self.st.lock().unwrap().parked.len()
    }
    pub fn n_arrived(&self) -> u64 {
        self.st.lock().unwrap().next_id
    }
    pub fn released_order(&self) -> Vec<u64> {
        self.st.lock().unwrap().released.clone()
    }
    /// Release the parked read with this id. Returns false if it is not parked.
    pub fn release(&self, id: u64, v: Verdict) -> bool {
        let p = {
            let mut g = self.st.lock().unwrap();
            match g.parked.iter().position(|p| p.id == id) {
                Some(i) => {
                    g.released.push(id);
                    Some(g.parked.remove(i))
                }
                None => None,
            }
        };
        match p {
            Some(p) => {
                let _ = p.tx.send(v);
                true
            }
            None => false,
        }
    }
    pub fn release_all(&self) -> usize {
        let ps: Vec<ParkedRead> = {
            let mut g = self.st.lock().unwrap();
            let ps: Vec<ParkedRead> = g.parked.drain(..).collect();
            for p in &ps {
                g.released.push(p.id);
            }
            ps
        };
        let n = ps.len();
        for p in ps {
            let _ = p.tx.send(Verdict::Proceed);
        }
        n
    }
}

fn bounded(r: &Option<GetRange>) -> Option<Range<u64>> {
    match r {
        Some(GetRange::Bounded(b)) => Some(b.start..b.end),
        _ => None,
    }
}

#[async_trait]
impl ObjectStore for GateStore {
    async fn put_opts(
        &self,
        location: &Path,
        payload: PutPayload,
        opts: PutOptions,
    ) -> object_store::Result<PutResult> {
        self.inner.put_opts(location, payload, opts).await
    }
    async fn put_multipart_opts(
        &self,
        location: &Path,
        opts: PutMultipartOptions,
    ) -> object_store::Result<Box<dyn MultipartUpload>> {
        self.inner.put_multipart_opts(location, opts).await
    }
    async fn get_opts(&self, location: &Path, options: GetOptions) -> object_store::Result<GetResult> {
        let range = bounded(&options.range);
        let head = options.head;
        enum Do {
            Pass,
            Park(oneshot::Receiver<Verdict>),
            Jitter(u64),
        }
        let (what, perm_fail) = {
            let mut g = self.st.lock().unwrap();
            let perm_fail = match &range {
                Some(r) => g
                    .always_fail
                    .iter()
                    .any(|f| f.start < r.end && r.start < f.end),
                None => !head && !g.always_fail.is_empty(),
            };
            let what = match g.mode {
                Mode::Pass => Do::Pass,
                Mode::Gated => {
                    let (tx, rx) = oneshot::channel();
                    let id = g.next_id;
                    g.next_id += 1;
                    g.parked.push(ParkedRead {
                        id,
                        range: range.clone(),
                        head,
                        tx,
                    });
                    Do::Park(rx)
                }
                Mode::Jitter => {
                    // xorshift
                    let mut x = g.jitter_seed;
                    x ^= x << 13;
                    x ^= x >> 7;
                    x ^= x << 17;
                    g.jitter_seed = x;
                    g.next_id += 1;
                    Do::Jitter(x)
                }
            };
            (what, perm_fail)
        };
        match what {
            Do::Pass => {}
            Do::Park(rx) => {
                // a dropped controller lets the read proceed
                if let Ok(Verdict::Fail) = rx.await {
                    return Err(injected());
                }
            }
            Do::Jitter(x) => match x % 8 {
                0 => {}
                1..=4 => {
                    for _ in 0..(x >> 8) % 4 {
                        tokio::task::yield_now().await;
                    }
                }
                5 | 6 => tokio::time::sleep(std::time::Duration::from_micros((x >> 8) % 200)).await,
                _ => tokio::time::sleep(std::time::Duration::from_micros((x >> 8) % 2000)).await,
            },
        }
        if perm_fail {
            return Err(injected());
        }
        if !head {
            self.reads.fetch_add(1, Ordering::Relaxed);
            if let Some(r) = &range {
                self.bytes_read.fetch_add(r.end - r.start, Ordering::Relaxed);
            }
        }
        self.inner.get_opts(location, options).await
    }
    async fn delete(&self, location: &Path) -> object_store::Result<()> {
        self.inner.delete(location).await
    }
    fn list(&self, prefix: Option<&Path>) -> BoxStream<'static, object_store::Result<ObjectMeta>> {
        self.inner.list(prefix)
    }
    async fn list_with_delimiter(&self, prefix: Option<&Path>) -> object_store::Result<ListResult> {
        self.inner.list_with_delimiter(prefix).await
    }
    async fn copy(&self, from: &Path, to: &Path) -> object_store::Result<()> {
        self.inner.copy(from, to).await
    }
    async fn copy_if_not_exists(&self, from: &Path, to: &Path) -> object_store::Result<()> {
        self.inner.copy_if_not_exists(from, to).await
    }
}
