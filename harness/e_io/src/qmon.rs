//! Monitor over hook H1 (`lance_io::scheduler::verif_hooks`): budget conservation of the I/O queue.
//!
//! The observer is process global and is invoked under the queue's own mutex on whatever thread
//! changed the state. Each case owns a `Monitor`; threads that belong to the case (the thread that
//! drives a current-thread runtime, or all worker threads of a multi-thread runtime via
//! `on_thread_start`) carry an `Arc` to it in a thread-local, so events are routed to the case that
//! caused them and queue addresses reused by other cases cannot be confused.
//!
//! Checked on every event, with the previous snapshot of the same queue in hand:
//!  * accounting deltas (`admit`: iops-1, bytes-task, pending-1, in_flight+1; `iop_complete`: iops+1;
//!    `bytes_consumed`: bytes+task; `push`: pending+1);
//!  * `iops_avail <= capacity` and `bytes_avail <= initial` while the queue is open;
//!  * an `admit` whose task does not fit `bytes_avail` is legal only with priority <= min in flight;
//!  * nothing is admitted after `close`.
//! At quiescence (asked for by the case): bytes_avail / iops_avail back at their initial values and
//! nothing in flight.

use lance_io::scheduler::verif_hooks::{set_observer, QueueSnapshot};
use std::cell::RefCell;
use std::collections::HashMap;
use std::sync::{Arc, Mutex, Once};

#[derive(Clone, Debug)]
pub struct QState {
    pub cap0: u32,
    pub bytes0: i64,
    pub last: QueueSnapshot,
    pub closed: bool,
    pub events: u64,
    pub admits: u64,
    pub bypass_admits: u64,
    pub admitted_bytes: u64,
    pub consumed_bytes: u64,
    pub max_pending: usize,
    pub min_bytes_avail: i64,
    /// number of events at which a task was waiting although an iop slot was free (back-pressure)
    pub backpressure_events: u64,
}

#[derive(Default)]
pub struct Monitor {
    pub queues: HashMap<usize, QState>,
    pub retired: Vec<QState>,
    /// (signature, detail)
    pub errors: Vec<(String, String)>,
    pub events: u64,
    pub unknown_first_events: u64,
}

impl Monitor {
    pub fn new() -> Arc<Mutex<Self>> {
        Arc::new(Mutex::new(Self::default()))
    }
    fn err(&mut self, sig: &str, detail: String) {
        if self.errors.len() < 8 {
            self.errors.push((sig.to_string(), detail));
        }
    }
    fn on_event(&mut self, s: &QueueSnapshot) {
        self.events += 1;
        let reuse = matches!(self.queues.get(&s.queue_id), Some(q) if q.closed && s.event == "push");
        if reuse {
            let old = self.queues.remove(&s.queue_id).unwrap();
            self.retired.push(old);
        }
        if !self.queues.contains_key(&s.queue_id) {
            if s.event != "push" {
                // a queue created before this monitor was attached; cannot be judged
                self.unknown_first_events += 1;
                return;
            }
            self.queues.insert(
                s.queue_id,
                QState {
                    cap0: s.iops_avail,
                    bytes0: s.bytes_avail,
                    last: QueueSnapshot {
                        pending: s.pending - 1,
                        ..s.clone()
                    },
                    closed: false,
                    events: 0,
                    admits: 0,
                    bypass_admits: 0,
                    admitted_bytes: 0,
                    consumed_bytes: 0,
                    max_pending: 0,
                    min_bytes_avail: s.bytes_avail,
                    backpressure_events: 0,
                },
            );
        }
        let mut errs: Vec<(&'static str, String)> = vec![];
        {
            let q = self.queues.get_mut(&s.queue_id).unwrap();
            let p = q.last.clone();
            q.events += 1;
            let ctx = || format!("prev={p:?} cur={s:?}");
            match s.event {
                "push" => {
                    if s.iops_avail != p.iops_avail
                        || s.bytes_avail != p.bytes_avail
                        || s.pending != p.pending + 1
                        || s.in_flight != p.in_flight
                    {
                        errs.push(("queue-accounting-push-delta", ctx()));
                    }
                    if q.closed {
                        errs.push(("push-after-close", ctx()));
                    }
                }
                "admit" => {
                    let tb = s.task_bytes.unwrap_or(0) as i64;
                    if p.iops_avail == 0
                        || s.iops_avail != p.iops_avail.wrapping_sub(1)
                        || s.bytes_avail != p.bytes_avail - tb
                        || s.pending + 1 != p.pending
                        || s.in_flight != p.in_flight + 1
                    {
                        errs.push(("queue-accounting-admit-delta", ctx()));
                    }
                    if q.closed || p.done_scheduling {
                        errs.push(("admit-after-close", ctx()));
                    }
                    if tb > p.bytes_avail {
                        q.bypass_admits += 1;
                        if s.task_priority.unwrap_or(u128::MAX) > p.min_in_flight {
                            errs.push(("admit-over-budget-without-priority", ctx()));
                        }
                    }
                    q.admits += 1;
                    q.admitted_bytes += tb as u64;
                }
                "iop_complete" => {
                    if s.iops_avail != p.iops_avail + 1
                        || s.bytes_avail != p.bytes_avail
                        || s.pending != p.pending
                    {
                        errs.push(("queue-accounting-iop-complete-delta", ctx()));
                    }
                }
                "bytes_consumed" => {
                    let tb = s.task_bytes.unwrap_or(0) as i64;
                    if s.bytes_avail != p.bytes_avail + tb
                        || s.iops_avail != p.iops_avail
                        || s.in_flight > p.in_flight
                    {
                        errs.push(("queue-accounting-bytes-consumed-delta", ctx()));
                    }
                    q.consumed_bytes += tb as u64;
                }
                "close" => {
                    q.closed = true;
                    if s.pending != 0 || !s.done_scheduling {
                        errs.push(("close-left-pending", ctx()));
                    }
                }
                _ => {}
            }
            if !q.closed {
                if s.iops_avail > q.cap0 {
                    errs.push(("iops-avail-exceeds-capacity", ctx()));
                }
                if s.bytes_avail > q.bytes0 {
                    errs.push(("bytes-avail-exceeds-initial", ctx()));
                }
                if s.pending > 0 && s.iops_avail > 0 && s.event != "push" {
                    q.backpressure_events += 1;
                }
            }
            q.max_pending = q.max_pending.max(s.pending);
            q.min_bytes_avail = q.min_bytes_avail.min(s.bytes_avail);
            q.last = s.clone();
        }
        for (sig, d) in errs {
            self.err(sig, d);
        }
    }
    /// Queue-state conservation at quiescence: every open queue must be back at its initial budget.
    /// Returns (signature, detail) for each queue that is not.
    pub fn check_quiescent(&self) -> Vec<(String, String)> {
        let mut out = vec![];
        for q in self.queues.values() {
            if q.closed {
                continue;
            }
            let l = &q.last;
            if l.bytes_avail != q.bytes0 || l.iops_avail != q.cap0 || l.in_flight != 0 || l.pending != 0 {
                out.push((
                    "budget-not-restored-at-quiescence".to_string(),
                    format!(
                        "cap0={} bytes0={} admitted={} consumed={} last={:?}",
                        q.cap0, q.bytes0, q.admitted_bytes, q.consumed_bytes, l
                    ),
                ));
            }
        }
        out
    }
    pub fn all_states(&self) -> Vec<QState> {
        self.queues
            .values()
            .cloned()
            .chain(self.retired.iter().cloned())
            .collect()
    }
}

thread_local! {
    static MON: RefCell<Option<Arc<Mutex<Monitor>>>> = const { RefCell::new(None) };
}

static INSTALL: Once = Once::new();

fn install() {
    INSTALL.call_once(|| {
        set_observer(Some(Arc::new(|s: &QueueSnapshot| {
            let m = MON.try_with(|m| m.borrow().clone()).ok().flatten();
            if let Some(m) = m {
                m.lock().unwrap().on_event(s);
            }
        })));
    });
}

/// Route the queue events caused on this thread to `m` (None detaches).
pub fn attach(m: Option<Arc<Mutex<Monitor>>>) {
    install();
    MON.with(|c| *c.borrow_mut() = m);
}
