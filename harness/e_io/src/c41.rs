//! C41 — replay spill and stream chunking deliver every batch exactly once.
//!
//! Spill leg: the real `lance_datafusion::spill::{create_replay_spill, SpillSender, SpillReceiver}`.
//! A scenario is a batch sequence (unique `id` per row, 0-row and sliced batches included), a memory
//! limit (0 = always spill … huge = never), and a set of readers, each opened at a chosen point
//! (before write k, after finish; the same receiver or a clone, any number of times) and run as
//! concurrent tasks with injected yields / sleeps. Oracle, per reader: exactly the written batches, in
//! order, batch boundaries and row values equal (`vmon::table::batch_to_rows`). Variants:
//! `send_error` (every reader: exact prefix, then the error — never a clean end), sender dropped
//! before readers finish (documented: readers may fail; required only "exact prefix then end or
//! error", never wrong / duplicated / reordered batches).
//!
//! Chunker leg: `chunk_stream`, `chunk_concat_stream`, `StrictBatchSizeStream`, `break_stream` over a
//! random batch stream (with pending polls injected): every output has exactly the requested number
//! of rows except the last, and the row-level concatenation equals the input (for `break_stream`:
//! its documented contract — no output crosses a multiple of the break point, nothing combined).

use arrow_array::RecordBatch;
use arrow_schema::SchemaRef;
use datafusion::error::DataFusionError;
use datafusion::execution::SendableRecordBatchStream;
use datafusion::physical_plan::stream::RecordBatchStreamAdapter;
use futures::{StreamExt, TryStreamExt};
use lance_datafusion::chunker::{break_stream, chunk_concat_stream, chunk_stream, StrictBatchSizeStream};
use lance_datafusion::spill::create_replay_spill;
use serde_json::{json, Value};
use std::time::Duration;
use vmon::prng::{fnv, Rng};
use vmon::report::{Args, Report};
use vmon::table::{batch_to_rows, render_row, ColTy, IdAlloc, Row, TableSpec};

const RULE: &str = "Spill cases: seeded batch sequence (0-row / sliced batches, nested and string columns) x memory \
limit (0, at a batch boundary +-1, huge) x readers opened before write k / during / after finish (same receiver or \
clone, re-opened) running concurrently with injected yields; variants finish / send_error / early sender drop. \
Non-trivial iff >=1 reader was opened before the last write and (data was spilled to disk or >=2 readers ran); \
distinct by (batch count, spill point, reader start points, variant, runtime flavour). Chunker cases: seeded batch \
sizes x chunk size x chunker; non-trivial iff some input batch was split or several were combined; distinct by \
(chunker, sizes, chunk size).";

fn pool() -> Vec<ColTy> {
    vec![
        ColTy::I32,
        ColTy::I64,
        ColTy::F64,
        ColTy::Bool,
        ColTy::Utf8,
        ColTy::LargeUtf8,
        ColTy::Binary,
        ColTy::TsMicro,
        ColTy::Dec128(12, 2),
        ColTy::FslF32(3),
        ColTy::ListI32,
        ColTy::StructIS,
    ]
}

fn gen_batches(rng: &mut Rng, spec: &TableSpec, ids: &mut IdAlloc, n: usize, max_rows: usize) -> Vec<RecordBatch> {
    (0..n)
        .map(|_| {
            let rows = match rng.below(8) {
                0 => 0,
                1 => 1,
                _ => rng.urange(1, max_rows),
            };
            if rng.chance(1, 4) && rows > 0 {
                // a slice of a larger batch: non-zero offsets in every buffer
                let pre = rng.urange(1, 5);
                let post = rng.urange(0, 3);
                let b = spec.batch(rng, &ids.take(pre + rows + post));
                // ids of the padding rows are simply never seen again
                b.slice(pre, rows)
            } else {
                spec.batch(rng, &ids.take(rows))
            }
        })
        .collect()
}

fn rows_of(bs: &[RecordBatch]) -> Vec<Vec<Row>> {
    bs.iter().map(batch_to_rows).collect()
}

// -------------------------------------------------------------------------------------------
// spill leg
// -------------------------------------------------------------------------------------------

#[derive(Clone, Copy, Debug, PartialEq, Eq)]
enum Variant {
    Finish,
    /// `send_error` after this many writes
    SendError(usize),
    /// sender dropped right after this many writes (None = after finish) without waiting for readers
    EarlyDrop(Option<usize>),
}

#[derive(Clone, Debug)]
struct ReaderPlan {
    /// opened before write `k` (k == n: after the last write, before finish; k == n+1: after finish)
    open_at: usize,
    use_clone: bool,
    /// delay pattern between `next()` calls
    delay_seed: u64,
    /// read only this many batches, then stop (reader dropped early); None = to the end
    stop_after: Option<usize>,
}

#[derive(Debug)]
enum ReadEnd {
    Eof,
    Err(String),
    Stopped,
    Timeout,
}

async fn run_reader(mut s: SendableRecordBatchStream, plan: ReaderPlan) -> (Vec<RecordBatch>, ReadEnd) {
    let mut out = vec![];
    let mut x = plan.delay_seed | 1;
    loop {
        if let Some(k) = plan.stop_after {
            if out.len() >= k {
                return (out, ReadEnd::Stopped);
            }
        }
        x ^= x << 13;
        x ^= x >> 7;
        x ^= x << 17;
        match x % 6 {
            0 | 1 => {}
            2 | 3 => tokio::task::yield_now().await,
            4 => tokio::time::sleep(Duration::from_micros(x >> 8 & 0xff)).await,
            _ => {
                for _ in 0..3 {
                    tokio::task::yield_now().await;
                }
            }
        }
        match tokio::time::timeout(Duration::from_secs(120), s.next()).await {
            Err(_) => return (out, ReadEnd::Timeout),
            Ok(None) => return (out, ReadEnd::Eof),
            Ok(Some(Ok(b))) => out.push(b),
            Ok(Some(Err(e))) => return (out, ReadEnd::Err(e.to_string())),
        }
    }
}

/// compare what a reader saw with the written batches. `must_be_complete`: the reader has to see all
/// batches and a clean end. Returns (signature, detail).
fn judge_reader(
    written: &[Vec<Row>],
    got: &[RecordBatch],
    end: &ReadEnd,
    expect: Expect,
) -> Option<(String, String)> {
    let got_rows = rows_of(got);
    // prefix check, batch by batch
    for (i, g) in got_rows.iter().enumerate() {
        if i >= written.len() {
            return Some((
                "reader-delivered-more-batches-than-written".into(),
                format!("batch #{i} delivered, only {} written", written.len()),
            ));
        }
        if *g != written[i] {
            // classify: duplicate of an earlier batch / a later batch (skipped) / other
            let class = if i > 0 && *g == written[i - 1] && !g.is_empty() {
                "duplicated-batch"
            } else if written[i + 1..].iter().any(|w| w == g) && !g.is_empty() {
                "skipped-batch"
            } else if g.len() != written[i].len() {
                "batch-boundary-differs"
            } else {
                "batch-values-differ"
            };
            let a = g.first().map(render_row).unwrap_or_default();
            let b = written[i].first().map(render_row).unwrap_or_default();
            return Some((
                format!("reader-{class}"),
                format!(
                    "batch #{i}: got {} rows (first {a}), written {} rows (first {b})",
                    g.len(),
                    written[i].len()
                ),
            ));
        }
    }
    match (expect, end) {
        (_, ReadEnd::Timeout) => None, // judged as inconclusive by the caller
        (_, ReadEnd::Stopped) => None,
        (Expect::AllThenEof, ReadEnd::Eof) => {
            if got.len() != written.len() {
                Some((
                    "reader-ended-early".into(),
                    format!("clean end after {} of {} batches", got.len(), written.len()),
                ))
            } else {
                None
            }
        }
        (Expect::AllThenEof, ReadEnd::Err(e)) => Some((
            "reader-error-with-live-sender".into(),
            format!("error after {} of {} batches: {e}", got.len(), written.len()),
        )),
        (Expect::PrefixThenError(marker), ReadEnd::Err(e)) => {
            if e.contains(marker) {
                None
            } else {
                Some(("reader-got-different-error".into(), format!("expected marker {marker}, got: {e}")))
            }
        }
        (Expect::PrefixThenError(_), ReadEnd::Eof) => Some((
            "reader-clean-end-after-send-error".into(),
            format!("send_error was not delivered: clean end after {} batches", got.len()),
        )),
        (Expect::PrefixAny, _) => None,
    }
}

#[derive(Clone, Copy, Debug)]
enum Expect {
    AllThenEof,
    PrefixThenError(&'static str),
    PrefixAny,
}

const ERR_MARK: &str = "e_io-injected-spill-error-7741";

struct SpillCase {
    spec: TableSpec,
    batches: Vec<RecordBatch>,
    limit: usize,
    limit_class: &'static str,
    readers: Vec<ReaderPlan>,
    variant: Variant,
}

fn gen_spill_case(rng: &mut Rng, idx: u64) -> SpillCase {
    let ncols = rng.urange(0, 3);
    let spec = TableSpec::random(rng, &pool(), ncols);
    let mut ids = IdAlloc::new((idx % 1000) as usize);
    let n = match rng.below(10) {
        0 => 0,
        1 => 1,
        _ => rng.urange(2, 10),
    };
    let batches = gen_batches(rng, &spec, &mut ids, n, 40);
    let sizes: Vec<usize> = batches.iter().map(|b| b.get_array_memory_size()).collect();
    let (limit, limit_class) = match rng.below(6) {
        0 | 1 => (0usize, "zero"),
        2 | 3 if n > 0 => {
            let k = rng.urange(1, n);
            let s: usize = sizes[..k].iter().sum();
            match rng.below(3) {
                0 => (s.saturating_sub(1), "boundary-1"),
                1 => (s, "boundary"),
                _ => (s + 1, "boundary+1"),
            }
        }
        4 => (rng.urange(1, 4096), "small"),
        _ => (usize::MAX / 2, "huge"),
    };
    let nr = rng.urange(1, 5);
    let readers = (0..nr)
        .map(|_| ReaderPlan {
            open_at: match rng.below(5) {
                0 => 0,
                1 => n + 1,
                2 => n,
                _ => rng.urange(0, n + 1),
            },
            use_clone: rng.bool(),
            delay_seed: rng.next_u64(),
            stop_after: if rng.chance(1, 10) { Some(rng.urange(0, n.max(1))) } else { None },
        })
        .collect();
    let variant = match rng.below(10) {
        0 | 1 => Variant::SendError(rng.urange(0, n)),
        2 | 3 => Variant::EarlyDrop(if rng.bool() { None } else { Some(rng.urange(0, n)) }),
        _ => Variant::Finish,
    };
    SpillCase {
        spec,
        batches,
        limit,
        limit_class,
        readers,
        variant,
    }
}

struct SpillObs {
    readers: Vec<(ReaderPlan, Vec<RecordBatch>, ReadEnd)>,
    written: usize,
    spilled_at: Option<usize>,
    write_error: Option<String>,
}

async fn run_spill_case(c: &SpillCase, dir: &std::path::Path, idx: u64) -> SpillObs {
    let path = dir.join(format!("spill-{idx}.arrow"));
    let _ = std::fs::remove_file(&path);
    let schema: SchemaRef = c.spec.schema();
    let (mut sender, receiver) = create_replay_spill(path.clone(), schema, c.limit);
    let n = c.batches.len();
    let mut handles = vec![];
    let mut spilled_at = None;
    let mut written = 0;
    let mut write_error = None;
    let mut opened = vec![false; c.readers.len()];
    // open every not yet opened reader planned for a point <= `upto`
    let open = |upto: usize,
                opened: &mut Vec<bool>,
                handles: &mut Vec<(ReaderPlan, tokio::task::JoinHandle<(Vec<RecordBatch>, ReadEnd)>)>| {
        for (i, r) in c.readers.iter().enumerate() {
            if !opened[i] && r.open_at <= upto {
                opened[i] = true;
                let stream = if r.use_clone { receiver.clone().read() } else { receiver.read() };
                handles.push((r.clone(), tokio::spawn(run_reader(stream, r.clone()))));
            }
        }
    };
    let sender_opt;
    let mut ended = false;
    for k in 0..n {
        open(k, &mut opened, &mut handles);
        match c.variant {
            Variant::SendError(e) if e == k => {
                sender.send_error(DataFusionError::Execution(ERR_MARK.to_string()));
                ended = true;
                break;
            }
            Variant::EarlyDrop(Some(d)) if d == k => {
                ended = true;
                break;
            }
            _ => {}
        }
        if let Err(e) = sender.write(c.batches[k].clone()).await {
            write_error = Some(e.to_string());
            ended = true;
            break;
        }
        written += 1;
        if spilled_at.is_none() && path.exists() {
            spilled_at = Some(k);
        }
        if k % 2 == 1 {
            tokio::task::yield_now().await;
        }
    }
    if !ended {
        open(n, &mut opened, &mut handles);
        match c.variant {
            Variant::SendError(_) => sender.send_error(DataFusionError::Execution(ERR_MARK.to_string())),
            Variant::EarlyDrop(Some(_)) => {}
            _ => {
                if let Err(e) = sender.finish().await {
                    write_error = Some(format!("finish: {e}"));
                }
            }
        }
    }
    // readers planned for later points are opened now (after finish / error / right before the drop)
    open(usize::MAX, &mut opened, &mut handles);
    match c.variant {
        Variant::EarlyDrop(_) => {
            // do not wait for the readers
            drop(sender);
            sender_opt = None;
        }
        _ => sender_opt = Some(sender),
    }
    let mut readers = vec![];
    for (p, h) in handles {
        match h.await {
            Ok((got, end)) => readers.push((p, got, end)),
            Err(e) => readers.push((p, vec![], ReadEnd::Err(format!("reader task panicked: {e}")))),
        }
    }
    drop(sender_opt);
    let _ = std::fs::remove_file(&path);
    SpillObs {
        readers,
        written,
        spilled_at,
        write_error,
    }
}

fn spill_case(report: &Report, seed: u64, idx: u64, rt: &tokio::runtime::Runtime, flavour: &str, dir: &std::path::Path, selftest: bool) {
    let mut rng = Rng::for_case(seed, idx);
    let c = gen_spill_case(&mut rng, idx);
    let mut obs = rt.block_on(run_spill_case(&c, dir, idx));
    let n = c.batches.len();
    if let Some(e) = &obs.write_error {
        // the IPC writer rejected the data (e.g. a type it cannot serialise): rejected input
        report.rejected();
        report.count("spill.write_rejected", 1);
        if report.counter("spill.write_rejected") <= 3 {
            report.set("spill.write_rejected_example", json!({"schema": c.spec.describe(), "error": e}));
        }
        report.case(None);
        return;
    }
    let written_rows = rows_of(&c.batches[..obs.written]);
    if selftest {
        // damage one reader's observation: duplicate / drop / swap a batch
        if let Some((_, got, _)) = obs.readers.iter_mut().find(|(p, g, _)| g.len() >= 2 && p.stop_after.is_none()) {
            match idx % 3 {
                0 => {
                    let b = got[0].clone();
                    got.insert(1, b);
                }
                1 => {
                    got.remove(0);
                }
                _ => got.swap(0, 1),
            }
            report.count("selftest_corrupted", 1);
            let flagged = obs
                .readers
                .iter()
                .any(|(_, g, e)| judge_reader(&written_rows, g, e, Expect::PrefixAny).is_some());
            // swap of two equal (e.g. both empty) batches is not a corruption
            let distinct = written_rows.len() >= 2 && written_rows[0] != written_rows[1];
            if flagged {
                report.count("selftest_flagged", 1);
            } else if distinct || idx % 3 != 2 {
                if idx % 3 == 1 && written_rows.len() >= 2 && written_rows[0] == written_rows[1] {
                    // dropping one of two equal leading batches only shortens the prefix
                } else {
                    report.count("selftest_missed", 1);
                }
            }
        }
        return;
    }
    let expect = match c.variant {
        Variant::Finish => Expect::AllThenEof,
        Variant::SendError(_) => Expect::PrefixThenError(ERR_MARK),
        Variant::EarlyDrop(_) => Expect::PrefixAny,
    };
    let mut early_readers = 0;
    for (p, got, end) in &obs.readers {
        let when = if p.open_at == 0 {
            "before_first_write"
        } else if p.open_at <= n.saturating_sub(1) {
            "during_writes"
        } else if p.open_at == n {
            "after_last_write_before_finish"
        } else {
            "after_finish"
        };
        if p.open_at < n {
            early_readers += 1;
        }
        report.count(&format!("spill.reader_start.{when}"), 1);
        report.count("spill.readers", 1);
        report.count("spill.batches_compared", got.len() as u64);
        report.count("rows_compared", got.iter().map(|b| b.num_rows() as u64).sum());
        match end {
            ReadEnd::Timeout => {
                report.count("spill.reader_timeouts", 1);
                report.inconclusive(&format!("spill case {idx}: a reader did not finish within 120 s (wall clock)"));
            }
            ReadEnd::Err(_) => report.count("spill.reader_ended_with_error", 1),
            ReadEnd::Eof => report.count("spill.reader_ended_cleanly", 1),
            ReadEnd::Stopped => report.count("spill.reader_stopped_early_by_plan", 1),
        }
        if let Some((sig, detail)) = judge_reader(&written_rows, got, end, expect) {
            let sig = match c.variant {
                Variant::EarlyDrop(_) => format!("{sig}-after-sender-drop"),
                Variant::SendError(_) => format!("{sig}-with-send-error"),
                Variant::Finish => sig,
            };
            report.violation(
                &sig,
                &detail,
                json!({"seed": seed as i64, "case": idx, "leg": "spill", "runtime": flavour, "schema": c.spec.describe(),
                    "batch_rows": c.batches.iter().map(|b| b.num_rows()).collect::<Vec<_>>(),
                    "memory_limit": c.limit, "memory_limit_class": c.limit_class, "spilled_at_write": obs.spilled_at,
                    "variant": format!("{:?}", c.variant), "batches_written": obs.written,
                    "reader": {"open_before_write": p.open_at, "clone": p.use_clone, "stop_after": p.stop_after},
                    "reader_saw_batches": got.iter().map(|b| b.num_rows()).collect::<Vec<_>>(), "reader_end": format!("{end:?}"),
                    "all_readers": c.readers.iter().map(|r| r.open_at).collect::<Vec<_>>()}),
            );
        }
    }
    let spilled = obs.spilled_at.is_some();
    report.count(if spilled { "spill.cases_spilled_to_disk" } else { "spill.cases_in_memory" }, 1);
    report.count(&format!("spill.limit.{}", c.limit_class), 1);
    report.count(
        &format!(
            "spill.variant.{}",
            match c.variant {
                Variant::Finish => "finish",
                Variant::SendError(_) => "send_error",
                Variant::EarlyDrop(_) => "early_drop",
            }
        ),
        1,
    );
    if let Some(k) = obs.spilled_at {
        report.count(if k == 0 { "spill.transition_at_first_write" } else { "spill.transition_after_buffering" }, 1);
    }
    let nontrivial = early_readers >= 1 && (spilled || obs.readers.len() >= 2);
    let mut starts: Vec<usize> = c.readers.iter().map(|r| r.open_at).collect();
    starts.sort();
    let sig = fnv(format!("spill|{n}|{:?}|{starts:?}|{:?}|{flavour}", obs.spilled_at, c.variant).as_bytes());
    report.case(if nontrivial { Some(sig) } else { None });
    if report.want_sample() && nontrivial && spilled && idx % 7 == 0 {
        report.sample(json!({"leg": "spill", "case": idx, "schema": c.spec.describe(),
            "batch_rows": c.batches.iter().map(|b| b.num_rows()).collect::<Vec<_>>(), "memory_limit": c.limit,
            "spilled_at_write": obs.spilled_at, "variant": format!("{:?}", c.variant),
            "readers_open_before_write": starts, "outcome": "every reader: exact batches in order"}));
    }
}

// -------------------------------------------------------------------------------------------
// chunker leg
// -------------------------------------------------------------------------------------------

fn make_stream(schema: SchemaRef, batches: Vec<RecordBatch>, pend_seed: u64, fail_at: Option<usize>) -> SendableRecordBatchStream {
    let items: Vec<Result<RecordBatch, DataFusionError>> = batches
        .into_iter()
        .enumerate()
        .flat_map(|(i, b)| {
            if fail_at == Some(i) {
                vec![Err(DataFusionError::Execution(ERR_MARK.to_string()))]
            } else {
                vec![Ok(b)]
            }
        })
        .collect();
    let mut x = pend_seed | 1;
    let s = futures::stream::iter(items).then(move |it| {
        x ^= x << 13;
        x ^= x >> 7;
        x ^= x << 17;
        let yields = if pend_seed == 0 { 0 } else { x % 3 };
        async move {
            for _ in 0..yields {
                tokio::task::yield_now().await;
            }
            it
        }
    });
    Box::pin(RecordBatchStreamAdapter::new(schema, s.boxed()))
}

fn flat(rows: &[Vec<Row>]) -> Vec<Row> {
    rows.iter().flatten().cloned().collect()
}

/// sizes: every chunk == size except the last (1..=size); returns signature suffix on failure
fn judge_sizes(sizes: &[usize], size: usize) -> Option<String> {
    for (i, s) in sizes.iter().enumerate() {
        let last = i + 1 == sizes.len();
        if *s == 0 {
            return Some("empty-chunk".into());
        }
        if *s > size {
            return Some("oversized-chunk".into());
        }
        if *s < size && !last {
            return Some("short-non-final-chunk".into());
        }
    }
    None
}

fn judge_concat(input: &[Row], out: &[Row]) -> Option<(String, String)> {
    if input == out {
        return None;
    }
    let class = if out.len() < input.len() && input[..out.len()] == *out {
        "rows-lost-at-end"
    } else if out.len() < input.len() {
        "rows-lost"
    } else if out.len() > input.len() {
        "rows-duplicated-or-extra"
    } else {
        "rows-differ-or-reordered"
    };
    let k = input.iter().zip(out.iter()).position(|(a, b)| a != b).unwrap_or(input.len().min(out.len()));
    Some((
        class.to_string(),
        format!(
            "input {} rows, output {} rows, first difference at row {k}: in={} out={}",
            input.len(),
            out.len(),
            input.get(k).map(render_row).unwrap_or_default(),
            out.get(k).map(render_row).unwrap_or_default()
        ),
    ))
}

fn chunk_case(report: &Report, seed: u64, idx: u64, rt: &tokio::runtime::Runtime, selftest: bool) {
    let mut rng = Rng::for_case(seed, idx);
    let ncols = rng.urange(0, 2);
    let spec = TableSpec::random(&mut rng, &pool(), ncols);
    let mut ids = IdAlloc::new((idx % 1000) as usize);
    let n = match rng.below(10) {
        0 => 0,
        1 => 1,
        _ => rng.urange(2, 9),
    };
    let batches = gen_batches(&mut rng, &spec, &mut ids, n, 30);
    let in_sizes: Vec<usize> = batches.iter().map(|b| b.num_rows()).collect();
    let total: usize = in_sizes.iter().sum();
    let size = match rng.below(6) {
        0 => 1,
        1 => total.max(1),
        2 => total + 1 + rng.urange(0, 3),
        3 if total > 0 => *rng.pick(&in_sizes).max(&1),
        _ => rng.urange(1, total.max(2)),
    };
    let which = rng.below(4);
    let name = ["chunk_stream", "chunk_concat_stream", "StrictBatchSizeStream", "break_stream"][which as usize];
    let pend_seed = if rng.chance(1, 3) { 0 } else { rng.next_u64() };
    let fail_at = if rng.chance(1, 12) && n > 0 { Some(rng.usize_below(n)) } else { None };
    let schema = spec.schema();
    let input_rows = flat(&rows_of(&batches));
    let stream = make_stream(schema.clone(), batches.clone(), pend_seed, fail_at);
    // outputs as (rows per output item, rows) + per-item piece sizes
    type Out = (Vec<Vec<Row>>, Vec<Vec<usize>>, Option<String>);
    let out: Result<Out, String> = rt.block_on(async {
        let fut = async {
            let mut items: Vec<Vec<Row>> = vec![];
            let mut pieces: Vec<Vec<usize>> = vec![];
            let mut err = None;
            match which {
                0 => {
                    let mut s = chunk_stream(stream, size);
                    while let Some(x) = s.next().await {
                        match x {
                            Ok(v) => {
                                pieces.push(v.iter().map(|b| b.num_rows()).collect());
                                items.push(v.iter().flat_map(batch_to_rows).collect());
                            }
                            Err(e) => {
                                err = Some(e.to_string());
                                break;
                            }
                        }
                    }
                }
                1 | 2 => {
                    let mut s: SendableRecordBatchStream = if which == 1 {
                        chunk_concat_stream(stream, size)
                    } else {
                        Box::pin(RecordBatchStreamAdapter::new(schema.clone(), StrictBatchSizeStream::new(stream, size)))
                    };
                    while let Some(x) = s.next().await {
                        match x {
                            Ok(b) => {
                                pieces.push(vec![b.num_rows()]);
                                items.push(batch_to_rows(&b));
                            }
                            Err(e) => {
                                err = Some(e.to_string());
                                break;
                            }
                        }
                    }
                }
                _ => {
                    let mut s = break_stream(stream, size);
                    while let Some(x) = s.next().await {
                        match x {
                            Ok(b) => {
                                pieces.push(vec![b.num_rows()]);
                                items.push(batch_to_rows(&b));
                            }
                            Err(e) => {
                                err = Some(e.to_string());
                                break;
                            }
                        }
                    }
                }
            }
            (items, pieces, err)
        };
        match tokio::time::timeout(Duration::from_secs(120), fut).await {
            Ok(x) => Ok(x),
            Err(_) => Err("timeout".to_string()),
        }
    });
    let (mut items, pieces, err) = match out {
        Ok(x) => x,
        Err(_) => {
            report.inconclusive(&format!("chunk case {idx}: {name} did not finish in 120 s"));
            report.case(None);
            return;
        }
    };
    if selftest {
        if items.len() >= 2 && fail_at.is_none() && which != 3 {
            // merge two chunks / drop a row
            report.count("selftest_corrupted", 1);
            if idx % 2 == 0 {
                let b = items.remove(1);
                items[0].extend(b);
            } else {
                items[0].pop();
            }
            let sizes: Vec<usize> = items.iter().map(|i| i.len()).collect();
            let flagged = judge_sizes(&sizes, size).is_some() || judge_concat(&input_rows, &flat(&items)).is_some();
            report.count(if flagged { "selftest_flagged" } else { "selftest_missed" }, 1);
        }
        return;
    }
    let sizes: Vec<usize> = items.iter().map(|i| i.len()).collect();
    let out_rows = flat(&items);
    report.count(&format!("chunk.cases.{name}"), 1);
    report.count("rows_compared", out_rows.len() as u64);
    let wit = |detail: &str| {
        json!({"seed": seed as i64, "case": idx, "leg": "chunker", "chunker": name, "schema": spec.describe(),
            "input_batch_rows": in_sizes, "requested_size": size, "output_rows": sizes, "output_pieces": pieces,
            "input_stream_fails_at_batch": fail_at, "error": err, "detail": detail})
    };
    if let Some(f) = fail_at {
        // error in the input: outputs so far must be an exact prefix, the error must surface
        report.count("chunk.input_error_cases", 1);
        match &err {
            None => {
                report.violation(&format!("{name}-swallowed-input-error"), "input stream error was not delivered", wit(""));
            }
            Some(e) if !e.contains(ERR_MARK) => {
                report.violation(&format!("{name}-different-error"), e, wit(""));
            }
            _ => {}
        }
        let before: usize = in_sizes[..f].iter().sum();
        if out_rows.len() > before || input_rows[..out_rows.len()] != out_rows[..] {
            report.violation(
                &format!("{name}-output-before-error-not-a-prefix"),
                "rows delivered before the input error are not a prefix of the rows before the failing batch",
                wit(""),
            );
        }
        report.case(None);
        return;
    }
    if let Some(e) = &err {
        report.violation(&format!("{name}-unexpected-error"), e, wit(""));
        report.case(None);
        return;
    }
    if let Some((class, detail)) = judge_concat(&input_rows, &out_rows) {
        report.violation(&format!("{name}-{class}"), &detail, wit(&detail));
    }
    if which < 3 {
        if let Some(class) = judge_sizes(&sizes, size) {
            report.violation(&format!("{name}-{class}"), "chunk sizes are not `size, size, …, last<=size`", wit(""));
        }
    } else {
        // break_stream: no output crosses a multiple of `size`; nothing combined (each output inside
        // one input batch); no empty outputs
        let mut pos = 0usize;
        let mut bounds = vec![];
        let mut acc = 0;
        for s in &in_sizes {
            acc += s;
            bounds.push(acc);
        }
        for s in &sizes {
            let (a, b) = (pos, pos + s);
            if *s == 0 {
                report.violation("break_stream-empty-chunk", "empty output batch", wit(""));
                break;
            }
            if a / size != (b - 1) / size {
                report.violation("break_stream-output-crosses-break-point", &format!("output rows {a}..{b} cross a multiple of {size}"), wit(""));
                break;
            }
            if bounds.iter().any(|x| a < *x && *x < b) {
                report.violation("break_stream-combined-input-batches", &format!("output rows {a}..{b} span two input batches"), wit(""));
                break;
            }
            pos = b;
        }
    }
    let split_or_combined = pieces.iter().any(|p| p.len() > 1) || sizes != in_sizes.iter().copied().filter(|s| *s > 0).collect::<Vec<_>>();
    let sig = fnv(format!("chunk|{name}|{in_sizes:?}|{size}").as_bytes());
    report.case(if split_or_combined { Some(sig) } else { None });
    if report.want_sample() && split_or_combined && idx % 11 == 0 {
        report.sample(json!({"leg": "chunker", "chunker": name, "input_batch_rows": in_sizes, "requested_size": size, "output_rows": sizes}));
    }
}

pub fn run(args: &Args) -> i32 {
    let selftest = args.extra.contains_key("selftest");
    let report = Report::new(args, "exploration", RULE, (45, 600)).with_min_nontrivial(100);
    report.assume("sender kept alive until all readers finished, except in the early-drop variant where only prefix-exactness is required");
    report.assume("a reader that does not finish within 120 s of wall clock is inconclusive, not a violation");
    std::panic::set_hook(Box::new(|_| {}));
    let dir = match tempfile::Builder::new().prefix("e_io-c41-").tempdir_in("/tmp") {
        Ok(d) => d,
        Err(e) => {
            report.harness_error(&format!("tempdir: {e}"));
            return report.finish();
        }
    };
    let threads = crate::sink::verif_threads().min(12);
    let max_cases: u64 = args.tier.pick(300_000, 30_000_000);
    let next = std::sync::atomic::AtomicU64::new(0);
    std::thread::scope(|s| {
        for t in 0..threads {
            let report = &report;
            let next = &next;
            let dir = dir.path();
            s.spawn(move || {
                let (rt, flavour) = if t % 3 == 0 {
                    (
                        tokio::runtime::Builder::new_current_thread().enable_all().build().unwrap(),
                        "current_thread",
                    )
                } else {
                    (
                        tokio::runtime::Builder::new_multi_thread()
                            .worker_threads(2 + t % 2)
                            .enable_all()
                            .build()
                            .unwrap(),
                        "multi_thread",
                    )
                };
                loop {
                    let idx = next.fetch_add(1, std::sync::atomic::Ordering::SeqCst);
                    if idx >= max_cases || !report.time_left() {
                        break;
                    }
                    let r = std::panic::catch_unwind(std::panic::AssertUnwindSafe(|| {
                        if idx % 3 == 2 {
                            chunk_case(report, args.seed, idx, &rt, selftest);
                        } else {
                            spill_case(report, args.seed, idx, &rt, flavour, dir, selftest);
                        }
                    }));
                    if let Err(p) = r {
                        let msg = p
                            .downcast_ref::<String>()
                            .cloned()
                            .or_else(|| p.downcast_ref::<&str>().map(|s| s.to_string()))
                            .unwrap_or_default();
                        report.violation(
                            if idx % 3 == 2 { "panic-in-chunker" } else { "panic-in-spill" },
                            &format!("panic: {msg}"),
                            json!({"seed": args.seed as i64, "case": idx}),
                        );
                    }
                }
            });
        }
    });
    drop(dir);
    if selftest {
        let missed = report.counter("selftest_missed");
        let flagged = report.counter("selftest_flagged");
        println!("SELFTEST C41 flagged={flagged} missed={missed}");
        return if missed == 0 && flagged > 0 { 0 } else { 2 };
    }
    let _: Option<Value> = None;
    report.finish()
}
