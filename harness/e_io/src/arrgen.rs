//! Random Arrow schemas and arrays for the file-format round trip (C25): nesting to depth 4, nulls at
//! every level, garbage behind nulls, dictionaries, empty arrays; batches may be slices of larger ones.

use arrow_array::builder::*;
use arrow_array::types::*;
use arrow_array::*;
use arrow_buffer::{i256, BooleanBuffer, NullBuffer, OffsetBuffer, ScalarBuffer};
use arrow_schema::{DataType, Field, Fields, IntervalUnit, TimeUnit};
use std::collections::HashMap;
use std::sync::Arc;
use vmon::prng::Rng;

#[derive(Clone, Debug)]
pub struct GenCfg {
    pub max_depth: usize,
    /// struct-level nulls (the 2.0 format documents that it cannot store them)
    pub struct_nulls: bool,
    /// nested FSL / FSL of non-primitive
    pub nested_fsl: bool,
    pub packed_struct: bool,
    pub blob: bool,
    pub views: bool,
    pub compression_meta: bool,
    pub large_values: bool,
    /// dictionary columns (the legacy 0.1 format keeps ONE dictionary per column and file, so random
    /// per-batch dictionaries are not a valid input there)
    pub dictionary: bool,
    /// generate null values at all (format 0.1 has no null support: docs/src/format/file/versioning.md,
    /// "2.0 … introduced null support for lists, fixed size lists, and primitives")
    pub nulls: bool,
}

const WORDS: &[&str] = &[
    "", "a", "b", "ab", "abc", "zeta", "Alpha", "é", "日本", "x y", "lance", "0", "null", "%_", "aaaaaaaaaaaaaaaaaaaaaaaa",
];

fn tu(rng: &mut Rng) -> TimeUnit {
    *rng.pick(&[TimeUnit::Second, TimeUnit::Millisecond, TimeUnit::Microsecond, TimeUnit::Nanosecond])
}

pub fn gen_leaf_type(rng: &mut Rng, cfg: &GenCfg) -> DataType {
    match rng.below(34) {
        0 => DataType::Boolean,
        1 => DataType::Int8,
        2 => DataType::Int16,
        3 => DataType::Int32,
        4 => DataType::Int64,
        5 => DataType::UInt8,
        6 => DataType::UInt16,
        7 => DataType::UInt32,
        8 => DataType::UInt64,
        9 => DataType::Float16,
        10 => DataType::Float32,
        11 => DataType::Float64,
        12 => DataType::Date32,
        13 => DataType::Date64,
        14 => DataType::Time32(*rng.pick(&[TimeUnit::Second, TimeUnit::Millisecond])),
        15 => DataType::Time64(*rng.pick(&[TimeUnit::Microsecond, TimeUnit::Nanosecond])),
        16 => DataType::Timestamp(tu(rng), if rng.bool() { None } else { Some("UTC".into()) }),
        17 => DataType::Duration(tu(rng)),
        18 => {
            let p = rng.urange(1, 38) as u8;
            DataType::Decimal128(p, rng.range(0, (p as i64).min(6)) as i8)
        }
        19 => {
            let p = rng.urange(1, 76) as u8;
            DataType::Decimal256(p, rng.range(0, (p as i64).min(6)) as i8)
        }
        20 | 21 => DataType::Utf8,
        22 => DataType::LargeUtf8,
        23 => DataType::Binary,
        24 => DataType::LargeBinary,
        25 => DataType::FixedSizeBinary(*rng.pick(&[1, 2, 3, 8, 16, 33])),
        26 | 27 if cfg.dictionary => {
            let key = rng
                .pick(&[DataType::Int8, DataType::Int16, DataType::Int32, DataType::UInt8, DataType::UInt32, DataType::Int64])
                .clone();
            let val = rng
                .pick(&[DataType::Utf8, DataType::Utf8, DataType::LargeUtf8, DataType::Int32, DataType::Binary, DataType::Float64])
                .clone();
            DataType::Dictionary(Box::new(key), Box::new(val))
        }
        28 if cfg.views => DataType::Utf8View,
        29 if cfg.views => DataType::BinaryView,
        30 => DataType::Null,
        31 => DataType::Interval(IntervalUnit::MonthDayNano),
        _ => rng.pick(&[DataType::Int32, DataType::Utf8, DataType::Float32, DataType::Int64]).clone(),
    }
}

fn fixed_width_leaf(rng: &mut Rng) -> DataType {
    rng.pick(&[
        DataType::Int8,
        DataType::Int16,
        DataType::Int32,
        DataType::Int64,
        DataType::UInt8,
        DataType::UInt32,
        DataType::UInt64,
        DataType::Float32,
        DataType::Float64,
        DataType::Date32,
        DataType::Timestamp(TimeUnit::Microsecond, None),
        DataType::FixedSizeBinary(3),
    ])
    .clone()
}

fn compression_meta(rng: &mut Rng, dt: &DataType) -> HashMap<String, String> {
    let mut m = HashMap::new();
    match rng.below(8) {
        0 => {
            m.insert("lance-encoding:compression".into(), "zstd".into());
        }
        1 => {
            m.insert("lance-encoding:compression".into(), "lz4".into());
        }
        2 => {
            m.insert("lance-encoding:compression".into(), "none".into());
        }
        3 => {
            m.insert("lance-encoding:compression".into(), "zstd".into());
            m.insert("lance-encoding:compression-level".into(), rng.range(1, 9).to_string());
        }
        4 => {
            m.insert("lance-encoding:structural-encoding".into(), "miniblock".into());
        }
        5 => {
            m.insert("lance-encoding:structural-encoding".into(), "fullzip".into());
        }
        6 => {
            m.insert("lance-encoding:rle-threshold".into(), rng.pick(&["0.0", "0.5", "1.0"]).to_string());
            if matches!(dt, DataType::Float32 | DataType::Float64) {
                m.insert("lance-encoding:bss".into(), rng.pick(&["off", "on", "auto"]).to_string());
            }
        }
        _ => {
            m.insert("lance-encoding:dict-divisor".into(), rng.pick(&["1", "2", "100"]).to_string());
        }
    }
    m
}

/// random field of nesting depth <= cfg.max_depth (depth counts list / struct / fsl levels)
pub fn gen_field(rng: &mut Rng, name: &str, depth_left: usize, cfg: &GenCfg, top: bool) -> Field {
    let nullable = rng.chance(3, 4);
    let nest = depth_left > 0 && rng.chance(if depth_left >= 3 { 1 } else { 2 }, 3);
    if !nest {
        if cfg.blob && top && rng.chance(1, 6) {
            let mut m = HashMap::new();
            m.insert("lance-encoding:blob".to_string(), "true".to_string());
            return Field::new(name, DataType::LargeBinary, nullable).with_metadata(m);
        }
        let dt = gen_leaf_type(rng, cfg);
        let mut f = Field::new(name, dt.clone(), nullable || dt == DataType::Null);
        if cfg.compression_meta && rng.chance(1, 4) {
            f = f.with_metadata(compression_meta(rng, &dt));
        }
        return f;
    }
    match rng.below(10) {
        0..=2 => {
            let child = gen_field(rng, "item", depth_left - 1, cfg, false);
            Field::new(name, DataType::List(Arc::new(child)), nullable)
        }
        3 => {
            let child = gen_field(rng, "item", depth_left - 1, cfg, false);
            Field::new(name, DataType::LargeList(Arc::new(child)), nullable)
        }
        4 | 5 => {
            let size = *rng.pick(&[1i32, 2, 3, 4, 8, 17]);
            let child = if cfg.nested_fsl && rng.chance(1, 3) {
                gen_field(rng, "item", depth_left - 1, cfg, false)
            } else {
                let dt = rng
                    .pick(&[
                        DataType::Float32,
                        DataType::Float32,
                        DataType::Float64,
                        DataType::Float16,
                        DataType::Int8,
                        DataType::UInt8,
                        DataType::Int32,
                        DataType::Int64,
                        DataType::Boolean,
                    ])
                    .clone();
                Field::new("item", dt, rng.bool())
            };
            Field::new(name, DataType::FixedSizeList(Arc::new(child), size), nullable)
        }
        6 if cfg.packed_struct => {
            let n = rng.urange(1, 4);
            let children: Vec<Field> = (0..n)
                .map(|i| Field::new(format!("p{i}"), fixed_width_leaf(rng), rng.chance(1, 4)))
                .collect();
            let mut m = HashMap::new();
            m.insert(
                if rng.bool() { "packed".to_string() } else { "lance-encoding:packed".to_string() },
                "true".to_string(),
            );
            Field::new(name, DataType::Struct(Fields::from(children)), nullable).with_metadata(m)
        }
        _ => {
            let n = rng.urange(1, 3);
            let children: Vec<Field> = (0..n)
                .map(|i| gen_field(rng, &format!("f{i}"), depth_left - 1, cfg, false))
                .collect();
            Field::new(name, DataType::Struct(Fields::from(children)), nullable)
        }
    }
}

pub fn type_names(f: &Field, out: &mut Vec<String>) {
    let is_blob = f.metadata().contains_key("lance-encoding:blob");
    let is_packed = f.metadata().get("packed").is_some() || f.metadata().get("lance-encoding:packed").is_some();
    match f.data_type() {
        DataType::List(c) => {
            out.push("list".into());
            type_names(c, out)
        }
        DataType::LargeList(c) => {
            out.push("large_list".into());
            type_names(c, out)
        }
        DataType::FixedSizeList(c, _) => {
            out.push("fixed_size_list".into());
            type_names(c, out)
        }
        DataType::Struct(fs) => {
            out.push(if is_packed { "packed_struct".into() } else { "struct".into() });
            for c in fs {
                type_names(c, out)
            }
        }
        DataType::Dictionary(k, v) => out.push(format!("dictionary<{k},{v}>")),
        DataType::Timestamp(u, tz) => out.push(format!("timestamp_{u:?}{}", if tz.is_some() { "_tz" } else { "" })),
        DataType::Decimal128(..) => out.push("decimal128".into()),
        DataType::Decimal256(..) => out.push("decimal256".into()),
        DataType::FixedSizeBinary(_) => out.push("fixed_size_binary".into()),
        other => out.push(if is_blob { "blob(large_binary)".into() } else { format!("{other:?}").to_lowercase() }),
    }
}

fn nulls(rng: &mut Rng, nullable: bool, n: usize) -> Option<NullBuffer> {
    if !nullable {
        return None;
    }
    let density = *rng.pick(&[0u64, 0, 1, 1, 4, 8]);
    if density == 0 && rng.bool() {
        return None;
    }
    let v: Vec<bool> = (0..n).map(|_| rng.below(8) >= density).collect();
    Some(NullBuffer::new(BooleanBuffer::from(v)))
}

fn gen_string(rng: &mut Rng, large: bool) -> String {
    if rng.chance(2, 3) {
        rng.pick(WORDS).to_string()
    } else {
        let n = if large && rng.chance(1, 20) { rng.urange(200, 3000) } else { rng.urange(0, 24) };
        (0..n)
            .map(|_| *rng.pick(&['a', 'b', 'z', ' ', 'é', '日', '0', '_', 'Q']))
            .collect()
    }
}

fn gen_bytes(rng: &mut Rng, large: bool) -> Vec<u8> {
    let n = if large && rng.chance(1, 20) { rng.urange(200, 5000) } else { rng.urange(0, 12) };
    if rng.chance(1, 3) {
        vec![rng.below(3) as u8; n]
    } else {
        rng.bytes(n)
    }
}

fn gen_i128(rng: &mut Rng, lo: i128, hi: i128, small: bool) -> i128 {
    if small {
        return (rng.range(-3, 12) as i128).clamp(lo, hi);
    }
    match rng.below(8) {
        0 => lo,
        1 => hi,
        2 => 0i128.clamp(lo, hi),
        3 => (lo + 1).min(hi),
        _ => {
            let span = (hi - lo) as u128;
            let r = ((rng.next_u64() as u128) << 64 | rng.next_u64() as u128) % (span.saturating_add(1).max(1));
            lo + r as i128
        }
    }
}

fn gen_f64(rng: &mut Rng, small: bool) -> f64 {
    if small {
        return *rng.pick(&[0.0, 1.0, -1.0, 2.5, 3.0, 10.0, -0.0, 100.25]);
    }
    match rng.below(12) {
        0 => f64::NAN,
        1 => f64::INFINITY,
        2 => f64::NEG_INFINITY,
        3 => 0.0,
        4 => -0.0,
        5 => f64::MIN_POSITIVE / 4.0,
        6 => 1e30,
        _ => (rng.f64() - 0.5) * 2000.0,
    }
}

macro_rules! prim {
    ($rng:expr, $n:expr, $nulls:expr, $t:ty, $gen:expr) => {{
        let vals: Vec<<$t as ArrowPrimitiveType>::Native> = (0..$n).map(|_| $gen).collect();
        Arc::new(PrimitiveArray::<$t>::new(ScalarBuffer::from(vals), $nulls)) as ArrayRef
    }};
}

/// array of `n` values for `field` (nullability of the field decides whether nulls occur)
pub fn gen_array(rng: &mut Rng, field: &Field, n: usize, cfg: &GenCfg) -> ArrayRef {
    let nb = nulls(rng, field.is_nullable() && cfg.nulls, n);
    let small = rng.chance(1, 2);
    let large = cfg.large_values;
    match field.data_type() {
        DataType::Null => Arc::new(NullArray::new(n)),
        DataType::Boolean => {
            let v: Vec<bool> = (0..n).map(|_| rng.bool()).collect();
            Arc::new(BooleanArray::new(BooleanBuffer::from(v), nb))
        }
        DataType::Int8 => prim!(rng, n, nb, Int8Type, gen_i128(rng, i8::MIN as i128, i8::MAX as i128, small) as i8),
        DataType::Int16 => prim!(rng, n, nb, Int16Type, gen_i128(rng, i16::MIN as i128, i16::MAX as i128, small) as i16),
        DataType::Int32 => prim!(rng, n, nb, Int32Type, gen_i128(rng, i32::MIN as i128, i32::MAX as i128, small) as i32),
        DataType::Int64 => prim!(rng, n, nb, Int64Type, gen_i128(rng, i64::MIN as i128, i64::MAX as i128, small) as i64),
        DataType::UInt8 => prim!(rng, n, nb, UInt8Type, gen_i128(rng, 0, u8::MAX as i128, small) as u8),
        DataType::UInt16 => prim!(rng, n, nb, UInt16Type, gen_i128(rng, 0, u16::MAX as i128, small) as u16),
        DataType::UInt32 => prim!(rng, n, nb, UInt32Type, gen_i128(rng, 0, u32::MAX as i128, small) as u32),
        DataType::UInt64 => prim!(rng, n, nb, UInt64Type, gen_i128(rng, 0, u64::MAX as i128, small) as u64),
        DataType::Float16 => prim!(rng, n, nb, Float16Type, half::f16::from_f64(gen_f64(rng, small))),
        DataType::Float32 => prim!(rng, n, nb, Float32Type, gen_f64(rng, small) as f32),
        DataType::Float64 => prim!(rng, n, nb, Float64Type, gen_f64(rng, small)),
        DataType::Date32 => prim!(rng, n, nb, Date32Type, gen_i128(rng, -100_000, 100_000, small) as i32),
        DataType::Date64 => prim!(rng, n, nb, Date64Type, gen_i128(rng, -1_000_000, 1_000_000, small) as i64 * 86_400_000),
        DataType::Time32(TimeUnit::Second) => prim!(rng, n, nb, Time32SecondType, gen_i128(rng, 0, 86_399, small) as i32),
        DataType::Time32(_) => prim!(rng, n, nb, Time32MillisecondType, gen_i128(rng, 0, 86_399_999, small) as i32),
        DataType::Time64(TimeUnit::Microsecond) => {
            prim!(rng, n, nb, Time64MicrosecondType, gen_i128(rng, 0, 86_399_999_999, small) as i64)
        }
        DataType::Time64(_) => prim!(rng, n, nb, Time64NanosecondType, gen_i128(rng, 0, 86_399_999_999_999, small) as i64),
        DataType::Timestamp(u, tz) => {
            let g = |rng: &mut Rng| gen_i128(rng, -4_000_000_000_000_000, 4_000_000_000_000_000, small) as i64;
            let tz = tz.clone();
            match u {
                TimeUnit::Second => Arc::new(
                    PrimitiveArray::<TimestampSecondType>::new((0..n).map(|_| g(rng)).collect::<Vec<_>>().into(), nb)
                        .with_timezone_opt(tz),
                ),
                TimeUnit::Millisecond => Arc::new(
                    PrimitiveArray::<TimestampMillisecondType>::new((0..n).map(|_| g(rng)).collect::<Vec<_>>().into(), nb)
                        .with_timezone_opt(tz),
                ),
                TimeUnit::Microsecond => Arc::new(
                    PrimitiveArray::<TimestampMicrosecondType>::new((0..n).map(|_| g(rng)).collect::<Vec<_>>().into(), nb)
                        .with_timezone_opt(tz),
                ),
                TimeUnit::Nanosecond => Arc::new(
                    PrimitiveArray::<TimestampNanosecondType>::new((0..n).map(|_| g(rng)).collect::<Vec<_>>().into(), nb)
                        .with_timezone_opt(tz),
                ),
            }
        }
        DataType::Duration(u) => {
            let g = |rng: &mut Rng| gen_i128(rng, i64::MIN as i128, i64::MAX as i128, small) as i64;
            match u {
                TimeUnit::Second => prim!(rng, n, nb, DurationSecondType, g(rng)),
                TimeUnit::Millisecond => prim!(rng, n, nb, DurationMillisecondType, g(rng)),
                TimeUnit::Microsecond => prim!(rng, n, nb, DurationMicrosecondType, g(rng)),
                TimeUnit::Nanosecond => prim!(rng, n, nb, DurationNanosecondType, g(rng)),
            }
        }
        DataType::Interval(_) => {
            let vals: Vec<IntervalMonthDayNano> = (0..n)
                .map(|_| IntervalMonthDayNano::new(rng.range(-20, 20) as i32, rng.range(-40, 40) as i32, rng.range(-1_000_000, 1_000_000)))
                .collect();
            Arc::new(PrimitiveArray::<IntervalMonthDayNanoType>::new(vals.into(), nb))
        }
        DataType::Decimal128(p, s) => {
            let max = 10i128.pow(*p as u32) - 1;
            let vals: Vec<i128> = (0..n).map(|_| gen_i128(rng, -max, max, small)).collect();
            Arc::new(
                PrimitiveArray::<Decimal128Type>::new(vals.into(), nb)
                    .with_precision_and_scale(*p, *s)
                    .unwrap(),
            )
        }
        DataType::Decimal256(p, s) => {
            let vals: Vec<i256> = (0..n)
                .map(|_| {
                    let digits = (*p as u32).min(38);
                    let max = 10i128.pow(digits) - 1;
                    i256::from_i128(gen_i128(rng, -max, max, small))
                })
                .collect();
            Arc::new(
                PrimitiveArray::<Decimal256Type>::new(vals.into(), nb)
                    .with_precision_and_scale(*p, *s)
                    .unwrap(),
            )
        }
        DataType::Utf8 => {
            let mut b = StringBuilder::new();
            for i in 0..n {
                // garbage behind nulls: a null slot may carry bytes
                let null = nb.as_ref().map(|x| x.is_null(i)).unwrap_or(false);
                if null && rng.bool() {
                    b.append_null();
                } else {
                    b.append_value(gen_string(rng, large));
                }
            }
            let a = b.finish();
            let (off, vals, _) = a.into_parts();
            Arc::new(StringArray::new(off, vals, nb))
        }
        DataType::LargeUtf8 => {
            let mut b = LargeStringBuilder::new();
            for _ in 0..n {
                b.append_value(gen_string(rng, large));
            }
            let (off, vals, _) = b.finish().into_parts();
            Arc::new(LargeStringArray::new(off, vals, nb))
        }
        DataType::Binary => {
            let mut b = BinaryBuilder::new();
            for _ in 0..n {
                b.append_value(gen_bytes(rng, large));
            }
            let (off, vals, _) = b.finish().into_parts();
            Arc::new(BinaryArray::new(off, vals, nb))
        }
        DataType::LargeBinary => {
            let mut b = LargeBinaryBuilder::new();
            let blob = field.metadata().contains_key("lance-encoding:blob");
            for _ in 0..n {
                if blob && rng.chance(1, 3) {
                    let len = rng.urange(100, 70_000);
                    b.append_value(rng.bytes(len));
                } else {
                    b.append_value(gen_bytes(rng, large));
                }
            }
            let (off, vals, _) = b.finish().into_parts();
            Arc::new(LargeBinaryArray::new(off, vals, nb))
        }
        DataType::Utf8View => {
            let v: Vec<Option<String>> = (0..n)
                .map(|i| {
                    if nb.as_ref().map(|x| x.is_null(i)).unwrap_or(false) {
                        None
                    } else {
                        Some(gen_string(rng, true))
                    }
                })
                .collect();
            Arc::new(StringViewArray::from_iter(v))
        }
        DataType::BinaryView => {
            let v: Vec<Option<Vec<u8>>> = (0..n)
                .map(|i| {
                    if nb.as_ref().map(|x| x.is_null(i)).unwrap_or(false) {
                        None
                    } else {
                        Some(gen_bytes(rng, true))
                    }
                })
                .collect();
            Arc::new(BinaryViewArray::from_iter(v))
        }
        DataType::FixedSizeBinary(w) => {
            let vals = rng.bytes(n * *w as usize);
            Arc::new(FixedSizeBinaryArray::new(*w, vals.into(), nb))
        }
        DataType::Dictionary(k, v) => {
            let card = rng.urange(1, 6);
            // null dictionary *values* are logical nulls: only for nullable fields
            let vf = Field::new("v", v.as_ref().clone(), field.is_nullable() && cfg.nulls && rng.chance(1, 4));
            let values = gen_array(rng, &vf, card, cfg);
            macro_rules! dict {
                ($kt:ty, $nat:ty) => {{
                    let keys: Vec<$nat> = (0..n).map(|_| rng.usize_below(card) as $nat).collect();
                    let keys = PrimitiveArray::<$kt>::new(keys.into(), nb);
                    Arc::new(DictionaryArray::<$kt>::try_new(keys, values).unwrap()) as ArrayRef
                }};
            }
            match k.as_ref() {
                DataType::Int8 => dict!(Int8Type, i8),
                DataType::Int16 => dict!(Int16Type, i16),
                DataType::Int32 => dict!(Int32Type, i32),
                DataType::Int64 => dict!(Int64Type, i64),
                DataType::UInt8 => dict!(UInt8Type, u8),
                DataType::UInt16 => dict!(UInt16Type, u16),
                DataType::UInt32 => dict!(UInt32Type, u32),
                _ => dict!(UInt64Type, u64),
            }
        }
        DataType::List(child) => {
            let lens = list_lengths(rng, n, &nb);
            let total: usize = lens.iter().sum();
            let values = gen_array(rng, child, total, cfg);
            Arc::new(ListArray::new(child.clone(), OffsetBuffer::from_lengths(lens), values, nb))
        }
        DataType::LargeList(child) => {
            let lens = list_lengths(rng, n, &nb);
            let total: usize = lens.iter().sum();
            let values = gen_array(rng, child, total, cfg);
            Arc::new(LargeListArray::new(child.clone(), OffsetBuffer::from_lengths(lens), values, nb))
        }
        DataType::FixedSizeList(child, size) => {
            let values = gen_array(rng, child, n * *size as usize, cfg);
            Arc::new(FixedSizeListArray::new(child.clone(), *size, values, nb))
        }
        DataType::Struct(fields) => {
            let nb = if cfg.struct_nulls { nb } else { None };
            if fields.is_empty() {
                return Arc::new(StructArray::new_empty_fields(n, nb));
            }
            let children: Vec<ArrayRef> = fields.iter().map(|f| gen_array(rng, f, n, cfg)).collect();
            Arc::new(StructArray::new(fields.clone(), children, nb))
        }
        other => panic!("arrgen: unsupported type {other:?}"),
    }
}

fn list_lengths(rng: &mut Rng, n: usize, nb: &Option<NullBuffer>) -> Vec<usize> {
    let mode = rng.below(5);
    (0..n)
        .map(|i| {
            let null = nb.as_ref().map(|x| x.is_null(i)).unwrap_or(false);
            if null && (rng.chance(2, 3) || std::env::var("E_IO_NO_GARBAGE").is_ok()) {
                // most null lists are empty, some carry garbage items
                return 0;
            }
            match mode {
                0 => 0,
                1 => rng.urange(0, 1),
                2 => rng.urange(0, 4),
                3 => {
                    if rng.chance(1, 10) {
                        rng.urange(10, 40)
                    } else {
                        rng.urange(0, 3)
                    }
                }
                _ => rng.urange(1, 3),
            }
        })
        .collect()
}
