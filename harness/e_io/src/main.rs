//! Engine binary `e_io`: one module per property. See /verif/DESIGN.md.
use vmon::report::parse_args;

mod arrgen;
mod c25;
mod c30;
mod c31;
mod c36;
mod c41;
mod gate;
mod qmon;
mod sink;

fn main() {
    let args = parse_args();
    let code = match args.prop.as_str() {
        "C25" => c25::run(&args),
        "C30" => c30::run(&args),
        "C31" => c31::run(&args),
        "C36" => c36::run(&args),
        "C41" => c41::run(&args),
        other => {
            eprintln!("HARNESS-ERROR e_io does not serve property '{other}'");
            2
        }
    };
    std::process::exit(code);
}
