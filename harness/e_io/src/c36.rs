//! C36 — the namespace catalog behaves as a hierarchical map.
//!
//! Random operation sequences against the real `lance_namespace_impls::DirectoryNamespace` (directory
//! listing only / manifest only / dual; local tempdir and `memory://` roots) with names over a hostile
//! alphabet. Model: `BTreeSet<Vec<String>>` of namespaces + `BTreeMap<(Vec<String>, String), Kind>` of
//! tables. After every operation the listings of every known namespace are compared with the model
//! (so an operation on one name that changes another name is seen immediately), `table_exists` is
//! probed for the touched and for other names, and at the end every listing is paged with random page
//! sizes following the protocol of the API (`page_token` of the response, null = end).

use arrow_array::{Int32Array, RecordBatch};
use arrow_schema::{DataType, Field, Schema};
use bytes::Bytes;
use lance_namespace::models::*;
use lance_namespace::LanceNamespace;
use lance_namespace_impls::DirectoryNamespaceBuilder;
use serde_json::{json, Value};
use std::collections::{BTreeMap, BTreeSet};
use std::panic::AssertUnwindSafe;
use std::sync::Arc;
use std::time::Duration;
use futures::FutureExt;
use vmon::prng::{fnv, Rng};
use vmon::report::{Args, Report};

const RULE: &str = "Sequence = mode (dir / manifest / dual) x root (tempdir / memory) x 8-16 seeded operations (create/drop \
namespace, create table with IPC data, create empty table, drop, register, deregister, describe, exists, list) over names \
of length 1-4 from {a,B,1,$,',\",.,/,space,e-acute,%}; the model is checked after every operation. Non-trivial iff >=3 \
operations succeeded and >=1 name with a special character was accepted or >=1 child namespace existed; distinct by \
(mode, root kind, operation kinds, name classes).";

const ALPHABET: &[&str] = &["a", "B", "1", "$", "'", "\"", ".", "/", " ", "é", "%"];

#[derive(Clone, Copy, Debug, PartialEq, Eq)]
enum Mode {
    Dir,
    Manifest,
    Dual,
}

#[derive(Clone, Copy, Debug, PartialEq, Eq)]
enum Kind {
    Data,
    Empty,
    Registered,
}

type NsPath = Vec<String>;

#[derive(Default, Clone)]
struct Model {
    namespaces: BTreeSet<NsPath>,
    tables: BTreeMap<(NsPath, String), Kind>,
}

impl Model {
    fn ns_exists(&self, p: &NsPath) -> bool {
        p.is_empty() || self.namespaces.contains(p)
    }
    fn tables_in(&self, p: &NsPath) -> Vec<String> {
        self.tables.keys().filter(|(n, _)| n == p).map(|(_, t)| t.clone()).collect()
    }
    fn children_of(&self, p: &NsPath) -> Vec<String> {
        self.namespaces
            .iter()
            .filter(|n| n.len() == p.len() + 1 && n[..p.len()] == p[..])
            .map(|n| n.last().unwrap().clone())
            .collect()
    }
    /// same object id used by a namespace and a table (the catalog keys both by the joined path)
    fn object_taken(&self, p: &NsPath, name: &str) -> bool {
        let mut full = p.clone();
        full.push(name.to_string());
        self.namespaces.contains(&full) || self.tables.contains_key(&(p.clone(), name.to_string()))
    }
}

fn name_class(n: &str) -> &'static str {
    if n.contains('$') {
        "dollar"
    } else if n.contains('\'') {
        "single-quote"
    } else if n.contains('"') {
        "double-quote"
    } else if n.contains('/') {
        "slash"
    } else if n.contains('%') {
        "percent"
    } else if n.contains('.') {
        "dot"
    } else if n.contains(' ') {
        "space"
    } else if !n.is_ascii() {
        "non-ascii"
    } else {
        "plain"
    }
}

fn gen_name(rng: &mut Rng) -> String {
    if rng.chance(1, 3) {
        // plain
        let n = rng.urange(1, 3);
        (0..n).map(|_| *rng.pick(&["a", "B", "1"])).collect()
    } else {
        let n = rng.urange(1, 4);
        (0..n).map(|_| *rng.pick(ALPHABET)).collect()
    }
}

fn ipc_data() -> Bytes {
    let schema = Arc::new(Schema::new(vec![Field::new("x", DataType::Int32, true)]));
    let batch = RecordBatch::try_new(schema.clone(), vec![Arc::new(Int32Array::from(vec![1, 2]))]).unwrap();
    let mut buf = vec![];
    {
        let mut w = arrow::ipc::writer::StreamWriter::try_new(&mut buf, &schema).unwrap();
        w.write(&batch).unwrap();
        w.finish().unwrap();
    }
    Bytes::from(buf)
}

#[derive(Clone, Debug)]
enum Op {
    CreateNs(NsPath),
    DropNs(NsPath),
    CreateTable(NsPath, String),
    CreateEmpty(NsPath, String),
    DropTable(NsPath, String),
    Register(NsPath, String, String),
    Deregister(NsPath, String),
    Describe(NsPath, String),
    Exists(NsPath, String),
}

impl Op {
    fn kind(&self) -> &'static str {
        match self {
            Op::CreateNs(_) => "create_namespace",
            Op::DropNs(_) => "drop_namespace",
            Op::CreateTable(..) => "create_table",
            Op::CreateEmpty(..) => "create_empty_table",
            Op::DropTable(..) => "drop_table",
            Op::Register(..) => "register_table",
            Op::Deregister(..) => "deregister_table",
            Op::Describe(..) => "describe_table",
            Op::Exists(..) => "table_exists",
        }
    }
    fn names(&self) -> Vec<String> {
        match self {
            Op::CreateNs(p) | Op::DropNs(p) => p.clone(),
            Op::CreateTable(p, n) | Op::CreateEmpty(p, n) | Op::DropTable(p, n) | Op::Deregister(p, n) | Op::Describe(p, n) | Op::Exists(p, n) => {
                let mut v = p.clone();
                v.push(n.clone());
                v
            }
            Op::Register(p, n, _) => {
                let mut v = p.clone();
                v.push(n.clone());
                v
            }
        }
    }
}

fn tid(p: &NsPath, n: &str) -> Option<Vec<String>> {
    let mut v = p.clone();
    v.push(n.to_string());
    Some(v)
}

fn is_internal_error(e: &str) -> bool {
    let l = e.to_lowercase();
    l.contains("failed to filter")
        || l.contains("tokeniz")
        || l.contains("sql")
        || l.contains("internal error")
        || l.contains("panicked")
        || l.contains("failed to project")
        || l.contains("parser")
}

/// coarse class of the names involved: `dollar` (the id delimiter), `quote` (spliced into SQL
/// filters), `path-char` (characters the object-store path encoding changes), `plain`
fn worst_class(names: &[String]) -> &'static str {
    let has = |c: &str| names.iter().any(|n| name_class(n) == c);
    if has("dollar") {
        "dollar"
    } else if has("single-quote") || has("double-quote") {
        "quote"
    } else if has("slash") || has("percent") || has("dot") || has("space") || has("non-ascii") {
        "path-char"
    } else {
        "plain"
    }
}

struct Seq<'a> {
    report: &'a Report,
    seed: u64,
    idx: u64,
    mode: Mode,
    root_kind: &'static str,
    log: Vec<String>,
    model: Model,
    special_accepted: usize,
    ok_ops: usize,
    /// set by the first violation: model and catalog have diverged, later findings would be echoes
    diverged: std::cell::Cell<bool>,
}

impl Seq<'_> {
    fn witness(&self, extra: Value) -> Value {
        json!({"seed": self.seed as i64, "sequence": self.idx, "mode": format!("{:?}", self.mode), "root": self.root_kind,
            "operations": self.log, "model_namespaces": self.model.namespaces,
            "model_tables": self.model.tables.iter().map(|((p, n), k)| format!("{p:?}/{n:?} ({k:?})")).collect::<Vec<_>>(),
            "detail": extra})
    }
    fn violation(&self, symptom: &str, class: &str, what: &str, extra: Value) {
        // the mode is part of the class only for plain names (special-character classes behave alike
        // wherever the manifest is involved)
        let class = match class {
            "dollar" | "quote" | "path-char" | "plain" => class.to_string(),
            "single-quote" | "double-quote" => "quote".to_string(),
            "any" => "any".to_string(),
            _ => "path-char".to_string(),
        };
        // one signature per (root cause, symptom kind): the root cause is the name class (`$` is the id
        // delimiter, quotes are spliced into SQL, path characters are re-encoded by the object-store
        // path), the shared id space of namespaces and tables, or paging
        let kind = if symptom.contains("id-of-a") {
            "namespace-and-table-share-one-id-space"
        } else if symptom.starts_with("paging") || symptom.starts_with("page-") {
            symptom
        } else if symptom.contains("internal-error") || symptom == "panic" {
            "internal-error"
        } else if symptom.contains("listed") || symptom.contains("listing") {
            "listing-differs-from-map"
        } else if symptom.contains("exists") || symptom.contains("found-a-table") {
            "table-exists-differs-from-map"
        } else if symptom.contains("succeeded") || symptom.contains("dropped-a-table") {
            "operation-accepted-that-the-map-rejects"
        } else {
            symptom
        };
        let sig = if kind == "namespace-and-table-share-one-id-space" {
            kind.to_string()
        } else if class == "plain" || class == "any" {
            format!("{kind}-{}-{class}", format!("{:?}", self.mode).to_lowercase())
        } else {
            format!("{kind}-{class}")
        };
        let what = format!("[{symptom}] {what}");
        let what = what.as_str();
        self.report.violation(&sig, what, self.witness(extra));
        self.diverged.set(true);
    }
}

async fn guarded<T>(fut: impl std::future::Future<Output = lance_core::Result<T>>) -> Result<T, String> {
    match tokio::time::timeout(Duration::from_secs(180), AssertUnwindSafe(fut).catch_unwind()).await {
        Err(_) => Err("TIMEOUT".into()),
        Ok(Err(p)) => {
            let m = p
                .downcast_ref::<String>()
                .cloned()
                .or_else(|| p.downcast_ref::<&str>().map(|s| s.to_string()))
                .unwrap_or_default();
            Err(format!("PANIC: {m}"))
        }
        Ok(Ok(Err(e))) => Err(e.to_string()),
        Ok(Ok(Ok(x))) => Ok(x),
    }
}

/// compare every listing with the model
async fn check_state(s: &Seq<'_>, ns: &dyn LanceNamespace, last: &Op) {
    let mut spaces: Vec<NsPath> = vec![vec![]];
    if s.mode != Mode::Dir {
        spaces.extend(s.model.namespaces.iter().cloned());
    }
    for p in spaces.iter().take(6) {
        let got = guarded(ns.list_tables(ListTablesRequest {
            id: Some(p.clone()),
            page_token: None,
            limit: None,
        }))
        .await;
        s.report.count("listings_compared", 1);
        match got {
            Err(e) => {
                let class = worst_class(&[p.clone(), last.names()].concat());
                s.violation(
                    if is_internal_error(&e) || e.starts_with("PANIC") { "list-tables-internal-error" } else { "list-tables-failed-for-existing-namespace" },
                    class,
                    &format!("list_tables({p:?}) failed: {e}"),
                    json!({"namespace": p, "error": e}),
                );
            }
            Ok(r) => {
                let mut got: Vec<String> = r.tables;
                got.sort();
                let mut exp = s.model.tables_in(p);
                exp.sort();
                if got != exp {
                    let missing: Vec<String> = exp.iter().filter(|x| !got.contains(x)).cloned().collect();
                    let extra: Vec<String> = got.iter().filter(|x| !exp.contains(x)).cloned().collect();
                    let dup = got.windows(2).any(|w| w[0] == w[1]);
                    // which model names explain it?
                    let mut involved: Vec<String> = missing.clone();
                    involved.extend(extra.clone());
                    involved.extend(last.names());
                    // an extra entry that is the tail of a `$` name stored elsewhere
                    let misplaced = extra.iter().any(|e| {
                        s.model.tables.keys().any(|(_, n)| n.contains('$') && n.ends_with(&format!("${e}")))
                    });
                    let symptom = if misplaced {
                        "table-listed-under-wrong-namespace"
                    } else if dup && missing.is_empty() && extra.is_empty() {
                        "table-listed-twice"
                    } else if !missing.is_empty() && extra.is_empty() {
                        "table-missing-from-listing"
                    } else if missing.is_empty() {
                        "unknown-table-in-listing"
                    } else {
                        "table-listed-under-different-name"
                    };
                    let class = if misplaced { "dollar" } else { worst_class(&involved) };
                    s.violation(
                        symptom,
                        class,
                        &format!("list_tables({p:?}) = {got:?}, model has {exp:?} (after {})", last.kind()),
                        json!({"namespace": p, "listed": got, "expected": exp}),
                    );
                }
            }
        }
        if s.mode != Mode::Dir {
            let got = guarded(ns.list_namespaces(ListNamespacesRequest {
                id: Some(p.clone()),
                page_token: None,
                limit: None,
            }))
            .await;
            match got {
                Err(e) => {
                    let class = worst_class(&[p.clone(), last.names()].concat());
                    s.violation(
                        if is_internal_error(&e) || e.starts_with("PANIC") { "list-namespaces-internal-error" } else { "list-namespaces-failed-for-existing-namespace" },
                        class,
                        &format!("list_namespaces({p:?}) failed: {e}"),
                        json!({"namespace": p, "error": e}),
                    );
                }
                Ok(r) => {
                    let mut got = r.namespaces;
                    got.sort();
                    let mut exp = s.model.children_of(p);
                    exp.sort();
                    if got != exp {
                        let mut involved: Vec<String> = got.iter().filter(|x| !exp.contains(x)).cloned().collect();
                        involved.extend(exp.iter().filter(|x| !got.contains(x)).cloned());
                        involved.extend(last.names());
                        s.violation(
                            "namespace-listing-differs",
                            worst_class(&involved),
                            &format!("list_namespaces({p:?}) = {got:?}, model has {exp:?} (after {})", last.kind()),
                            json!({"namespace": p, "listed": got, "expected": exp}),
                        );
                    }
                }
            }
        }
    }
}

async fn probe_exists(s: &Seq<'_>, ns: &dyn LanceNamespace, p: &NsPath, n: &str) {
    let expected = s.model.tables.contains_key(&(p.clone(), n.to_string()));
    if s.mode == Mode::Dir && !p.is_empty() {
        return;
    }
    let got = guarded(ns.table_exists(TableExistsRequest {
        id: tid(p, n),
        version: None,
    }))
    .await;
    s.report.count("exists_probes", 1);
    match (&got, expected) {
        (Ok(()), true) | (Err(_), false) => {
            if let Err(e) = &got {
                if e.starts_with("PANIC") || (is_internal_error(e) && name_class(n) == "plain") {
                    s.violation("table-exists-internal-error", name_class(n), &format!("table_exists({p:?},{n:?}) failed with {e}"), json!({"error": e}));
                }
            }
        }
        (Ok(()), false) => s.violation(
            if s.model.namespaces.contains(&[p.clone(), vec![n.to_string()]].concat()) {
                "table-found-under-the-id-of-a-namespace"
            } else {
                "table-exists-says-yes-for-missing-table"
            },
            worst_class(&[p.clone(), vec![n.to_string()]].concat()),
            &format!("table_exists({p:?},{n:?}) = Ok but the model has no such table"),
            json!({}),
        ),
        (Err(e), true) => s.violation(
            "table-exists-misses-existing-table",
            worst_class(&[p.clone(), vec![n.to_string()]].concat()),
            &format!("table_exists({p:?},{n:?}) failed ({e}) but the table was created"),
            json!({"error": e}),
        ),
    }
}

async fn run_sequence(report: &Report, seed: u64, idx: u64, selftest: bool) {
    let mut rng = Rng::for_case(seed, idx);
    let mode = *rng.pick(&[Mode::Dir, Mode::Manifest, Mode::Manifest, Mode::Dual, Mode::Dual]);
    // directory-only mode on a memory:// root is not generated: create_table opens the table URI on its
    // own and every `memory://` store is private to the object that opened it (see NOTES.md)
    let use_memory = mode != Mode::Dir && rng.chance(1, 2);
    let tmp = if use_memory {
        None
    } else {
        match tempfile::Builder::new().prefix("e_io-c36-").tempdir_in("/tmp") {
            Ok(d) => Some(d),
            Err(e) => {
                report.harness_error(&format!("tempdir: {e}"));
                return;
            }
        }
    };
    let root = match &tmp {
        Some(d) => d.path().to_string_lossy().to_string(),
        None => format!("memory://e_io_c36_{}_{}_{}", std::process::id(), seed, idx),
    };
    let builder = DirectoryNamespaceBuilder::new(root.clone())
        .manifest_enabled(mode != Mode::Dir)
        .dir_listing_enabled(mode != Mode::Manifest)
        .inline_optimization_enabled(rng.bool());
    let ns = match guarded(builder.build()).await {
        Ok(n) => n,
        Err(e) => {
            report.harness_error(&format!("cannot build namespace ({mode:?}, {root}): {e}"));
            return;
        }
    };
    let mut s = Seq {
        report,
        seed,
        idx,
        mode,
        root_kind: if use_memory { "memory" } else { "tempdir" },
        log: vec![],
        model: Model::default(),
        special_accepted: 0,
        ok_ops: 0,
        diverged: std::cell::Cell::new(false),
    };
    let data = ipc_data();
    let n_ops = rng.urange(8, 16);
    // a small pool of names so that operations collide
    let pool: Vec<String> = (0..rng.urange(3, 6)).map(|_| gen_name(&mut rng)).collect();
    let mut dropped: Vec<(NsPath, String)> = vec![];
    let mut reg_counter = 0;
    for _ in 0..n_ops {
        if !report.time_left() {
            break;
        }
        // choose a namespace path: root or an existing / fresh child
        let existing: Vec<NsPath> = s.model.namespaces.iter().cloned().collect();
        let pick_ns = |rng: &mut Rng| -> NsPath {
            if mode == Mode::Dir || existing.is_empty() || rng.chance(1, 2) {
                vec![]
            } else {
                existing[rng.usize_below(existing.len())].clone()
            }
        };
        let name = pool[rng.usize_below(pool.len())].clone();
        let op = match rng.below(if mode == Mode::Dir { 7 } else { 12 }) {
            0 | 1 => Op::CreateTable(pick_ns(&mut rng), name),
            2 => Op::CreateEmpty(pick_ns(&mut rng), name),
            3 => {
                let keys: Vec<_> = s.model.tables.iter().filter(|(_, k)| **k != Kind::Registered).map(|(k, _)| k.clone()).collect();
                if !keys.is_empty() && rng.chance(3, 4) {
                    let (p, n) = keys[rng.usize_below(keys.len())].clone();
                    Op::DropTable(p, n)
                } else {
                    Op::DropTable(pick_ns(&mut rng), name)
                }
            }
            4 => Op::Exists(pick_ns(&mut rng), name),
            5 => {
                let keys: Vec<_> = s.model.tables.iter().filter(|(_, k)| **k == Kind::Data).map(|(k, _)| k.clone()).collect();
                if !keys.is_empty() {
                    let (p, n) = keys[rng.usize_below(keys.len())].clone();
                    Op::Describe(p, n)
                } else {
                    Op::Describe(pick_ns(&mut rng), name)
                }
            }
            6 => Op::CreateTable(pick_ns(&mut rng), gen_name(&mut rng)),
            7 | 8 => {
                let mut p = pick_ns(&mut rng);
                if p.len() >= 2 {
                    p.truncate(1);
                }
                p.push(name);
                Op::CreateNs(p)
            }
            9 => {
                if !existing.is_empty() {
                    Op::DropNs(existing[rng.usize_below(existing.len())].clone())
                } else {
                    Op::DropNs(vec![name])
                }
            }
            10 => {
                reg_counter += 1;
                Op::Register(pick_ns(&mut rng), name, format!("ext{reg_counter}.lance"))
            }
            _ => {
                let keys: Vec<_> = s.model.tables.keys().cloned().collect();
                if !keys.is_empty() && rng.chance(3, 4) {
                    let (p, n) = keys[rng.usize_below(keys.len())].clone();
                    Op::Deregister(p, n)
                } else {
                    Op::Deregister(pick_ns(&mut rng), name)
                }
            }
        };
        let op = match op {
            Op::DropTable(p, n) if s.model.tables.get(&(p.clone(), n.clone())) == Some(&Kind::Registered) => Op::Deregister(p, n),
            Op::Deregister(p, n)
                if mode == Mode::Dual && matches!(s.model.tables.get(&(p.clone(), n.clone())), Some(Kind::Data) | Some(Kind::Empty)) =>
            {
                // dual mode keeps finding the directory of a deregistered table: not a map operation
                Op::Exists(p, n)
            }
            other => other,
        };
        // ---- model expectation
        #[derive(PartialEq, Debug)]
        enum Expect {
            Ok,
            Err,
            /// the model allows both (name collision between a namespace and a table; non-plain names
            /// may be rejected)
            Either,
        }
        let m = &s.model;
        let names = op.names();
        let plain = names.iter().all(|n| name_class(n) == "plain");
        let expect = match &op {
            Op::CreateNs(p) => {
                if mode == Mode::Dir {
                    Expect::Err
                } else {
                    let parent = p[..p.len() - 1].to_vec();
                    if !m.ns_exists(&parent) || m.namespaces.contains(p) {
                        Expect::Err
                    } else if m.tables.contains_key(&(parent, p.last().unwrap().clone())) {
                        Expect::Either
                    } else {
                        Expect::Ok
                    }
                }
            }
            Op::DropNs(p) => {
                if mode == Mode::Dir || !m.namespaces.contains(p) || !m.children_of(p).is_empty() || !m.tables_in(p).is_empty() {
                    Expect::Err
                } else {
                    Expect::Ok
                }
            }
            Op::CreateTable(p, n) | Op::CreateEmpty(p, n) | Op::Register(p, n, _) => {
                if mode == Mode::Dir && (matches!(op, Op::Register(..)) || !p.is_empty()) {
                    Expect::Err
                } else if !m.ns_exists(p) || m.tables.contains_key(&(p.clone(), n.clone())) {
                    // directory mode overwrites silently? the map model says a duplicate create fails
                    Expect::Err
                } else if m.object_taken(p, n) {
                    Expect::Either
                } else {
                    Expect::Ok
                }
            }
            Op::DropTable(p, n) | Op::Deregister(p, n) | Op::Describe(p, n) | Op::Exists(p, n) => {
                if mode == Mode::Dir && matches!(op, Op::Deregister(..)) {
                    Expect::Err
                } else if m.tables.contains_key(&(p.clone(), n.clone())) {
                    Expect::Ok
                } else {
                    Expect::Err
                }
            }
        };
        // ---- execute
        let res: Result<(), String> = match &op {
            Op::CreateNs(p) => guarded(ns.create_namespace(CreateNamespaceRequest {
                id: Some(p.clone()),
                mode: None,
                properties: None,
            }))
            .await
            .map(|_| ()),
            Op::DropNs(p) => guarded(ns.drop_namespace(DropNamespaceRequest {
                id: Some(p.clone()),
                mode: None,
                behavior: None,
            }))
            .await
            .map(|_| ()),
            Op::CreateTable(p, n) => guarded(ns.create_table(
                CreateTableRequest {
                    id: tid(p, n),
                    location: None,
                    mode: None,
                    properties: None,
                },
                data.clone(),
            ))
            .await
            .map(|_| ()),
            Op::CreateEmpty(p, n) => guarded(ns.create_empty_table(CreateEmptyTableRequest {
                id: tid(p, n),
                location: None,
                properties: None,
            }))
            .await
            .map(|_| ()),
            Op::DropTable(p, n) => guarded(ns.drop_table(DropTableRequest { id: tid(p, n) })).await.map(|_| ()),
            Op::Register(p, n, loc) => guarded(ns.register_table(RegisterTableRequest {
                id: tid(p, n),
                location: loc.clone(),
                mode: None,
                properties: None,
            }))
            .await
            .map(|_| ()),
            Op::Deregister(p, n) => guarded(ns.deregister_table(DeregisterTableRequest { id: tid(p, n) })).await.map(|_| ()),
            Op::Describe(p, n) => guarded(ns.describe_table(DescribeTableRequest {
                id: tid(p, n),
                version: None,
            }))
            .await
            .map(|_| ()),
            Op::Exists(p, n) => guarded(ns.table_exists(TableExistsRequest {
                id: tid(p, n),
                version: None,
            }))
            .await,
        };
        s.log.push(format!(
            "{}({:?}) -> {}",
            op.kind(),
            names,
            match &res {
                Ok(()) => "ok".to_string(),
                Err(e) => format!("err: {}", e.chars().take(140).collect::<String>()),
            }
        ));
        report.count(&format!("op.{}.{}", op.kind(), if res.is_ok() { "ok" } else { "err" }), 1);
        for n in &names {
            report.count(&format!("name_class.{}", name_class(n)), 1);
        }
        if let Err(e) = &res {
            if e == "TIMEOUT" {
                report.inconclusive(&format!("C36 sequence {idx}: {} did not return in 180 s", op.kind()));
                return;
            }
        }
        let class = worst_class(&names);
        // ---- judge the reply and update the model
        match (&res, &expect) {
            (Ok(()), Expect::Err) => {
                let (symptom, apply) = match &op {
                    Op::CreateTable(..) | Op::CreateEmpty(..) | Op::Register(..) if m.tables.contains_key(&(names[..names.len() - 1].to_vec(), names.last().unwrap().clone())) => ("duplicate-create-succeeded", false),
                    Op::Exists(..) | Op::Describe(..) if m.namespaces.contains(&names) => ("table-found-under-the-id-of-a-namespace", false),
                    Op::Exists(..) | Op::Describe(..) => ("found-a-table-that-was-never-created", false),
                    Op::DropTable(..) | Op::Deregister(..) => ("dropped-a-table-that-does-not-exist", false),
                    Op::DropNs(p) if p.len() >= 1 && m.tables.contains_key(&(p[..p.len() - 1].to_vec(), p.last().unwrap().clone())) => {
                        ("drop-namespace-accepted-the-id-of-a-table", false)
                    }
                    _ => ("operation-succeeded-but-the-map-model-rejects-it", false),
                };
                let _ = apply;
                s.violation(symptom, class, &format!("{}({names:?}) returned Ok, expected an error", op.kind()), json!({"op": format!("{op:?}")}));
            }
            (Err(e), Expect::Ok) => {
                if e.starts_with("PANIC") {
                    s.violation("panic", class, &format!("{}({names:?}) panicked: {e}", op.kind()), json!({"op": format!("{op:?}"), "error": e}));
                } else if is_internal_error(e) {
                    s.violation(
                        &format!("internal-error-on-{}", op.kind().replace('_', "-")),
                        class,
                        &format!("{}({names:?}) failed with an internal error instead of a clean rejection: {e}", op.kind()),
                        json!({"op": format!("{op:?}"), "error": e}),
                    );
                } else if plain {
                    s.violation(
                        &format!("unexpected-rejection-of-{}", op.kind().replace('_', "-")),
                        class,
                        &format!("{}({names:?}) was rejected although the map model accepts it: {e}", op.kind()),
                        json!({"op": format!("{op:?}"), "error": e}),
                    );
                } else {
                    // a name the catalog refuses to store: allowed, must be without effect (checked below)
                    report.rejected();
                    report.count(&format!("rejected_names.{class}"), 1);
                }
            }
            _ => {}
        }
        if res.is_ok() && expect == Expect::Either {
            report.count("sequences_stopped_after_namespace_table_id_collision", 1);
            report.case(None);
            return;
        }
        if res.is_ok() {
            s.ok_ops += 1;
            if !plain && !matches!(op, Op::Exists(..) | Op::Describe(..)) {
                s.special_accepted += 1;
            }
            match &op {
                Op::CreateNs(p) => {
                    s.model.namespaces.insert(p.clone());
                }
                Op::DropNs(p) => {
                    s.model.namespaces.remove(p);
                }
                Op::CreateTable(p, n) => {
                    s.model.tables.insert((p.clone(), n.clone()), Kind::Data);
                }
                Op::CreateEmpty(p, n) => {
                    s.model.tables.insert((p.clone(), n.clone()), Kind::Empty);
                }
                Op::Register(p, n, _) => {
                    s.model.tables.insert((p.clone(), n.clone()), Kind::Registered);
                }
                Op::DropTable(p, n) | Op::Deregister(p, n) => {
                    s.model.tables.remove(&(p.clone(), n.clone()));
                    dropped.push((p.clone(), n.clone()));
                }
                _ => {}
            }
        }
        if selftest && s.ok_ops == 3 {
            // corrupt the model: pretend a table exists that was never created
            s.model.tables.insert((vec![], "zzselftest".into()), Kind::Data);
        }
        if s.diverged.get() {
            break;
        }
        // ---- the whole catalog against the model
        check_state(&s, &ns, &op).await;
        if s.diverged.get() {
            break;
        }
        if let Some(last) = names.last() {
            let p = names[..names.len() - 1].to_vec();
            if !matches!(op, Op::CreateNs(_) | Op::DropNs(_)) {
                probe_exists(&s, &ns, &p, last).await;
            }
        }
        // another name must not be affected
        let keys: Vec<_> = s.model.tables.keys().cloned().collect();
        if !keys.is_empty() {
            let (p, n) = keys[rng.usize_below(keys.len())].clone();
            probe_exists(&s, &ns, &p, &n).await;
        }
        if let Some((p, n)) = dropped.last().cloned() {
            if !s.model.tables.contains_key(&(p.clone(), n.clone())) {
                probe_exists(&s, &ns, &p, &n).await;
            }
        }
        if s.diverged.get() {
            break;
        }
    }
    if s.diverged.get() {
        report.case(None);
        report.count("sequences_stopped_at_first_violation", 1);
        return;
    }
    // ---- paging
    let mut spaces: Vec<NsPath> = vec![vec![]];
    if mode != Mode::Dir {
        spaces.extend(s.model.namespaces.iter().cloned());
    }
    for p in spaces.iter().take(4) {
        let exp = {
            let mut e = s.model.tables_in(p);
            e.sort();
            e
        };
        if exp.len() < 2 {
            continue;
        }
        let limit = rng.urange(1, exp.len() - 1) as i32;
        let mut token: Option<String> = None;
        let mut seen: Vec<String> = vec![];
        let mut pages = 0;
        let mut over_limit = false;
        loop {
            pages += 1;
            let r = guarded(ns.list_tables(ListTablesRequest {
                id: Some(p.clone()),
                page_token: token.clone(),
                limit: Some(limit),
            }))
            .await;
            let Ok(r) = r else { break };
            if r.tables.len() > limit as usize {
                over_limit = true;
            }
            seen.extend(r.tables);
            token = r.page_token.filter(|t| !t.is_empty());
            if token.is_none() || pages > exp.len() + 3 {
                break;
            }
        }
        report.count("paged_listings", 1);
        report.count("pages_fetched", pages as u64);
        let mut sorted = seen.clone();
        sorted.sort();
        let dup = sorted.windows(2).any(|w| w[0] == w[1]);
        sorted.dedup();
        let missing: Vec<&String> = exp.iter().filter(|x| !sorted.contains(x)).collect();
        // only judge paging where the unpaged listing was right
        let full_ok = guarded(ns.list_tables(ListTablesRequest { id: Some(p.clone()), page_token: None, limit: None }))
            .await
            .map(|r| {
                let mut t = r.tables;
                t.sort();
                t == exp
            })
            .unwrap_or(false);
        if !full_ok {
            continue;
        }
        if dup {
            s.violation("paging-returns-an-entry-twice", "any", &format!("paging list_tables({p:?}) with limit {limit}: {seen:?}"), json!({"limit": limit, "pages": pages}));
        } else if !missing.is_empty() {
            s.violation(
                "paging-ends-without-token-before-all-entries",
                "any",
                &format!("paging list_tables({p:?}) with limit {limit} delivered {seen:?} in {pages} page(s) and no continuation token; {missing:?} never delivered"),
                json!({"limit": limit, "pages": pages, "expected": exp}),
            );
        } else if over_limit {
            s.violation(
                "page-larger-than-limit",
                "any",
                &format!("list_tables({p:?}, limit {limit}) returned {} entries in one page", seen.len()),
                json!({"limit": limit, "pages": pages, "expected": exp}),
            );
        }
    }
    let has_child = !s.model.namespaces.is_empty();
    let nontrivial = s.ok_ops >= 3 && (s.special_accepted >= 1 || has_child);
    let kinds: BTreeSet<String> = s.log.iter().map(|l| l.split('(').next().unwrap_or("").to_string()).collect();
    let classes: BTreeSet<&'static str> = pool.iter().map(|n| name_class(n)).collect();
    let sig = fnv(format!("{mode:?}|{}|{kinds:?}|{classes:?}|{}", s.root_kind, s.model.namespaces.len().min(3)).as_bytes());
    report.case(if nontrivial { Some(sig) } else { None });
    report.count(&format!("sequences.{mode:?}.{}", s.root_kind), 1);
    report.count("operations", s.log.len() as u64);
    if report.want_sample() && nontrivial && idx % 5 == 0 {
        report.sample(json!({"sequence": idx, "mode": format!("{mode:?}"), "root": s.root_kind, "operations": s.log}));
    }
    drop(ns);
    drop(tmp);
}

pub fn run(args: &Args) -> i32 {
    let selftest = args.extra.contains_key("selftest");
    let report = Report::new(args, "exploration", RULE, (55, 900)).with_min_nontrivial(10);
    report.assume("a create that fails cleanly for a name with special characters is a rejected input; its absence of effect is checked by the listing comparison");
    report.assume("paging follows the API contract: the response's page_token is the next request's token, null/empty ends the listing");
    std::panic::set_hook(Box::new(|_| {}));
    let only: Option<u64> = args.extra.get("only-case").and_then(|s| s.parse().ok());
    let threads = if only.is_some() { 1 } else { crate::sink::verif_threads().min(12) };
    let max: u64 = args.tier.pick(20_000, 2_000_000);
    let next = std::sync::atomic::AtomicU64::new(0);
    std::thread::scope(|sc| {
        for _ in 0..threads {
            sc.spawn(|| {
                let rt = tokio::runtime::Builder::new_multi_thread().worker_threads(2).enable_all().build().expect("rt");
                loop {
                    let idx = match only {
                        Some(c) => {
                            if next.fetch_add(1, std::sync::atomic::Ordering::SeqCst) > 0 {
                                break;
                            }
                            c
                        }
                        None => next.fetch_add(1, std::sync::atomic::Ordering::SeqCst),
                    };
                    if idx >= max || !report.time_left() {
                        break;
                    }
                    rt.block_on(run_sequence(&report, args.seed, idx, selftest));
                }
            });
        }
    });
    if selftest {
        let n = report.n_violations();
        println!("SELFTEST C36 violations raised on a corrupted model: {n}");
        return if n > 0 { 0 } else { 2 };
    }
    report.finish()
}
