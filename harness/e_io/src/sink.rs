//! Result collector that can live in a worker *process* (C30 needs several processes because
//! `LANCE_MAX_IOP_SIZE` / `LANCE_PROCESS_IO_THREADS_LIMIT` are read once per process) and be merged
//! into the parent's `vmon::report::Report`. The API mirrors `Report`.

use serde_json::{json, Value};
use std::collections::{BTreeMap, HashSet};
use std::sync::Mutex;
use std::time::Instant;
use vmon::report::Report;

#[derive(Default)]
struct Inner {
    evaluations: u64,
    sigs: HashSet<u64>,
    counters: BTreeMap<String, u64>,
    samples: Vec<Value>,
    violations: Vec<(String, String, Value)>,
    violation_counts: BTreeMap<String, u64>,
    inconclusive: Vec<String>,
    harness_errors: Vec<String>,
    rejected: u64,
}

pub struct Collector {
    start: Instant,
    budget_s: f64,
    max_samples: usize,
    inner: Mutex<Inner>,
}

impl Collector {
    pub fn new(budget_s: f64) -> Self {
        Self {
            start: Instant::now(),
            budget_s,
            max_samples: 4,
            inner: Mutex::new(Inner::default()),
        }
    }
    pub fn time_left(&self) -> bool {
        self.start.elapsed().as_secs_f64() < self.budget_s
    }
    pub fn case(&self, sig: Option<u64>) {
        let mut g = self.inner.lock().unwrap();
        g.evaluations += 1;
        if let Some(s) = sig {
            g.sigs.insert(s);
        }
    }
    pub fn count(&self, key: &str, n: u64) {
        *self
            .inner
            .lock()
            .unwrap()
            .counters
            .entry(key.to_string())
            .or_insert(0) += n;
    }
    /// counter that keeps the maximum
    pub fn max(&self, key: &str, n: u64) {
        let mut g = self.inner.lock().unwrap();
        let e = g.counters.entry(format!("max.{key}")).or_insert(0);
        if n > *e {
            *e = n;
        }
    }
    pub fn rejected(&self) {
        self.inner.lock().unwrap().rejected += 1;
    }
    pub fn want_sample(&self) -> bool {
        self.inner.lock().unwrap().samples.len() < self.max_samples
    }
    pub fn sample(&self, v: Value) {
        let mut g = self.inner.lock().unwrap();
        if g.samples.len() < self.max_samples {
            g.samples.push(v);
        }
    }
    /// keeps the first witness of every signature, counts the rest
    pub fn violation(&self, sig: &str, what: &str, witness: Value) {
        let mut g = self.inner.lock().unwrap();
        let c = g.violation_counts.entry(sig.to_string()).or_insert(0);
        *c += 1;
        if *c == 1 {
            g.violations
                .push((sig.to_string(), what.to_string(), witness));
        }
    }
    pub fn n_violations_of(&self, sig: &str) -> u64 {
        *self
            .inner
            .lock()
            .unwrap()
            .violation_counts
            .get(sig)
            .unwrap_or(&0)
    }
    pub fn inconclusive(&self, why: &str) {
        let mut g = self.inner.lock().unwrap();
        if g.inconclusive.len() < 20 {
            g.inconclusive.push(why.to_string());
        }
    }
    pub fn harness_error(&self, why: &str) {
        let mut g = self.inner.lock().unwrap();
        if g.harness_errors.len() < 20 {
            g.harness_errors.push(why.to_string());
        }
    }
    pub fn to_json(&self) -> Value {
        let g = self.inner.lock().unwrap();
        json!({
            "evaluations": g.evaluations,
            "sigs": g.sigs.iter().map(|s| s.to_string()).collect::<Vec<_>>(),
            "counters": g.counters,
            "samples": g.samples,
            "violations": g.violations.iter().map(|(s, w, v)| json!({"sig": s, "what": w, "witness": v,
                "count": g.violation_counts.get(s).copied().unwrap_or(1)})).collect::<Vec<_>>(),
            "inconclusive": g.inconclusive,
            "harness_errors": g.harness_errors,
            "rejected": g.rejected,
        })
    }
    /// Merge this collector into a report (same process).
    pub fn merge_into(&self, report: &Report) {
        merge_json(report, &self.to_json());
    }
}

/// Merge a worker's JSON document into the report.
pub fn merge_json(report: &Report, v: &Value) {
    let evals = v["evaluations"].as_u64().unwrap_or(0);
    let sigs: Vec<u64> = v["sigs"]
        .as_array()
        .map(|a| {
            a.iter()
                .filter_map(|s| s.as_str().and_then(|s| s.parse().ok()))
                .collect()
        })
        .unwrap_or_default();
    report.cases(evals);
    for s in sigs {
        report.nontrivial(s);
    }
    if let Some(c) = v["counters"].as_object() {
        for (k, n) in c {
            let n = n.as_u64().unwrap_or(0);
            if k.starts_with("max.") {
                let cur = report.counter(k);
                if n > cur {
                    report.count(k, n - cur);
                }
            } else {
                report.count(k, n);
            }
        }
    }
    if let Some(s) = v["samples"].as_array() {
        for x in s {
            report.sample(x.clone());
        }
    }
    if let Some(vs) = v["violations"].as_array() {
        for x in vs {
            let sig = x["sig"].as_str().unwrap_or("?");
            let what = x["what"].as_str().unwrap_or("?");
            let n = x["count"].as_u64().unwrap_or(1);
            report.violation(sig, what, x["witness"].clone());
            report.count(&format!("witnesses.{sig}"), n);
        }
    }
    if let Some(a) = v["inconclusive"].as_array() {
        for x in a {
            report.inconclusive(x.as_str().unwrap_or("?"));
        }
    }
    if let Some(a) = v["harness_errors"].as_array() {
        for x in a {
            report.harness_error(x.as_str().unwrap_or("?"));
        }
    }
    for _ in 0..v["rejected"].as_u64().unwrap_or(0) {
        report.rejected();
    }
}

/// worker threads of a check (`VERIF_THREADS`, default 16)
pub fn verif_threads() -> usize {
    std::env::var("VERIF_THREADS")
        .ok()
        .and_then(|s| s.parse::<usize>().ok())
        .unwrap_or(16)
        .clamp(1, 64)
}
