//! C31 — object writes persist exactly the bytes written (fault enumeration).
//!
//! The real `lance_io::object_writer::ObjectWriter` (through `ObjectStore::create` / `ObjectStore::put`
//! / `ObjectWriter::new`) writes into `MpStore`, an `object_store::ObjectStore` whose multipart
//! implementation is ours: it numbers every storage call of the writer (create-upload, each `put_part`
//! call including retries, `complete`, single `put`), can fail the i-th call permanently or with a
//! "connection reset by peer" error (the only error class the writer promises to retry), delays part
//! completions by seeded yields so that parts finish out of order, records abort, and exposes what is
//! visible through `head`/`list`/`get`. Part numbering follows the `object_store` contract as
//! implemented by its S3/GCS/Azure clients: a part's position is the order of the `put_part` *call*,
//! and `complete` fails with "Missing part" when a called part never finished.
//!
//! Scenario = chunk sequence (sizes around the 5 MiB part size), API flavour, flags. For every
//! scenario: a dry run records the M storage calls, then EVERY call is failed in turn with every fault
//! kind, and the writer is aborted / dropped after every write call and in the middle of shutdown.
//! A tokio current-thread runtime with a paused clock makes the writer's 2–8 s retry back-off free.

use async_trait::async_trait;
use bytes::Bytes;
use futures::stream::BoxStream;
use lance_io::object_store::ObjectStore;
use lance_io::object_writer::ObjectWriter;
use object_store::memory::InMemory;
use object_store::path::Path;
use object_store::{
    GetOptions, GetResult, ListResult, MultipartUpload, ObjectMeta, ObjectStore as OSObjectStore,
    PutMultipartOptions, PutOptions, PutPayload, PutResult, UploadPart,
};
use serde_json::{json, Value};
use std::collections::BTreeMap;
use std::sync::{Arc, Mutex};
use std::time::Duration;
use tokio::io::AsyncWriteExt;
use vmon::prng::{fnv, Rng};
use vmon::report::{Args, Report, Tier};

const MIB: usize = 1024 * 1024;
const PART: usize = 5 * MIB;

const RULE: &str = "Scenario = seeded chunk sequence around the 5 MiB part size x API flavour (write_all / partial \
write / put helper) x flags (constant part size, pre-existing object, part completion order). For each \
scenario a dry run records its storage calls; then every call is failed in turn (permanent; connection \
reset once; connection reset forever for parts) and the writer is aborted / dropped after every write and \
mid-shutdown. A run is non-trivial iff the multipart path was taken (>=1 put_part call reached the store); \
distinct by (chunk size classes, API, flags, injection kind and point).";

// -------------------------------------------------------------------------------------------
// deterministic content
// -------------------------------------------------------------------------------------------

fn mix(mut z: u64) -> u64 {
    z = (z ^ (z >> 30)).wrapping_mul(0xBF58_476D_1CE4_E5B9);
    z = (z ^ (z >> 27)).wrapping_mul(0x94D0_49BB_1331_11EB);
    z ^ (z >> 31)
}

/// bytes [pos, pos+len) of the stream identified by `seed`
fn stream_bytes(seed: u64, pos: usize, len: usize) -> Vec<u8> {
    let mut out = Vec::with_capacity(len + 8);
    let mut p = pos;
    let end = pos + len;
    // unaligned head
    while p < end && p % 8 != 0 {
        out.push((mix(seed.wrapping_add((p / 8) as u64).wrapping_mul(0x9E37_79B9_7F4A_7C15)) >> ((p % 8) * 8)) as u8);
        p += 1;
    }
    while p + 8 <= end {
        out.extend_from_slice(&mix(seed.wrapping_add((p / 8) as u64).wrapping_mul(0x9E37_79B9_7F4A_7C15)).to_le_bytes());
        p += 8;
    }
    while p < end {
        out.push((mix(seed.wrapping_add((p / 8) as u64).wrapping_mul(0x9E37_79B9_7F4A_7C15)) >> ((p % 8) * 8)) as u8);
        p += 1;
    }
    out
}

/// compare an object (as segments) with the stream prefix of the same length
fn equals_stream(seed: u64, segs: &[Bytes]) -> Option<usize> {
    let mut pos = 0usize;
    for s in segs {
        let mut off = 0;
        while off < s.len() {
            let n = (s.len() - off).min(1 << 20);
            let exp = stream_bytes(seed, pos, n);
            if exp[..] != s[off..off + n] {
                let k = (0..n).find(|i| exp[*i] != s[off + *i]).unwrap_or(0);
                return Some(pos + k);
            }
            off += n;
            pos += n;
        }
    }
    None
}

// -------------------------------------------------------------------------------------------
// the controllable store
// -------------------------------------------------------------------------------------------

#[derive(Clone, Copy, Debug, PartialEq, Eq)]
enum FaultKind {
    /// generic error, never retried by the writer
    Permanent,
    /// "connection reset by peer" on exactly this call
    ConnResetOnce,
    /// "connection reset by peer" on this and every later put_part call
    ConnResetForever,
}

impl FaultKind {
    fn name(&self) -> &'static str {
        match self {
            FaultKind::Permanent => "permanent",
            FaultKind::ConnResetOnce => "conn_reset_once",
            FaultKind::ConnResetForever => "conn_reset_forever",
        }
    }
    fn error(&self) -> object_store::Error {
        match self {
            FaultKind::Permanent => object_store::Error::Generic {
                store: "e_io-mp",
                source: "injected permanent failure".into(),
            },
            _ => object_store::Error::Generic {
                store: "e_io-mp",
                source: "injected: Connection reset by peer (os error 104)".into(),
            },
        }
    }
}

#[derive(Clone, Debug, Default)]
struct UploadRec {
    path: String,
    /// the handle was returned to the caller
    returned: bool,
    put_part_calls: usize,
    parts: BTreeMap<usize, Bytes>,
    complete_calls: usize,
    completed: bool,
    abort_calls: usize,
    /// `abort` invalidated the upload (a later `complete` fails)
    invalidated: bool,
}

#[derive(Default)]
struct MpState {
    uploads: Vec<UploadRec>,
    /// kinds of the numbered storage calls, in call order: "create", "part", "complete", "put"
    calls: Vec<&'static str>,
    fault: Option<(usize, FaultKind)>,
    faults_fired: usize,
    delay_seed: u64,
    create_delay: usize,
    /// real stores differ: on some an aborted upload can still be completed
    abort_invalidates: bool,
}

struct MpStore {
    me: std::sync::Weak<MpStore>,
    visible: Arc<InMemory>,
    st: Mutex<MpState>,
}

impl std::fmt::Debug for MpStore {
    fn fmt(&self, f: &mut std::fmt::Formatter<'_>) -> std::fmt::Result {
        write!(f, "MpStore")
    }
}
impl std::fmt::Display for MpStore {
    fn fmt(&self, f: &mut std::fmt::Formatter<'_>) -> std::fmt::Result {
        write!(f, "MpStore")
    }
}

impl MpStore {
    fn new(delay_seed: u64, create_delay: usize, fault: Option<(usize, FaultKind)>, abort_invalidates: bool) -> Arc<Self> {
        Arc::new_cyclic(|me| Self {
            me: me.clone(),
            visible: Arc::new(InMemory::new()),
            st: Mutex::new(MpState {
                fault,
                delay_seed,
                create_delay,
                abort_invalidates,
                ..Default::default()
            }),
        })
    }
    /// number a storage call; returns (call index, fault to apply)
    fn on_call(&self, kind: &'static str) -> (usize, Option<FaultKind>) {
        let mut g = self.st.lock().unwrap();
        let n = g.calls.len();
        g.calls.push(kind);
        let f = match g.fault {
            Some((k, fk)) if k == n => Some(fk),
            Some((k, FaultKind::ConnResetForever)) if n > k && kind == "part" => {
                Some(FaultKind::ConnResetForever)
            }
            _ => None,
        };
        if f.is_some() {
            g.faults_fired += 1;
        }
        (n, f)
    }
    fn part_delay(&self, call: usize) -> usize {
        let g = self.st.lock().unwrap();
        (mix(g.delay_seed.wrapping_add(call as u64)) % 6) as usize
    }
}

#[derive(Debug)]
struct MpUpload {
    store: Arc<MpStore>,
    uid: usize,
    path: Path,
}

#[async_trait]
impl MultipartUpload for MpUpload {
    fn put_part(&mut self, data: PutPayload) -> UploadPart {
        let (call, fault) = self.store.on_call("part");
        let idx = {
            let mut g = self.store.st.lock().unwrap();
            let u = &mut g.uploads[self.uid];
            let idx = u.put_part_calls;
            u.put_part_calls += 1;
            idx
        };
        let delay = self.store.part_delay(call);
        let store = self.store.clone();
        let uid = self.uid;
        Box::pin(async move {
            for _ in 0..delay {
                tokio::task::yield_now().await;
            }
            if let Some(f) = fault {
                return Err(f.error());
            }
            let bytes: Bytes = data.into();
            store.st.lock().unwrap().uploads[uid].parts.insert(idx, bytes);
            Ok(())
        })
    }

    async fn complete(&mut self) -> object_store::Result<PutResult> {
        let (_, fault) = self.store.on_call("complete");
        let segs: Vec<Bytes> = {
            let mut g = self.store.st.lock().unwrap();
            let u = &mut g.uploads[self.uid];
            u.complete_calls += 1;
            if u.invalidated {
                return Err(object_store::Error::Generic {
                    store: "MpStore",
                    source: "NoSuchUpload: the upload was aborted".to_string().into(),
                });
            }
            if u.parts.len() != u.put_part_calls {
                // what object_store's S3 / GCS / Azure clients answer (`Parts::finish`)
                return Err(object_store::Error::Generic {
                    store: "Parts",
                    source: "Missing part".to_string().into(),
                });
            }
            u.parts.values().cloned().collect()
        };
        tokio::task::yield_now().await;
        if let Some(f) = fault {
            return Err(f.error());
        }
        let mut all = Vec::with_capacity(segs.iter().map(|s| s.len()).sum());
        for s in &segs {
            all.extend_from_slice(s);
        }
        let r = self.store.visible.put(&self.path, Bytes::from(all).into()).await?;
        let mut g = self.store.st.lock().unwrap();
        let u = &mut g.uploads[self.uid];
        u.completed = true;
        u.parts.clear();
        Ok(r)
    }

    async fn abort(&mut self) -> object_store::Result<()> {
        let mut g = self.store.st.lock().unwrap();
        let invalidates = g.abort_invalidates;
        let u = &mut g.uploads[self.uid];
        u.abort_calls += 1;
        if invalidates {
            u.invalidated = true;
            u.parts.clear();
        }
        Ok(())
    }
}

#[async_trait]
impl OSObjectStore for MpStore {
    async fn put_opts(&self, location: &Path, payload: PutPayload, opts: PutOptions) -> object_store::Result<PutResult> {
        let (_, fault) = self.on_call("put");
        tokio::task::yield_now().await;
        if let Some(f) = fault {
            return Err(f.error());
        }
        self.visible.put_opts(location, payload, opts).await
    }
    async fn put_multipart_opts(
        &self,
        location: &Path,
        _opts: PutMultipartOptions,
    ) -> object_store::Result<Box<dyn MultipartUpload>> {
        let (_, fault) = self.on_call("create");
        let delay = self.st.lock().unwrap().create_delay;
        for _ in 0..delay {
            tokio::task::yield_now().await;
        }
        if let Some(f) = fault {
            return Err(f.error());
        }
        let uid = {
            let mut g = self.st.lock().unwrap();
            g.uploads.push(UploadRec {
                path: location.to_string(),
                returned: true,
                ..Default::default()
            });
            g.uploads.len() - 1
        };
        // no await between registering the upload and returning the handle
        Ok(Box::new(MpUpload {
            store: self.self_arc(),
            uid,
            path: location.clone(),
        }))
    }
    async fn get_opts(&self, location: &Path, options: GetOptions) -> object_store::Result<GetResult> {
        self.visible.get_opts(location, options).await
    }
    async fn delete(&self, location: &Path) -> object_store::Result<()> {
        self.visible.delete(location).await
    }
    fn list(&self, prefix: Option<&Path>) -> BoxStream<'static, object_store::Result<ObjectMeta>> {
        self.visible.list(prefix)
    }
    async fn list_with_delimiter(&self, prefix: Option<&Path>) -> object_store::Result<ListResult> {
        self.visible.list_with_delimiter(prefix).await
    }
    async fn copy(&self, from: &Path, to: &Path) -> object_store::Result<()> {
        self.visible.copy(from, to).await
    }
    async fn copy_if_not_exists(&self, from: &Path, to: &Path) -> object_store::Result<()> {
        self.visible.copy_if_not_exists(from, to).await
    }
}

impl MpStore {
    fn self_arc(&self) -> Arc<MpStore> {
        self.me.upgrade().expect("store alive")
    }
}

// -------------------------------------------------------------------------------------------
// scenarios
// -------------------------------------------------------------------------------------------

#[derive(Clone, Copy, Debug, PartialEq, Eq)]
enum Api {
    /// ObjectStore::create + write_all per chunk
    WriteAll,
    /// ObjectWriter::new + raw `write` (partial writes looped by the harness) + flush now and then
    PartialWrite,
    /// ObjectStore::put(path, whole content)
    PutHelper,
}

#[derive(Clone, Debug)]
struct Scenario {
    chunks: Vec<usize>,
    api: Api,
    constant_parts: bool,
    pre_existing: bool,
    delay_seed: u64,
    create_delay: usize,
    content_seed: u64,
    flush_every: usize,
    /// `abort` of the store invalidates the upload (else a later `complete` would still succeed)
    abort_invalidates: bool,
}

impl Scenario {
    fn total(&self) -> usize {
        self.chunks.iter().sum()
    }
    fn class(&self) -> String {
        let cls = |n: usize| match n {
            0 => "0".to_string(),
            1 => "1".to_string(),
            x if x == PART - 1 => "P-1".into(),
            x if x == PART => "P".into(),
            x if x == PART + 1 => "P+1".into(),
            x if x < 64 * 1024 => "s".into(),
            x if x < PART => "m".into(),
            x if x < 2 * PART => "l".into(),
            _ => "xl".into(),
        };
        let t = self.total();
        let tc = if t < PART {
            "<P".to_string()
        } else if t % PART == 0 {
            format!("={}P", t / PART)
        } else if t % PART == 1 {
            format!("={}P+1", t / PART)
        } else if t % PART == PART - 1 {
            format!("={}P-1", t / PART + 1)
        } else {
            format!("~{}P", t / PART)
        };
        format!(
            "{:?}|{}|total{}|const={}|pre={}|cd={}",
            self.api,
            self.chunks.iter().map(|c| cls(*c)).collect::<Vec<_>>().join(","),
            tc,
            self.constant_parts,
            self.pre_existing,
            self.create_delay
        )
    }
    fn describe(&self) -> Value {
        json!({"api": format!("{:?}", self.api), "chunks": self.chunks, "total": self.total(),
            "use_constant_size_upload_parts": self.constant_parts, "pre_existing_object": self.pre_existing,
            "part_delay_seed": self.delay_seed, "create_delay_yields": self.create_delay,
            "content_seed": self.content_seed, "flush_every": self.flush_every,
            "store_abort_invalidates_upload": self.abort_invalidates})
    }
}

fn gen_scenario(rng: &mut Rng, idx: u64) -> Scenario {
    let pool: [usize; 14] = [
        0, 1, 1000, 64 * 1024, MIB, 3 * MIB, PART - 1, PART, PART + 1, 7 * MIB, 2 * PART, 2 * PART + 1, 12 * MIB, 313,
    ];
    // a few fixed boundary totals first, then random sequences
    let chunks: Vec<usize> = match idx % 12 {
        0 => vec![PART],
        1 => vec![PART + 1],
        2 => vec![PART - 1],
        3 => vec![PART, PART],
        4 => vec![PART - 1, 1, PART - 1, 1, 1],
        5 => vec![0, 1, 0],
        6 => vec![2 * PART + 1],
        7 => vec![],
        _ => {
            let n = rng.urange(1, 6);
            let mut v: Vec<usize> = (0..n).map(|_| *rng.pick(&pool)).collect();
            // keep a run cheap: at most ~4 parts
            while v.iter().sum::<usize>() > 21 * MIB {
                v.pop();
            }
            if rng.chance(1, 3) {
                let jitter = rng.urange(0, 3);
                v.push(jitter);
            }
            v
        }
    };
    Scenario {
        chunks,
        api: *rng.pick(&[Api::WriteAll, Api::WriteAll, Api::PartialWrite, Api::PutHelper]),
        constant_parts: rng.bool(),
        pre_existing: rng.chance(1, 4),
        delay_seed: rng.next_u64(),
        create_delay: if rng.chance(1, 3) { rng.urange(1, 3) } else { 0 },
        content_seed: rng.next_u64(),
        flush_every: if rng.chance(1, 3) { rng.urange(1, 3) } else { 0 },
        abort_invalidates: idx % 2 == 0,
    }
}

/// what the caller does with the writer after an `abort()` or after a failed write / flush / shutdown
#[derive(Clone, Copy, Debug, PartialEq, Eq)]
enum Cont {
    Drop,
    Shutdown,
    WriteThenShutdown,
    AbortThenShutdown,
    Flush,
}

const CONTS: [Cont; 5] = [Cont::Drop, Cont::Shutdown, Cont::WriteThenShutdown, Cont::AbortThenShutdown, Cont::Flush];

#[derive(Clone, Copy, Debug, PartialEq, Eq)]
enum Inject {
    None,
    /// `abort()` after this many write calls, then the continuation
    AbortThen(usize, Cont),
    /// fail storage call `call`; if a write / flush / shutdown returns an error, the continuation follows
    FaultThen { call: usize, kind: FaultKind, cont: Cont },
    Fault { call: usize, kind: FaultKind },
    /// `abort()` after this many write calls
    AbortAfter(usize),
    /// drop the writer after this many write calls
    DropAfter(usize),
    /// poll `shutdown` this many times, then drop future and writer
    DropDuringShutdown(usize),
}

impl Inject {
    fn class(&self, calls: &[&'static str]) -> String {
        match self {
            Inject::None => "none".into(),
            Inject::Fault { call, kind } => {
                let k = calls.get(*call).copied().unwrap_or("?");
                let nth = calls[..(*call).min(calls.len())].iter().filter(|c| **c == k).count();
                format!("fault:{}#{}:{}", k, nth, kind.name())
            }
            Inject::AbortAfter(n) => format!("abort@{n}"),
            Inject::AbortThen(n, c) => format!("abort-then-{c:?}@{n}"),
            Inject::FaultThen { call, kind, cont } => {
                let k = calls.get(*call).copied().unwrap_or("?");
                let nth = calls[..(*call).min(calls.len())].iter().filter(|c| **c == k).count();
                format!("fault-then-{cont:?}:{}#{}:{}", k, nth, kind.name())
            }
            Inject::DropAfter(n) => format!("drop@{n}"),
            Inject::DropDuringShutdown(n) => format!("drop-in-shutdown@{n}"),
        }
    }
}

#[derive(Clone, Debug, PartialEq)]
enum RunResult {
    Ok { size: usize },
    Err(String),
    Aborted,
    Dropped,
    Hang,
}

#[derive(Clone, Debug)]
struct Outcome {
    result: RunResult,
    calls: Vec<&'static str>,
    faults_fired: usize,
    /// the destination showed new content before shutdown was called
    visible_early: Option<String>,
    /// object at the destination afterwards
    object: Option<Bytes>,
    uploads: Vec<UploadRec>,
    accepted: usize,
    old: Option<Bytes>,
    /// what the continuation calls returned
    cont_log: Vec<String>,
}

const DEST: &str = "data/obj.bin";

async fn dest_state(store: &MpStore) -> (Option<Bytes>, bool) {
    let p = Path::from(DEST);
    let head_ok = store.visible.head(&p).await.is_ok();
    let listed: Vec<ObjectMeta> = futures::TryStreamExt::try_collect(store.visible.list(None))
        .await
        .unwrap_or_default();
    let in_list = listed.iter().any(|m| m.location == p);
    let body = match store.visible.get(&p).await {
        Ok(r) => r.bytes().await.ok(),
        Err(_) => None,
    };
    (body, head_ok || in_list)
}

async fn settle() {
    for _ in 0..64 {
        tokio::task::yield_now().await;
    }
}

/// One call of the continuation, bounded: with the paused clock a call that would never return times
/// out at once; a panic is recorded. Neither is part of the property (only the destination is).
async fn cont_step<T>(name: &str, log: &std::cell::RefCell<Vec<String>>, fut: impl std::future::Future<Output = Result<T, String>>) {
    use futures::FutureExt;
    let r = tokio::time::timeout(Duration::from_secs(3600), std::panic::AssertUnwindSafe(fut).catch_unwind()).await;
    let text = match r {
        Err(_) => format!("{name}: never returns"),
        Ok(Err(p)) => {
            let m = p
                .downcast_ref::<String>()
                .cloned()
                .or_else(|| p.downcast_ref::<&str>().map(|s| s.to_string()))
                .unwrap_or_default();
            format!("{name}: panicked {}", m.chars().take(100).collect::<String>())
        }
        Ok(Ok(Ok(_))) => format!("{name}: ok"),
        Ok(Ok(Err(e))) => format!("{name}: err {}", e.chars().take(100).collect::<String>()),
    };
    log.borrow_mut().push(text);
}

async fn continuation(w: &mut ObjectWriter, cont: Cont, log: &std::cell::RefCell<Vec<String>>) {
    match cont {
        Cont::Drop => {}
        Cont::Shutdown => {
            cont_step("shutdown", log, async { w.shutdown().await.map_err(|e| e.to_string()) }).await;
        }
        Cont::WriteThenShutdown => {
            let more = vec![0xA5u8; 1000];
            cont_step("write", log, async { w.write(&more).await.map_err(|e| e.to_string()) }).await;
            cont_step("shutdown", log, async { w.shutdown().await.map_err(|e| e.to_string()) }).await;
        }
        Cont::AbortThenShutdown => {
            cont_step("abort", log, async {
                w.abort().await;
                Ok::<(), String>(())
            })
            .await;
            cont_step("shutdown", log, async { w.shutdown().await.map_err(|e| e.to_string()) }).await;
        }
        Cont::Flush => {
            cont_step("flush", log, async { w.flush().await.map_err(|e| e.to_string()) }).await;
        }
    }
}

async fn run_one(scn: &Scenario, inj: Inject) -> Outcome {
    let fault = match inj {
        Inject::Fault { call, kind } => Some((call, kind)),
        Inject::FaultThen { call, kind, .. } => Some((call, kind)),
        _ => None,
    };
    let fault_cont = match inj {
        Inject::FaultThen { cont, .. } => Some(cont),
        _ => None,
    };
    let cont_log: std::cell::RefCell<Vec<String>> = std::cell::RefCell::new(vec![]);
    let store = MpStore::new(scn.delay_seed, scn.create_delay, fault, scn.abort_invalidates);
    let path = Path::from(DEST);
    let old = if scn.pre_existing {
        let b = Bytes::from(stream_bytes(scn.content_seed ^ 0xdead, 0, 777));
        store.visible.put(&path, b.clone().into()).await.unwrap();
        Some(b)
    } else {
        None
    };
    let lance_store = ObjectStore::new(
        store.clone(),
        url::Url::parse("memory:///").unwrap(),
        None,
        None,
        scn.constant_parts,
        true,
        8,
        3,
        None,
    );
    let mut visible_early: Option<String> = None;
    let mut accepted = 0usize;
    let body = async {
        if scn.api == Api::PutHelper {
            // one call does create + write_all + shutdown; only fault injection applies
            let content = stream_bytes(scn.content_seed, 0, scn.total());
            accepted = content.len();
            return match lance_store.put(&path, &content).await {
                Ok(r) => RunResult::Ok { size: r.size },
                Err(e) => RunResult::Err(e.to_string()),
            };
        }
        let mut w = match scn.api {
            Api::WriteAll => match lance_store.create(&path).await {
                Ok(w) => w,
                Err(e) => return RunResult::Err(format!("create: {e}")),
            },
            _ => match ObjectWriter::new(&lance_store, &path).await {
                Ok(w) => w,
                Err(e) => return RunResult::Err(format!("new: {e}")),
            },
        };
        let check_early = |st: (Option<Bytes>, bool), when: String, old: &Option<Bytes>, ve: &mut Option<String>| {
            let changed = match (&st.0, old) {
                (Some(b), Some(o)) => b != o,
                (Some(_), None) => true,
                (None, Some(_)) => true,
                (None, None) => st.1,
            };
            if changed && ve.is_none() {
                *ve = Some(when);
            }
        };
        for (i, len) in scn.chunks.iter().enumerate() {
            match inj {
                Inject::AbortAfter(n) if n == i => {
                    w.abort().await;
                    drop(w);
                    return RunResult::Aborted;
                }
                Inject::AbortThen(n, cont) if n == i => {
                    w.abort().await;
                    continuation(&mut w, cont, &cont_log).await;
                    drop(w);
                    return RunResult::Aborted;
                }
                Inject::DropAfter(n) if n == i => {
                    drop(w);
                    return RunResult::Dropped;
                }
                _ => {}
            }
            let data = stream_bytes(scn.content_seed, accepted, *len);
            match scn.api {
                Api::WriteAll => {
                    if let Err(e) = w.write_all(&data).await {
                        if let Some(cont) = fault_cont {
                            continuation(&mut w, cont, &cont_log).await;
                        }
                        drop(w);
                        return RunResult::Err(format!("write_all[{i}]: {e}"));
                    }
                    accepted += data.len();
                }
                _ => {
                    let mut off = 0;
                    while off < data.len() {
                        match w.write(&data[off..]).await {
                            Ok(0) => {
                                drop(w);
                                return RunResult::Err(format!("write[{i}] returned 0"));
                            }
                            Ok(n) => {
                                off += n;
                                accepted += n;
                            }
                            Err(e) => {
                                if let Some(cont) = fault_cont {
                                    continuation(&mut w, cont, &cont_log).await;
                                }
                                drop(w);
                                return RunResult::Err(format!("write[{i}]: {e}"));
                            }
                        }
                    }
                    if scn.flush_every > 0 && (i + 1) % scn.flush_every == 0 {
                        if let Err(e) = w.flush().await {
                            if let Some(cont) = fault_cont {
                                continuation(&mut w, cont, &cont_log).await;
                            }
                            drop(w);
                            return RunResult::Err(format!("flush[{i}]: {e}"));
                        }
                    }
                }
            }
            check_early(dest_state(&store).await, format!("after write {i}"), &old, &mut visible_early);
        }
        let n = scn.chunks.len();
        match inj {
            Inject::AbortAfter(k) if k >= n => {
                w.abort().await;
                drop(w);
                return RunResult::Aborted;
            }
            Inject::AbortThen(k, cont) if k >= n => {
                w.abort().await;
                continuation(&mut w, cont, &cont_log).await;
                drop(w);
                return RunResult::Aborted;
            }
            Inject::DropAfter(k) if k >= n => {
                drop(w);
                return RunResult::Dropped;
            }
            Inject::DropDuringShutdown(polls) => {
                {
                    let fut = w.shutdown();
                    tokio::pin!(fut);
                    for _ in 0..polls {
                        if let std::task::Poll::Ready(r) = futures::poll!(fut.as_mut()) {
                            // finished before we could drop it: a normal completion
                            return match r {
                                Ok(r) => RunResult::Ok { size: r.size },
                                Err(e) => RunResult::Err(format!("shutdown: {e}")),
                            };
                        }
                        tokio::task::yield_now().await;
                    }
                }
                drop(w);
                return RunResult::Dropped;
            }
            _ => {}
        }
        check_early(dest_state(&store).await, "before shutdown".into(), &old, &mut visible_early);
        let r = match w.shutdown().await {
            Ok(r) => {
                // shutdown is idempotent for the caller
                let _ = w.shutdown().await;
                RunResult::Ok { size: r.size }
            }
            Err(e) => {
                // a failed close followed by another generic close step
                if let Some(cont) = fault_cont {
                    continuation(&mut w, cont, &cont_log).await;
                }
                RunResult::Err(format!("shutdown: {e}"))
            }
        };
        drop(w);
        r
    };
    // paused clock: a real hang auto-advances to this deadline immediately
    let result = match tokio::time::timeout(Duration::from_secs(24 * 3600), body).await {
        Ok(r) => r,
        Err(_) => RunResult::Hang,
    };
    settle().await;
    let (object, _) = dest_state(&store).await;
    let g = store.st.lock().unwrap();
    let out = Outcome {
        result,
        calls: g.calls.clone(),
        faults_fired: g.faults_fired,
        visible_early,
        object,
        uploads: g.uploads.clone(),
        accepted,
        old,
        cont_log: cont_log.borrow().clone(),
    };
    drop(g);
    out
}

/// The oracle. Returns (signature, what) for every refuting observation.
fn judge(scn: &Scenario, inj: Inject, o: &Outcome) -> Vec<(String, String)> {
    let mut v = vec![];
    let path_kind = if o.calls.iter().any(|c| *c == "part") { "multipart" } else { "single-put" };
    if let Some(when) = &o.visible_early {
        v.push((
            format!("destination-changed-before-shutdown-{path_kind}"),
            format!("destination showed new content {when}"),
        ));
    }
    match &o.result {
        RunResult::Ok { size } => {
            match &o.object {
                None => v.push((
                    format!("no-object-after-successful-shutdown-{path_kind}"),
                    "shutdown returned Ok but nothing is at the destination".into(),
                )),
                Some(b) => {
                    if b.len() != o.accepted {
                        v.push((
                            format!("object-length-differs-from-written-bytes-{path_kind}"),
                            format!("object has {} bytes, {} were written", b.len(), o.accepted),
                        ));
                    } else if let Some(pos) = equals_stream(scn.content_seed, &[b.clone()]) {
                        v.push((
                            format!("object-content-differs-from-written-bytes-{path_kind}"),
                            format!("first difference at byte {pos} (part size {PART}: part {}, offset {})", pos / PART, pos % PART),
                        ));
                    }
                }
            }
            if *size != o.accepted {
                v.push((
                    "reported-size-differs-from-written-bytes".into(),
                    format!("WriteResult.size = {size}, written = {}", o.accepted),
                ));
            }
        }
        RunResult::Err(_) | RunResult::Aborted | RunResult::Dropped => {
            let how = match (&o.result, inj) {
                (RunResult::Aborted, Inject::AbortThen(_, c)) => format!("abort-then-{}", cont_name(c)),
                (RunResult::Err(_), Inject::FaultThen { cont, .. }) if !o.cont_log.is_empty() || cont == Cont::Drop => {
                    format!("failed-write-then-{}", cont_name(cont))
                }
                (RunResult::Err(_), _) => "failed-write".to_string(),
                (RunResult::Aborted, _) => "abort".to_string(),
                _ => "drop".to_string(),
            };
            let left = match (&o.object, &o.old) {
                (None, None) => None,
                (Some(b), Some(old)) if b == old => None,
                (Some(_), None) => Some("an object was left at the destination"),
                (Some(_), Some(_)) => Some("the pre-existing object was replaced"),
                (None, Some(_)) => Some("the pre-existing object disappeared"),
            };
            if let Some(what) = left {
                // a `complete`/`put` that fails *after* the store applied it is not generated here
                v.push((format!("object-left-after-{how}-{path_kind}"), what.to_string()));
            }
            for u in &o.uploads {
                if u.returned && u.complete_calls == 0 && u.abort_calls == 0 {
                    v.push((
                        format!("dangling-upload-after-{how}"),
                        format!(
                            "multipart upload for {} with {} put_part calls was neither completed nor aborted",
                            u.path, u.put_part_calls
                        ),
                    ));
                }
            }
        }
        RunResult::Hang => {}
    }
    v
}

fn cont_name(c: Cont) -> &'static str {
    match c {
        Cont::Drop => "drop",
        Cont::Shutdown => "shutdown",
        Cont::WriteThenShutdown => "write-and-shutdown",
        Cont::AbortThenShutdown => "abort-and-shutdown",
        Cont::Flush => "flush",
    }
}

fn witness(seed: u64, idx: u64, scn: &Scenario, inj: Inject, o: &Outcome) -> Value {
    json!({"seed": seed as i64, "scenario_index": idx, "scenario": scn.describe(), "injection": format!("{inj:?}"),
        "injection_class": inj.class(&o.calls), "storage_calls": o.calls, "result": format!("{:?}", o.result),
        "accepted_bytes": o.accepted, "continuation_calls": o.cont_log,
        "object_after": o.object.as_ref().map(|b| json!({"len": b.len(), "fnv": fnv(b).to_string()})),
        "uploads": o.uploads.iter().map(|u| json!({"returned": u.returned, "put_part_calls": u.put_part_calls,
            "parts_finished": u.parts.len(), "complete_calls": u.complete_calls, "completed": u.completed,
            "abort_calls": u.abort_calls})).collect::<Vec<_>>(),
        "expected": "Ok => object == concatenation of accepted writes and size matches; before shutdown the destination is unchanged; Err/abort/drop => destination unchanged and upload aborted unless complete() was reached"})
}

fn rt_paused() -> tokio::runtime::Runtime {
    tokio::runtime::Builder::new_current_thread()
        .enable_all()
        .start_paused(true)
        .build()
        .expect("runtime")
}

/// Everything that is enumerated for one scenario. Returns false if the time budget cut it short.
fn run_scenario(report: &Report, seed: u64, idx: u64, scn: &Scenario, selftest: bool) -> bool {
    let exec = |inj: Inject| -> Outcome {
        let rt = rt_paused();
        let o = rt.block_on(run_one(scn, inj));
        drop(rt);
        o
    };
    let record = |inj: Inject, mut o: Outcome| {
        if selftest {
            // damage the observation: flip one byte of the object / pretend an object was left
            match (&o.result, &o.object) {
                (RunResult::Ok { .. }, Some(b)) if !b.is_empty() => {
                    let mut x = b.to_vec();
                    let k = x.len() / 2;
                    x[k] ^= 1;
                    o.object = Some(Bytes::from(x));
                }
                (RunResult::Ok { .. }, _) => o.object = None,
                _ => o.object = Some(Bytes::from_static(b"leftover")),
            }
        }
        let multipart = o.calls.iter().any(|c| *c == "part");
        let class = inj.class(&o.calls);
        let sig = fnv(format!("{}|{}", scn.class(), class).as_bytes());
        report.case(if multipart { Some(sig) } else { None });
        report.count("runs", 1);
        report.count(if multipart { "runs_multipart" } else { "runs_single_put" }, 1);
        report.count("bytes_written", o.accepted as u64);
        report.count("storage_calls_observed", o.calls.len() as u64);
        let outcome_name = match &o.result {
            RunResult::Ok { .. } => "ok",
            RunResult::Err(_) => "err",
            RunResult::Aborted => "aborted",
            RunResult::Dropped => "dropped",
            RunResult::Hang => "hang",
        };
        let inj_kind = class.split('#').next().unwrap_or("").split('@').next().unwrap_or("").to_string();
        let inj_kind = match inj {
            Inject::Fault { kind, .. } => format!("{}:{}", inj_kind, kind.name()),
            Inject::AbortThen(_, c) => format!("abort-then-{}", cont_name(c)),
            Inject::FaultThen { cont, .. } => format!("fault-then-{}:{}", cont_name(cont), class.split(':').nth(1).unwrap_or("").split('#').next().unwrap_or("")),
            _ => inj_kind,
        };
        for l in &o.cont_log {
            let mut it = l.splitn(2, ": ");
            let (call, res) = (it.next().unwrap_or(""), it.next().unwrap_or(""));
            let res = res.split(' ').next().unwrap_or("");
            let after = if matches!(inj, Inject::AbortThen(..)) { "abort" } else { "failed_call" };
            report.count(&format!("continuation.after_{after}.{call}.{res}"), 1);
        }
        if let Some(l) = o.cont_log.iter().find(|l| l.contains("panicked") || l.contains("never returns")) {
            let key = if l.contains("panicked") { "continuation_panic_example" } else { "continuation_never_returns_example" };
            report.set(key, json!({"scenario": scn.describe(), "injection": class.clone(), "result": format!("{:?}", o.result), "continuation_calls": o.cont_log}));
        }
        if !o.cont_log.is_empty() || matches!(inj, Inject::AbortThen(_, Cont::Drop)) {
            report.count("continuation_runs", 1);
        }
        report.count(&format!("inject.{inj_kind}.{outcome_name}"), 1);
        if matches!(inj, Inject::Fault { .. } | Inject::FaultThen { .. }) {
            if o.faults_fired == 0 {
                report.count("fault_not_reached", 1);
            }
        }
        if o.result == RunResult::Hang {
            report.count("writer_hang", 1);
            report.inconclusive(&format!(
                "scenario {idx} {:?}: writer did not finish (paused clock ran to the 24 h deadline); not judged",
                inj
            ));
        }
        // diagnostics that are not part of the property
        for u in &o.uploads {
            if u.returned && !u.completed && u.abort_calls == 0 && u.complete_calls > 0 {
                report.count("uploads_neither_completed_nor_aborted_after_complete_was_reached", 1);
            }
            if u.abort_calls > 0 {
                report.count("uploads_aborted", 1);
            }
        }
        let vs = judge(scn, inj, &o);
        if selftest {
            if vs.is_empty() && o.result != RunResult::Hang {
                report.count("selftest_missed", 1);
            } else {
                report.count("selftest_flagged", 1);
            }
            return;
        }
        for (s, what) in vs {
            report.violation(&s, &what, witness(seed, idx, scn, inj, &o));
        }
        if report.want_sample() && multipart && !matches!(inj, Inject::None) && idx % 5 == 1 {
            report.sample(json!({"scenario": scn.describe(), "injection": class, "storage_calls": o.calls,
                "result": format!("{:?}", o.result), "object_after": o.object.as_ref().map(|b| b.len())}));
        }
    };

    // dry run: the calls to enumerate
    let dry = exec(Inject::None);
    let calls = dry.calls.clone();
    record(Inject::None, dry);
    let mut complete = true;
    let mut plan: Vec<Inject> = vec![];
    for (i, k) in calls.iter().enumerate() {
        plan.push(Inject::Fault { call: i, kind: FaultKind::Permanent });
        plan.push(Inject::Fault { call: i, kind: FaultKind::ConnResetOnce });
        if *k == "part" {
            plan.push(Inject::Fault { call: i, kind: FaultKind::ConnResetForever });
        }
    }
    if scn.api != Api::PutHelper {
        for n in 0..=scn.chunks.len() {
            plan.push(Inject::AbortAfter(n));
            plan.push(Inject::DropAfter(n));
        }
        for polls in [1usize, 2, 3, 5, 9] {
            plan.push(Inject::DropDuringShutdown(polls));
        }
        // what a caller may still do with the writer after abort() / after a failed call: the
        // destination must stay untouched whatever the continuation returns
        let n = scn.chunks.len();
        let mut points = vec![0usize, n];
        if n >= 2 {
            points.push(n / 2);
        }
        points.sort();
        points.dedup();
        for at in points {
            for c in CONTS {
                plan.push(Inject::AbortThen(at, c));
            }
        }
        // one fault point per kind of storage call (first create, first and last part, complete, put)
        let mut fault_points: Vec<usize> = vec![];
        for kind in ["create", "part", "complete", "put"] {
            if let Some(i) = calls.iter().position(|k| *k == kind) {
                fault_points.push(i);
            }
        }
        if let Some(i) = calls.iter().rposition(|k| *k == "part") {
            fault_points.push(i);
        }
        fault_points.sort();
        fault_points.dedup();
        for call in fault_points {
            for c in CONTS {
                plan.push(Inject::FaultThen { call, kind: FaultKind::Permanent, cont: c });
            }
        }
    }
    let started = std::time::Instant::now();
    for inj in plan {
        // a started scenario is enumerated completely (bounded: a few seconds); only a pathological
        // slowdown cuts it short
        if started.elapsed().as_secs() > 60 {
            complete = false;
            break;
        }
        let o = exec(inj);
        record(inj, o);
    }
    report.count("scenarios", 1);
    report.count(&format!("scenario_api.{:?}", scn.api), 1);
    report.count("fault_points_enumerated", calls.len() as u64);
    if complete {
        report.count("scenarios_fully_enumerated", 1);
    }
    complete
}

/// Local file system leg: the same writer over `ObjectStore::local()` (staged multipart file +
/// rename). No fault injection; visibility, content and leftovers are checked on the real directory.
fn local_fs_case(report: &Report, seed: u64, idx: u64, rng: &mut Rng) {
    let dir = match tempfile::Builder::new().prefix("e_io-c31-").tempdir_in("/tmp") {
        Ok(d) => d,
        Err(e) => {
            report.harness_error(&format!("tempdir: {e}"));
            return;
        }
    };
    let chunks: Vec<usize> = match idx % 3 {
        0 => vec![PART + 1, 17],
        1 => vec![1000, 2 * MIB],
        _ => vec![PART, PART - 1, 2],
    };
    let how = rng.below(3); // 0 shutdown, 1 abort, 2 drop
    let content_seed = rng.next_u64();
    let file = dir.path().join("sub").join("obj.bin");
    let rt = tokio::runtime::Builder::new_current_thread().enable_all().build().unwrap();
    let res: Result<(), String> = rt.block_on(async {
        let mut w = ObjectStore::create_local_writer(&file).await.map_err(|e| e.to_string())?;
        let mut pos = 0;
        for c in &chunks {
            let d = stream_bytes(content_seed, pos, *c);
            w.write_all(&d).await.map_err(|e| e.to_string())?;
            pos += c;
            if file.exists() {
                report.violation(
                    "destination-changed-before-shutdown-local-fs",
                    "destination file exists before shutdown",
                    json!({"seed": seed as i64, "local_case": idx, "chunks": chunks, "after_bytes": pos}),
                );
            }
        }
        match how {
            0 => {
                let r = w.shutdown().await.map_err(|e| e.to_string())?;
                let got = std::fs::read(&file).map_err(|e| e.to_string())?;
                let bad = got.len() != pos || equals_stream(content_seed, &[Bytes::from(got)]).is_some() || r.size != pos;
                if bad {
                    report.violation(
                        "object-content-differs-from-written-bytes-local-fs",
                        "file differs from the written bytes",
                        json!({"seed": seed as i64, "local_case": idx, "chunks": chunks}),
                    );
                }
            }
            1 => {
                w.abort().await;
                drop(w);
            }
            _ => drop(w),
        }
        for _ in 0..50 {
            tokio::task::yield_now().await;
        }
        tokio::time::sleep(Duration::from_millis(20)).await;
        Ok(())
    });
    if let Err(e) = res {
        report.harness_error(&format!("local fs case {idx}: {e}"));
        return;
    }
    let multipart = chunks.iter().sum::<usize>() >= PART;
    if how != 0 {
        let mut leftovers = vec![];
        if let Ok(rd) = std::fs::read_dir(file.parent().unwrap()) {
            for e in rd.flatten() {
                leftovers.push(e.file_name().to_string_lossy().to_string());
            }
        }
        if file.exists() {
            report.violation(
                &format!("object-left-after-{}-local-fs", if how == 1 { "abort" } else { "drop" }),
                "destination file exists after abort/drop",
                json!({"seed": seed as i64, "local_case": idx, "chunks": chunks, "dir": leftovers}),
            );
        }
        if !leftovers.is_empty() {
            report.count("local_fs.staged_files_left_after_abort_or_drop", leftovers.len() as u64);
        }
    }
    report.case(if multipart {
        Some(fnv(format!("local|{chunks:?}|{how}").as_bytes()))
    } else {
        None
    });
    report.count("local_fs.cases", 1);
}

pub fn run(args: &Args) -> i32 {
    let selftest = args.extra.contains_key("selftest");
    let report = Report::new(args, "fault_enumeration", RULE, (35, 900)).with_min_nontrivial(30);
    report.assume("part order and the \"Missing part\" check of `complete` follow object_store's S3/GCS/Azure clients (position = order of the put_part call)");
    report.assume("a store that applies complete/put and then reports failure (lost reply) is not generated: no writer could leave the destination clean then");
    report.assume("part size growth after 100 parts (500 MiB) is exercised only in the thorough tier");
    std::panic::set_hook(Box::new(|_| {}));
    let threads = crate::sink::verif_threads().min(12);
    let max_scenarios: u64 = args.tier.pick(2_000, 200_000);
    let all_complete = std::sync::atomic::AtomicBool::new(true);
    let next = std::sync::atomic::AtomicU64::new(0);
    std::thread::scope(|s| {
        for _ in 0..threads {
            s.spawn(|| loop {
                let idx = next.fetch_add(1, std::sync::atomic::Ordering::SeqCst);
                if idx >= max_scenarios || !report.time_left() {
                    break;
                }
                let mut rng = Rng::for_case(args.seed, idx);
                if idx % 40 == 39 && !selftest {
                    local_fs_case(&report, args.seed, idx, &mut rng);
                    continue;
                }
                let scn = gen_scenario(&mut rng, idx);
                let r = std::panic::catch_unwind(std::panic::AssertUnwindSafe(|| {
                    run_scenario(&report, args.seed, idx, &scn, selftest)
                }));
                match r {
                    Ok(true) => {}
                    Ok(false) => all_complete.store(false, std::sync::atomic::Ordering::SeqCst),
                    Err(p) => {
                        let msg = p
                            .downcast_ref::<String>()
                            .cloned()
                            .or_else(|| p.downcast_ref::<&str>().map(|s| s.to_string()))
                            .unwrap_or_default();
                        report.violation(
                            "panic-in-object-writer",
                            &format!("panic while writing: {msg}"),
                            json!({"seed": args.seed as i64, "scenario_index": idx, "scenario": scn.describe()}),
                        );
                    }
                }
            });
        }
        if args.tier == Tier::Thorough && !selftest {
            // part-size growth beyond 100 parts, once per flag value (about 0.5 GiB each, run alone)
            s.spawn(|| {
                for constant in [false, true] {
                    let scn = Scenario {
                        chunks: std::iter::repeat(PART).take(100).chain([2 * PART + 3, PART + 1, 7]).collect(),
                        api: Api::WriteAll,
                        constant_parts: constant,
                        pre_existing: false,
                        delay_seed: 7,
                        create_delay: 0,
                        content_seed: 99 + constant as u64,
                        flush_every: 0,
                        abort_invalidates: true,
                    };
                    let rt = rt_paused();
                    let o = rt.block_on(run_one(&scn, Inject::None));
                    let parts = o.calls.iter().filter(|c| **c == "part").count();
                    report.count("large.cases_over_100_parts", 1);
                    report.count("large.parts", parts as u64);
                    report.case(Some(fnv(format!("large|{constant}|{parts}").as_bytes())));
                    for (sg, what) in judge(&scn, Inject::None, &o) {
                        let mut w = witness(args.seed, u64::MAX, &scn, Inject::None, &o);
                        w["scenario"]["chunks"] = json!("100 x 5 MiB, 10 MiB + 3, 5 MiB + 1, 7");
                        report.violation(&format!("{sg}-over-100-parts"), &what, w);
                    }
                }
            });
        }
    });
    // exhaustive for the sub-space "every storage call of every executed scenario x fault kinds,
    // abort/drop after every write" iff no scenario was cut short by the budget
    let full = report.counter("scenarios_fully_enumerated");
    let total = report.counter("scenarios");
    report.set(
        "exhaustive_subspace",
        json!("per executed scenario: every storage call x {permanent, connection reset once, connection reset forever (parts)}, abort and drop after every write call, drop after 1/2/3/5/9 polls of shutdown"),
    );
    report.exhaustive(full == total && total > 0);
    if selftest {
        let missed = report.counter("selftest_missed");
        let flagged = report.counter("selftest_flagged");
        println!("SELFTEST C31 flagged={flagged} missed={missed}");
        return if missed == 0 && flagged > 0 { 0 } else { 2 };
    }
    report.finish()
}
